#!/venv/bin/python
"""Robustness sweep: apply a behaviour-preserving AST transformation (rename of every local / commuted products / reformat)
to EVERY function of one source file at a time (scratch copy, removed afterwards) and run all 20 checks.  Any VIOLATION
is a false alarm (name or spelling dependence of a rule); exit 2 means an anchor was tied to a spelling.

usage: robust_sweep.py [rename|commute|swapcmp|flipif|reformat] [file ...]"""
import ast, os, shutil, subprocess, sys, tempfile
from concurrent.futures import ThreadPoolExecutor
from pathlib import Path
sys.path.insert(0, "/verif")
from pvs.selftest import transforms

kind = sys.argv[1] if len(sys.argv) > 1 else "rename"
root = Path("/repo/tdgl")
files = [Path(a) for a in sys.argv[2:]] or sorted(p for p in root.rglob("*.py") if "test" not in p.parts and p.name != "__init__.py")


def quals(tree):
    out = []
    def rec(body, pre):
        for n in body:
            if isinstance(n, ast.FunctionDef):
                out.append(pre + n.name)
            elif isinstance(n, ast.ClassDef):
                rec(n.body, pre + n.name + ".")
    rec(tree.body, "")
    return out


def one(f):
    rel = f.relative_to(root)
    src = f.read_text()
    s = src
    n = 0
    if kind == "reformat":
        s = transforms.reformat(s)
        n = 1
    else:
        for q in quals(ast.parse(src)):
            s2 = {"rename": transforms.rename_locals, "commute": transforms.commute_mult, "swapcmp": transforms.swap_compare,
                  "flipif": transforms.flip_if, "tempret": transforms.temp_return, "tempattr": transforms.temp_attr_store, "inline": transforms.inline_alias}[kind](s, q)
            if s2 is not None:
                s = s2
                n += 1
    if s == src:
        return rel, n, {}
    tmp = Path(tempfile.mkdtemp(prefix="pvs_rs_"))
    try:
        shutil.copytree(root, tmp / "tdgl", ignore=shutil.ignore_patterns("__pycache__", "test"))
        shutil.copytree("/repo/docs", tmp / "docs", ignore=shutil.ignore_patterns("*.ipynb", "images", "_build"))
        (tmp / "tdgl" / rel).write_text(s)
        res = {}
        for i in range(1, 21):
            p = f"C{i:02d}"
            env = dict(os.environ, PVS_REPO=str(tmp), PVS_EVIDENCE_DIR=str(tmp / "ev"))
            r = subprocess.run(["/venv/bin/python", "-m", "pvs.check", p], cwd="/verif", capture_output=True, text=True, env=env)
            if r.returncode != 0:
                lines = [l.strip()[:230] for l in r.stdout.splitlines() if "[R" in l[:70] or l.startswith("ANALYSIS")]
                res[p] = (r.returncode, lines[:2])
        return rel, n, res
    finally:
        shutil.rmtree(tmp, ignore_errors=True)


bad = 0
with ThreadPoolExecutor(8) as ex:
    for rel, n, res in ex.map(one, files):
        print(f"{rel}: {n} functions transformed; {'clean' if not res else ''}")
        for p, (rc, lines) in res.items():
            bad += 1
            print(f"   {p} rc={rc} {lines}")
print("alarms:", bad)
sys.exit(1 if bad else 0)
