#!/bin/bash
# run all twenty quick checks on /repo (parallel), print one line per check
cd /verif
seq -w 1 20 | xargs -P ${JOBS:-10} -I{} sh -c '/venv/bin/python -m pvs.check C{} --tier quick > /tmp/q_C{}.log 2>&1; echo "C{} exit=$? $(tail -1 /tmp/q_C{}.log | cut -c1-120)"' | sort
