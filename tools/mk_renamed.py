#!/venv/bin/python
"""mk_renamed.py <dest> <kind> <relfile> [qual ...]: scratch copy of /repo/tdgl with the functions of one file transformed."""
import ast, shutil, sys
from pathlib import Path
sys.path.insert(0, "/verif")
from pvs.selftest import transforms
dest, kind, rel = Path(sys.argv[1]), sys.argv[2], sys.argv[3]
only = sys.argv[4:]
shutil.rmtree(dest, ignore_errors=True)
shutil.copytree("/repo/tdgl", dest / "tdgl", ignore=shutil.ignore_patterns("__pycache__", "test"))
shutil.copytree("/repo/docs", dest / "docs", ignore=shutil.ignore_patterns("*.ipynb", "images", "_build"))
p = dest / "tdgl" / rel
s = p.read_text()
def quals(tree):
    out = []
    def rec(body, pre):
        for n in body:
            if isinstance(n, ast.FunctionDef): out.append(pre + n.name)
            elif isinstance(n, ast.ClassDef): rec(n.body, pre + n.name + ".")
    rec(tree.body, "")
    return out
for q in (only or quals(ast.parse(s))):
    f = {"rename": transforms.rename_locals, "commute": transforms.commute_mult}[kind]
    s2 = f(s, q)
    if s2 is not None: s = s2
p.write_text(s)
