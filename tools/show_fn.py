#!/venv/bin/python
"""usage: show_fn.py <module> <qualname> [patch.diff]  -- print the analyser's (canonicalised, inlined) view of one function,
optionally of a scratch export of /repo HEAD with the patch applied."""
import ast
import os
import shutil
import subprocess
import sys
import tempfile
from pathlib import Path

sys.path.insert(0, str(Path(__file__).resolve().parents[1]))


def main():
    mod, qual = sys.argv[1], sys.argv[2]
    patch = sys.argv[3] if len(sys.argv) > 3 else None
    tmp = None
    if patch:
        tmp = tempfile.mkdtemp(prefix="pvs_show_", dir="/tmp")
        subprocess.run(f"git -C /repo archive HEAD | tar -x -C {tmp}", shell=True, check=True)
        subprocess.run(["git", "apply", os.path.abspath(patch)], cwd=tmp, check=True)
        os.environ["PVS_REPO"] = tmp
    try:
        from pvs.src import Repo
        r = Repo()
        fi = r.func(mod, qual)
        print(ast.unparse(fi.node))
    finally:
        if tmp:
            shutil.rmtree(tmp, ignore_errors=True)


main()
