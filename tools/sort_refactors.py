#!/venv/bin/python
"""Sort a directory of behaviour-preserving patches by the log of tools/try_refactors.py: silent ones join the thorough corpus
(pvs/selftest/refactors/), the others are kept apart in pvs/selftest/refactors_outside/ with a table of what alarmed.
usage: sort_refactors.py <dir-with-diffs> <try_refactors log>"""
import re, shutil, sys
from pathlib import Path

src, log = Path(sys.argv[1]), Path(sys.argv[2]).read_text().splitlines()
inside, outside = Path("/verif/pvs/selftest/refactors"), Path("/verif/pvs/selftest/refactors_outside")
outside.mkdir(exist_ok=True)
res, cur = {}, None
for line in log:
    m = re.match(r"(\S+\.diff): ?(silent|DOES NOT APPLY)?", line)
    if m:
        cur = Path(m.group(1)).name
        res[cur] = {"state": m.group(2) or "alarm", "alarms": []}
    elif cur and line.startswith("   C"):
        p, rc, rest = re.match(r"\s+(C\d\d) rc=(\d) (.*)", line).groups()
        rule = re.search(r"\[(R\d\d\.\d+)\]", rest)
        res[cur]["alarms"].append((p, int(rc), rule.group(1) if rule else "", rest[:200]))
rows = []
for name, r in sorted(res.items()):
    f = src / name
    if not f.exists():
        continue
    if r["state"] == "silent":
        shutil.copy(f, inside / name)
    else:
        shutil.copy(f, outside / name)
        viol = sorted({f"{p} {rule}".strip() for p, rc, rule, _ in r["alarms"] if rc == 1})
        err = sorted({p for p, rc, rule, _ in r["alarms"] if rc == 2})
        why = next((t for p, rc, rule, t in r["alarms"]), r["state"])
        rows.append(f"| {name} | {', '.join(viol) or '-'} | {', '.join(err) or '-'} | {why[:150].replace('|', '/')} |")
for readme in src.glob("*README.md"):
    shutil.copy(readme, inside / readme.name)
n_in = sum(1 for r in res.values() if r["state"] == "silent")
(outside / "README.md").write_text(
    "# Behaviour-preserving refactorings the checks do not yet read (round 4)\n\n"
    "Each patch was confirmed equivalent by its author's harness (see the round-4 README files in ../refactors/).  A false `VIOLATION` here is a defect of\n"
    "the machinery, an `ANALYSIS-ERROR` says the construct is outside the fragment the rule can read.  They are kept apart from the thorough corpus until\n"
    "the rules are re-based; DESIGN 9.17 lists what each one needs.\n\n"
    f"silent (joined the corpus): {n_in}; kept here: {len(rows)}\n\n"
    "| patch | false VIOLATION (check rule) | ANALYSIS-ERROR in | first report |\n|---|---|---|---|\n" + "\n".join(rows) + "\n")
print("silent", n_in, "outside", len(rows))
