#!/venv/bin/python
"""Run the thorough tier of the given properties and print the per-variant table."""
import json, subprocess, sys
props = sys.argv[1:] or [f"C{i:02d}" for i in range(1, 21)]
for p in props:
    r = subprocess.run(["/venv/bin/python", "-m", "pvs.check", p, "--tier", "thorough"], capture_output=True, text=True, cwd="/verif")
    line = [l for l in r.stdout.splitlines() if l.startswith((p, "ANALYSIS"))]
    print(p, "rc", r.returncode, line[-1][:300] if line else r.stdout[-300:])
    if r.returncode == 2:
        # re-run in-process to show the table
        import os
        os.environ.pop("PVS_REPO", None)
        sys.path.insert(0, "/verif")
        from pvs.report import Ctx
        from pvs.selftest import runner
        ctx = Ctx(p, "thorough")
        try:
            runner.run_for(ctx)
        except Exception as e:
            pass
        for row in ctx.extra.get("selftest", {}).get("variants", []):
            bad = (row["kind"] == "break" and row["outcome"] == "silent") or (row["kind"] == "equiv" and row["outcome"] != "silent" and row["outcome"] != "skipped")
            if bad or row["outcome"] in ("skipped",):
                print("   ", row["kind"], row["outcome"], "|", row["note"], "|", str(row["detail"])[:260])
