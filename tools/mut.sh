#!/bin/bash
# usage: mut.sh PROP file 'sed-expr'   -- run a check against a scratch copy with one edit
set -e
S=/tmp/pvs_scr; rm -rf $S; mkdir -p $S; cp -r /repo/tdgl $S/tdgl; cp -r /repo/docs $S/docs 2>/dev/null || true
sed -i "$3" $S/tdgl/$2
if diff -q /repo/tdgl/$2 $S/tdgl/$2 >/dev/null; then echo "NO CHANGE"; fi
diff /repo/tdgl/$2 $S/tdgl/$2 | head -6
/venv/bin/python -c "import ast,sys; ast.parse(open('$S/tdgl/$2').read())"
cd /verif && PVS_EVIDENCE_DIR=$S/ev PVS_REPO=$S /venv/bin/python -m pvs.check $1 | cut -c1-400 | tail -${4:-4}
rm -rf $S
