#!/venv/bin/python
"""Run all 20 checks against every behaviour-preserving refactoring patch (dir of *.diff files): any non-zero exit is a false alarm.
usage: try_refactors.py <dir-with-diffs> [...]"""
import os, shutil, subprocess, sys, tempfile
from concurrent.futures import ThreadPoolExecutor
from pathlib import Path

diffs = []
for d in sys.argv[1:]:
    diffs += sorted(Path(d).resolve().rglob("*.diff"))


def one(diff):
    tmp = Path(tempfile.mkdtemp(prefix="pvs_rf_"))
    try:
        subprocess.run(f"git -C /repo archive HEAD | tar -x -C {tmp}", shell=True, check=True)
        ap = subprocess.run(["git", "apply", str(diff)], cwd=tmp, capture_output=True, text=True)
        if ap.returncode != 0:
            ap = subprocess.run(["patch", "-p1", "-s", "-i", str(diff)], cwd=tmp, capture_output=True, text=True)
        if ap.returncode != 0:
            return diff, None
        comp = subprocess.run(["/venv/bin/python", "-m", "compileall", "-q", "tdgl"], cwd=tmp, capture_output=True, text=True)
        res = {}
        for i in range(1, 21):
            p = f"C{i:02d}"
            env = dict(os.environ, PVS_REPO=str(tmp), PVS_EVIDENCE_DIR=str(tmp / "ev"))
            r = subprocess.run(["/venv/bin/python", "-m", "pvs.check", p], cwd="/verif", capture_output=True, text=True, env=env)
            if r.returncode != 0:
                lines = [l.strip()[:260] for l in r.stdout.splitlines() if "[R" in l[:80] or l.startswith("ANALYSIS")]
                res[p] = (r.returncode, lines[:2])
        return diff, res
    finally:
        shutil.rmtree(tmp, ignore_errors=True)


bad = 0
with ThreadPoolExecutor(int(os.environ.get("JOBS", "6"))) as ex:
    for diff, res in ex.map(one, diffs):
        if res is None:
            print(f"{diff}: DOES NOT APPLY")
            continue
        print(f"{diff}: {'silent' if not res else ''}", flush=True)
        for p, (rc, lines) in res.items():
            bad += 1
            print(f"   {p} rc={rc} {lines}", flush=True)
print("patches:", len(diffs), "alarms:", bad)
sys.exit(1 if bad else 0)
