#!/venv/bin/python
"""Prints the markdown table of seeded changes from /verif/seeded/*/meta.json (DESIGN.md section 9.4).
With --write, replaces the block between the SEED-TABLE markers in DESIGN.md."""
import json, glob, os, re, sys
rows = []
caught_own = caught_any = total = 0
for d in sorted(glob.glob("/verif/seeded/*")):
    mp = os.path.join(d, "meta.json")
    if not os.path.exists(mp):
        continue
    m = json.load(open(mp))
    c = m.get("confirmation", {})
    fired = c.get("checks_fired", {})
    viol = {k: v for k, v in fired.items() if v.get("exit") == 1}
    err = [k for k, v in fired.items() if v.get("exit") == 2]
    rules = sorted({re.search(r"\[(R\d+\.\d+)\]", r).group(1) for v in viol.values() for r in v.get("reports", []) if re.search(r"\[(R\d+\.\d+)\]", r)})
    demo = f"{c.get('demo_without_change', {}).get('exit')}/{c.get('demo_with_change', {}).get('exit')}"
    base = "705 pass" if c.get("baseline", {}).get("ok") else "not confirmed"
    total += 1
    prop = m.get("property")
    caught_any += bool(viol)
    caught_own += prop in viol
    clean = lambda t: " ".join(str(t).replace("|", "/").split())
    rows.append(f"| {os.path.basename(d)} | {clean(m.get('summary', ''))[:230]} | {clean(m.get('needs', ''))[:170]} | {demo} | {base} | "
                f"{', '.join(sorted(viol)) or '**none**'}{(' (exit 2: ' + ', '.join(err) + ')') if err else ''} | {', '.join(rules)} |")
head = (f"{total} confirmed seeded changes; {caught_any} are reported as a violation by at least one check, {caught_own} by the check of the property "
        f"they were written against (the others by a neighbouring property's check, which the table names).\n\n"
        "| seed | change | needs | demo exit without/with | baseline with change | checks reporting a violation | rules |\n|---|---|---|---|---|---|---|\n")
table = head + "\n".join(rows) + "\n"
if "--write" in sys.argv:
    p = "/verif/DESIGN.md"
    s = open(p).read()
    a, b = "<!-- SEED-TABLE-BEGIN -->", "<!-- SEED-TABLE-END -->"
    if a not in s:
        s = s.replace("(see the table at the end of this file, updated as the changes were confirmed)", f"{a}\n{b}")
    s = s[:s.index(a) + len(a)] + "\n" + table + s[s.index(b):]
    open(p, "w").write(s)
    print("DESIGN.md updated:", total, "seeds")
else:
    print(table)
