#!/venv/bin/python
"""Prints the markdown table of seeded changes from /verif/seeded/*/meta.json (for DESIGN.md section 9.4)."""
import json, glob, os
rows = []
for d in sorted(glob.glob("/verif/seeded/*")):
    mp = os.path.join(d, "meta.json")
    if not os.path.exists(mp):
        continue
    m = json.load(open(mp))
    c = m.get("confirmation", {})
    fired = c.get("checks_fired", {})
    det = ", ".join(f"{k} (exit {v['exit']})" for k, v in fired.items()) or "none"
    rules = sorted({r.split("]")[0].split("[")[-1] for v in fired.values() for r in v.get("reports", []) if "[R" in r})
    demo = f"{c.get('demo_without_change', {}).get('exit')}/{c.get('demo_with_change', {}).get('exit')}"
    base = "ok" if c.get("baseline", {}).get("ok") else str(c.get("baseline", {}).get("summary", "not run"))[:30]
    rows.append(f"| {os.path.basename(d)} | {m.get('property')} | {m.get('summary', '')[:150].replace('|', '/')} | {m.get('needs', '')[:140].replace('|', '/')} | {demo} | {base} | {det} | {', '.join(rules)} |")
print("| seed | property | change | needs | demo exit (without/with) | 705-test baseline with change | checks that fire | rules |")
print("|---|---|---|---|---|---|---|---|")
print("\n".join(rows))
