#!/bin/bash
# usage: try_patch.sh patch.diff [props...]  -- run checks against a scratch export of /repo HEAD with the patch
S=$(mktemp -d /tmp/pvs_try_XXXX); git -C /repo archive HEAD | tar -x -C $S
( cd $S && git apply "$1" 2>/dev/null || patch -p1 -s -i "$1" ) || echo "PATCH FAILED"
shift
PROPS=${@:-$(seq -f "C%02g" 1 20)}
for p in $PROPS; do out=$(cd /verif && PVS_EVIDENCE_DIR=$S/ev PVS_REPO=$S /venv/bin/python -m pvs.check $p 2>&1); rc=$?; if [ $rc -ne 0 ]; then echo "$p rc=$rc"; echo "$out" | grep -E "^\s+(tdgl|\[)|ANALYSIS" | cut -c1-260 | head -4; fi; done
rm -rf $S
