#!/venv/bin/python
"""Regenerates /verif/MANIFEST.json from the table below (run after adding a check)."""
import json
from pathlib import Path

V = Path(__file__).resolve().parent.parent
PY = "/venv/bin/python"

BASELINE_CMD = ("cd /repo && /venv/bin/python -m pytest -ra -q -p no:cacheprovider --timeout=900 "
                "--continue-on-collection-errors --junitxml=/tmp/pvs_baseline.junit.xml")

# id -> (built, level, technique, text, note)
CHECKS = {
 "C01": (True, "other", "linear-operator word rewriting + COO block algebra + finite-domain evaluation + predicate classification (ast)",
   "Decides the algebra of conservation: D(Js+Jn) - B mu_b reduces to 0 as operator words using mu = L^-1 rhs and L = D@G (the latter "
   "established on symbolic COO blocks of the operators the solver actually builds, with no identity rows / link variable in the mu operators); "
   "boundary-flux columns integrate to the edge length; the terminal density is -(1/L_t) * sum of the other terminals' currents stored on exactly "
   "the terminal's boundary edges for every terminal and every outcome of the change-detection cache (3 terminals, 8 paths), with L_t summed over the same edge set; J_scale equals 4[I]/[L]/K0 as an exact term in the unit sizes and is "
   "applied once; the balance test on the summed currents must be a tolerance test. Necessary conditions in exact arithmetic, not residual sizes.",
   "Trusted: pvs normaliser/semantic table, SuperLU/pardiso solve L mu = rhs. Declined: numerical size of the per-cell residual."),
 "C02": (True, "other", "symbolic value numbering of solve_for_psi_squared vs documented z, w, quad-root, psi-sol; CFG refusal discipline",
   "Evaluates the update function symbolically (exact complex rational normal forms; sqrt atom with s^2 = discriminant) and shows, for the whole "
   "per-site input space at once: returned |psi'|^2 and psi' equal the documented root / psi-sol, psi' + z x - w == 0, |psi'|^2 - x == 0, x is "
   "real with numerator 2|w|^2, the branch stays finite at gamma = 0; the value return is dominated by the false branch of any(disc < 0) with a strict "
   "test, sqrt only after the test; floating-point underflow must not be promoted to a refusal.",
   "Exact arithmetic; cancellation error of the root and overflow are declined. Spec transcribed from docs/background.rst (labels checked)."),
 "C03": (True, "proof", "COO block algebra over abstractly interpreted operator builders; exact rational normal forms",
   "Decides, for every mesh at once, the algebraic identities behind the property: L = D@G, area-weighted column sums of D vanish, "
   "boundary-flux columns integrate to the edge length, diag(a)L is the weighted graph Laplacian W[[-1,1],[1,-1]] per edge with zero row sums, "
   "diag(a)L(A) is Hermitian with the link variable on exactly the off-diagonal blocks, gradient rows are (f[e1]-f[e0])/|e| with the edge vector "
   "oriented e0->e1. Each is an identity between symbolic COO blocks extracted from the current builders by abstract interpretation of their AST.",
   "Trusted: pvs normaliser and numpy/scipy semantic table (COO duplicates add, einsum 'ij,ij->i', exp, isin). Declined: positivity of dual edge "
   "lengths and mesh connectivity (needed for 'negative semi-definite, kernel = constants'), rounding."),
 "C04": (True, "other", "gauge-transformation substitution on symbolic COO blocks; who-may-write audit",
   "Applies psi_i -> psi_i X_i, U_ij -> U_ij X_i/X_j (X unit atoms) to every block of the covariant gradient/Laplacian (fresh and refreshed, pinned "
   "and unpinned) and checks covariance exactly; the supercurrent is invariant; one link variable exp(-iA.e) everywhere; a constant shift of mu is a "
   "global phase of psi' and leaves |psi'|^2; only MeshOperators writes the covariant operators and the solver hands it A_applied(+A_induced).",
   "Operator-level and per-step only; agreement of two whole runs to rounding is declined."),
 "C05": (True, "other", "typestate on the statement CFG of the run loop; sibling agreement; shape domain {1,many}; prefix-sum typing",
   "Runner._run_stage and Runner.run are followed statement by statement over a finite abstract domain (91 + 6 scenarios: steps to the end time x save interval x "
   "{no interrupt, KeyboardInterrupt in the n-th update / n-th save} x {cancel, pause+cancel, pause+resume}; thermalisation on/off) with a model update function and frame writer, "
   "and the recorded trace (LABEL / UPDATE / ADVANCE / SAVE / CLEAR / CURSOR) is judged: every frame labelled (step s, time t) holds the state after s updates with t = s*dt; frames at 0, k, 2k, ... and the final "
   "step, each once; the run stops at the first step whose time reaches the end time; records appended once per update under the guards under which they are declared; cursor/clear discipline; the record "
   "writer's rank vs the reader's on the abstract shape domain; thermalisation never saved and clock reset; reported times are exclusive prefix sums.",
   "Exceptions only at the two injection points the property names; h5py creation order trusted."),
 "C06": (True, "other", "fixed-point obligation on an identity row (value numbering); row-mask typing of COO blocks; def-use wiring rules",
   "Shows psi' == v on a pinned row (identity row with the eigenvalue the code uses) for v = 0 and for symbolic v, that every non-identity block of a "
   "pinned Laplacian is masked by its row index in builder and refresh, that nothing is masked when terminal_psi is None, and that the solver pins "
   "exactly the terminals' boundary sites under `terminal_psi is not None`.",
   "The static obligation is the per-step fixed point; it does not bound drift sizes."),
 "C07": (True, "other", "value numbering of the circumcentre formula and edge geometry; structural rules on edge extraction / dual-length branches",
   "Narrow claim: only the closed-form clauses - circumcentre equidistance identity, edges as sorted unique pairs with boundary = one incident "
   "triangle, edge vectors/lengths/centres from the site pairs, the two dual-length branches and the +1/-1 adjacency offset, and that only unsigned area primitives flow into the cell areas. These are necessary "
   "conditions for the dual quantities being Voronoi quantities; tiling, Delaunay property, clipped boundary cells are declined.",
   "Everything computed by Triangle/qhull/shapely is declined (listed in evidence.declined_clauses)."),
 "C08": (True, "other", "dimension typing with exact unit-size factors (model of pint) + symbolic flux sum",
   "Runs the repository's own pint expressions through a model of pint in which the user's units have unknown sizes kL, kB, kI: every .to() is between "
   "equal dimensions; A_scale, J_scale, the screening weights and the Device constants equal their physical definitions as exact terms (so the "
   "dimensionless problem is unit independent); the link exponents around a symbolic triangle in a uniform field sum to 2 pi B Area/Phi0.",
   "pint's conversion tables trusted; equality of two whole runs to rounding declined."),
 "C09": (True, "other", "whole-library effect audit (taint of nondeterminism sources, set consumers, prange race rules, np.empty coverage)",
   "Enumerates every source of nondeterminism in the library and shows each flows only to log text, exempt timestamp fields, a cache key or a "
   "raise decision; no order-dependent use of sets; every prange loop writes only rows of its own index with private accumulators (no schedule-"
   "dependent reduction); every np.empty buffer is fully overwritten before it is read.",
   "External native code (Triangle, SuperLU, qhull, BLAS, numba codegen) assumed deterministic on one machine."),
 "C10": (True, "other", "sibling agreement builder vs in-place refresh by abstract interpretation on symbolic vector potentials; guard/baseline dataflow rule",
   "Interprets MeshOperators symbolically through sequences A1->A2(->A3) and compares the refreshed matrices block by block (masks included) with a "
   "fresh build for the last potential, for pinned / unpinned / no terminals; every link-variable block is refreshed and nothing else; in "
   "TDGLSolver.update a guarded refresh must keep its baseline current on every path (tolerance guards must not forget it, exact guards must update it), screening refreshes are unconditional and every definition of the induced potential reaches the psi update only through a refresh.",
   "scipy __setitem__ overwrites existing entries; cupy branch declined."),
 "C11": (True, "other", "who-may-read audit of recording options; write-effect audit of observers; table/signature agreement; C05 typestate",
   "Recording options are read only by the runner/handler/construction site/post-processing; the update gets only (state, buffer, dt, **values); "
   "the save path and probe readout write only to HDF5 objects, own counters and the record buffer; fresh and seed state tables agree with each other "
   "and with update()'s signature; same label => same content inherits the typestate of C05.",
   "Bit-equality of resumed runs as a whole is declined."),
 "C12": (True, "other", "value numbering of the adaptive block vs eq. dt-tentative; structural/CFG rules on the retry loop; def-use of dt",
   "The proposed step equals clip(1/2(dt + dt_init/max(1e-10, windowed mean)), 0, dt_max) under adaptive and step > window with one history value "
   "per update; non-adaptive runs never reassign the step; the retry loop multiplies exactly once between solves, exits only by success or by "
   "raising on the retry bound; the dt recorded/returned/added to the clock is the one of the last accepted solve.",
   "dt_init > 0 assumed (not validated by the library)."),
 "C13": (True, "other", "loop-nest summarisation of numba/cupy kernels; value numbering of the Polyak step; loop exit discipline",
   "Both kernels summarise to the documented direct double sum (accelerated == direct by form); call sites pass arguments in parameter order; the "
   "Polyak update and relative error are the documented ones and are fed the total current; the screening loop can only be left converged, by raising, or with screening off - never by exhausting a bounded iterator; "
   "screening off passes the induced potential through unchanged.",
   "Convergence/contraction of the iteration declined."),
 "C14": (True, "other", "writer/reader sibling agreement over HDF5 keys; Optional-default rule; slot coverage of __getstate__",
   "For six serialisable classes the keys written equal the keys read, optional keys are optional on both sides, readers feed every constructor "
   "parameter; options: Optional fields must survive the drop-None writer; Mesh.is_restorable tests the written key set; custom __getstate__ covers "
   "assigned slots; callables use the same names; format detection keys on something always written; readers never default a stored falsy value; equality never truncates sequences.",
   "h5py/cloudpickle fidelity trusted."),
 "C15": (True, "other", "acquire/release pairing on exception edges (CFG); context-manager discipline; open-mode audit; create-then-fill rule",
   "No exception edge leaves a file acquisition while an earlier file of the same attempt is open and on disk, and guarded resource variables are reset per attempt; the handler is only used as a "
   "context manager whose __exit__ always closes and never swallows; all h5py.File modes are r/x (r+ only on the own file); the interrupt handler "
   "either resumes or cancels and a cancelled recorded stage still yields a Solution; frame groups are complete or absent.",
   "h5py close() flushes; asynchronous interrupts between bookkeeping statements outside the model."),
 "C16": (True, "other", "operator-table exhaustiveness; abstract interpretation over operand kinds; isinstance-dominance; slot definite assignment",
   "All ten dunders pass (self, other)/(other, self) with the matching operator; __call__ equals operator(left value, right value) with t passed to "
   "exactly the time-dependent operands and time_dependent is the OR, for all 8 operand-kind pairs; every operand attribute access is dominated by "
   "isinstance on that operand and exists on every admitted class; equality is structural; the cache key covers every call argument; the solver's interface exists on every subclass.",
   "Operands' own values opaque."),
 "C17": (True, "other", "chain of exact identities at the symbolic uniform state (block row sums, value numbering with verified sqrt witness)",
   "At A = 0 the link variable is 1 and the rows of the covariant operators sum to zero (unpinned terminals); the update returns (1, 1) for all "
   "gamma, u, dt; supercurrent of a constant psi vanishes and zero terminal currents give zero flux; the initial condition is psi = 1, mu = 0.",
   "Exact arithmetic; floating-point exactness and growth of the adaptive step declined."),
 "C18": (True, "other", "dispatch-table agreement; alias discipline for inplace; who-may-write on stored vertices; boolean structure",
   "Operators/methods/from_* constructors/_join_via agree on the operation; with an inplace flag stores go through the alias only; copies are deep; "
   "only the setter writes the stored vertices, after orient and close_curve; membership is film and not any hole.",
   "Geometry computed by shapely/matplotlib declined."),
 "C19": (True, "other", "dominance of validation over the first file-creating statement; call-graph audit; finite-domain range evaluation",
   "On the inlined flow __init__; solve(): no file-creating call is reachable before the DataHandler block, all input validation precedes it, only "
   "state-dependent errors (or allow-listed re-validations) can be raised after it; each class of ill-posed input has a guard depending on that "
   "input and each documented option range is enforced at its end points.",
   "Sampling validator for callable currents cannot be exhaustive (declined)."),
 "C20": (True, "other", "loop-nest summarisation of Biot-Savart/distance kernels; degree check; pint model; value numbering of the loop potential",
   "The vector kernel equals mu0/4pi sum a K x r / r^3 component by component, the z kernel equals its third component, all outputs are degree-1 in "
   "the currents; SI factors in biot_savart_2d and the four convert_field cases are exact; totals are exactly the sum of parts; the loop potential "
   "equals the documented elliptic-integral closed form with azimuthal direction; distance kernels and cdist dispatch are the named metrics; no post-processing function writes into its array arguments.",
   "Agreement with numerical quadrature declined."),
}

# sentences appended to the claim text for rules added after the second round of seeded changes
FRESH = " Aliasing rule: no TDGLSolver/MeshOperators method returns a view of an attribute-held buffer (flow-ordered may-alias analysis)."
PURE = " Effect rule: no function of the package writes into an array it was handed (frozen output-parameter table excepted)."
CARRIED = " State rule: the attributes update() both writes and reads across calls stay within the confirmed carried-state table."
MESHIMM = " Who-may-write rule: Mesh/EdgeMesh geometry (and the x/y views of it) is written by the constructors only."
TRACE_UPDATE = (" Rules about TDGLSolver.update() are predicates on 180 traces of the method (pvs/update_trace.py: it is followed statement by statement over a finite abstract "
                "domain for dynamic A {off, changed, unchanged} x dynamic epsilon x probes x adaptive x screening {off, converges at evaluation 1/2/3, never}), "
                "so they do not depend on how update() is arranged.")
TRACE_LOOP = (" Rules about the simulation loop are predicates on the traces of Runner._run_stage / Runner.run (pvs/run_trace.py, 97 scenarios incl. interrupts in "
              "the n-th update / save with cancel, pause and resume).")
EXTRA = {
 "C01": FRESH, "C02": CARRIED + TRACE_UPDATE, "C05": TRACE_UPDATE, "C12": TRACE_UPDATE + TRACE_LOOP, "C13": TRACE_UPDATE,
 "C14": " Writer/reader agreement (R14.1, R14.6, R14.12, R14.13) is decided by symbolic HDF5 round trips (pvs/h5model.py): the writer is followed into a model group - per optional "
        "attribute set / unset, per collection empty, per writer flag - and the reader is followed on exactly that group.",
 "C16": " Leaf equality (R16.11) is a decision table obtained by following Parameter.__eq__ on pairs that differ in exactly one respect.",
 "C19": " SolverOptions.validate and validate_terminal_currents are followed on boundary samples / balanced, unbalanced and misspelt currents.",
 "C20": " cdist dispatch and the unit conversion of every returned part are decided by following the functions (reaching definitions, 9 dispatch scenarios).", "C03": MESHIMM, "C07": MESHIMM, "C09": PURE, "C11": FRESH + PURE + CARRIED + TRACE_UPDATE + TRACE_LOOP,
 "C15": FRESH + PURE + TRACE_LOOP + " The output-file protocol (R15.1-R15.3) is judged on traces of DataHandler._create_output_file / close / __exit__ against a model file "
        "system (pvs/handler_trace.py: name exists, name and -1 exist, stale tmp file, ...).",
 "C18": MESHIMM + " Set operations, the inplace discipline and the points setter (R18.1, R18.2, R18.4) are decided by following the methods with symbolic operands.",
 "C04": " No caller may build the order-parameter operators without link variables (None) when a later refresh stores complex values into them." + TRACE_UPDATE,
 "C10": " Static dtype: a refresh that stores complex link variables into operators assembled from real entries is a difference (also explored "
        "with the first potential identically zero when the builders test the values of the potential); no caller passes None for the potential." + TRACE_UPDATE,
}

NOT_YET = "checker not yet built in this session (static rule planned in DESIGN.md section 3)"
ALL = [f"C{i:02d}" for i in range(1, 21)]


def _rules_of(pid):
    import importlib, sys
    sys.path.insert(0, str(V))
    from pvs.report import Ctx
    mod = importlib.import_module(f"pvs.props.{pid.lower()}")
    ctx = Ctx(pid, "quick")
    try:
        mod.check(ctx)
    except Exception as e:          # the manifest must stay valid even when a check is broken on the current tree
        return [], getattr(mod, "TECH", "")
    out = []
    for rid, text in sorted(ctx.rule_text.items(), key=lambda kv: [int(x) for x in kv[0][1:].split(".")]):
        t = " ".join(text.split())
        out.append(f"{rid}: {t[:200]}{'...' if len(t) > 200 else ''} [{ctx.counts.get(rid, 0)}]")
    return out, getattr(mod, "TECH", "")


def main():
    checks, na = [], []
    for pid in ALL:
        ent = CHECKS.get(pid)
        if not ent or not ent[0]:
            na.append({"property_id": pid, "reason": (ent[4] if ent else NOT_YET)})
            continue
        _, level, tech, text, note = ent
        text = text + EXTRA.get(pid, "")
        # the rules the check actually runs today (declared by the check itself): ids, what each decides, instances on the current tree
        rules, mod_tech = _rules_of(pid)
        if rules:
            text += " Rules run on every invocation (id: what is decided [instances on the current tree]): " + "; ".join(rules) + "."
        if mod_tech:
            tech = mod_tech
        checks.append({
            "property_id": pid,
            "quick_cmd": f"{PY} -m pvs.check {pid} --tier quick",
            "thorough_cmd": f"{PY} -m pvs.check {pid} --tier thorough",
            "evidence_file": f"/verif/evidence/{pid}.json",
            "replay_cmd_template": f"{PY} -m pvs.check --replay {{path}}",
            "engine": "pvs",
            "level_claimed": {"category": level, "text": text, "design_ref": f"DESIGN.md section 3, {pid}"},
            "level_note": note,
            "technique": tech,
        })
    man = {
        "version": 1,
        "setup_cmd": f"cd /verif && {PY} -m compileall -q pvs && {PY} -m pvs.selfcheck",
        "hooks": {
            "guard": "PY_TDGL_VERIF",
            "enable": "none needed: the checks read /repo's source with ast and never execute it; no hook commit exists",
            "baseline_off_cmd": BASELINE_CMD,
            "source_commits": json.loads((V / "source_commits.json").read_text()) if (V / "source_commits.json").exists() else [],
            "add_only": True,
        },
        "engines": [{
            "name": "pvs", "path": "/verif/pvs",
            "serves_properties": [c["property_id"] for c in checks],
            "kind_free_text": "repository-specific static analyser: ast source model, callee resolution, statement CFG, "
                              "abstract interpreter with exact rational-function normal forms and COO block algebra",
        }],
        "checks": checks,
        "not_applicable": na,
        "notes": "Static analysis only: every check parses /repo/tdgl with ast on each run; nothing is imported or executed. "
                 "Exit 0 held / 1 VIOLATION / 2 ANALYSIS-ERROR (vanished anchor, unsupported idiom, instance floor).",
    }
    (V / "MANIFEST.json").write_text(json.dumps(man, indent=1) + "\n")
    import jsonschema
    jsonschema.validate(man, json.load(open("/root/.vp/MANIFEST.schema.json")))
    print("MANIFEST ok:", len(checks), "checks,", len(na), "not_applicable")


if __name__ == "__main__":
    main()
