#!/venv/bin/python
"""Regenerates /verif/MANIFEST.json from the table below (run after adding a check)."""
import json
from pathlib import Path

V = Path(__file__).resolve().parent.parent
PY = "/venv/bin/python"

BASELINE_CMD = ("cd /repo && /venv/bin/python -m pytest -ra -q -p no:cacheprovider --timeout=900 "
                "--continue-on-collection-errors --junitxml=/tmp/pvs_baseline.junit.xml")

# id -> (built, level, technique, text, note)
CHECKS = {
 "C03": (True, "proof", "COO block algebra over abstractly interpreted operator builders; exact rational normal forms",
   "Decides, for every mesh at once, the algebraic identities behind the property: L = D@G, area-weighted column sums of D vanish, "
   "boundary-flux columns integrate to the edge length, diag(a)L is the weighted graph Laplacian W[[-1,1],[1,-1]] per edge with zero row sums, "
   "diag(a)L(A) is Hermitian with the link variable on exactly the off-diagonal blocks, gradient rows are (f[e1]-f[e0])/|e| with the edge vector "
   "oriented e0->e1. Each is an identity between symbolic COO blocks extracted from the current builders by abstract interpretation of their AST. "
   "It decides the form (a necessary and, in exact arithmetic, sufficient condition for the stated identities), not floating-point residuals.",
   "Trusted: pvs normaliser and numpy/scipy semantic table (COO duplicates add, einsum 'ij,ij->i', exp, isin). Declined: positivity of dual edge "
   "lengths and mesh connectivity (needed for 'negative semi-definite, kernel = constants'), rounding."),
}

NOT_YET = "checker not yet built in this session (static rule planned in DESIGN.md section 3)"
ALL = [f"C{i:02d}" for i in range(1, 21)]


def main():
    checks, na = [], []
    for pid in ALL:
        ent = CHECKS.get(pid)
        if not ent or not ent[0]:
            na.append({"property_id": pid, "reason": (ent[4] if ent else NOT_YET)})
            continue
        _, level, tech, text, note = ent
        checks.append({
            "property_id": pid,
            "quick_cmd": f"{PY} -m pvs.check {pid} --tier quick",
            "thorough_cmd": f"{PY} -m pvs.check {pid} --tier thorough",
            "evidence_file": f"/verif/evidence/{pid}.json",
            "replay_cmd_template": f"{PY} -m pvs.check --replay {{path}}",
            "engine": "pvs",
            "level_claimed": {"category": level, "text": text, "design_ref": f"DESIGN.md section 3, {pid}"},
            "level_note": note,
            "technique": tech,
        })
    man = {
        "version": 1,
        "setup_cmd": f"cd /verif && {PY} -m compileall -q pvs && {PY} -m pvs.selfcheck",
        "hooks": {
            "guard": "PY_TDGL_VERIF",
            "enable": "none needed: the checks read /repo's source with ast and never execute it; no hook commit exists",
            "baseline_off_cmd": BASELINE_CMD,
            "source_commits": json.loads((V / "source_commits.json").read_text()) if (V / "source_commits.json").exists() else [],
            "add_only": True,
        },
        "engines": [{
            "name": "pvs", "path": "/verif/pvs",
            "serves_properties": [c["property_id"] for c in checks],
            "kind_free_text": "repository-specific static analyser: ast source model, callee resolution, statement CFG, "
                              "abstract interpreter with exact rational-function normal forms and COO block algebra",
        }],
        "checks": checks,
        "not_applicable": na,
        "notes": "Static analysis only: every check parses /repo/tdgl with ast on each run; nothing is imported or executed. "
                 "Exit 0 held / 1 VIOLATION / 2 ANALYSIS-ERROR (vanished anchor, unsupported idiom, instance floor).",
    }
    (V / "MANIFEST.json").write_text(json.dumps(man, indent=1) + "\n")
    import jsonschema
    jsonschema.validate(man, json.load(open("/root/.vp/MANIFEST.schema.json")))
    print("MANIFEST ok:", len(checks), "checks,", len(na), "not_applicable")


if __name__ == "__main__":
    main()
