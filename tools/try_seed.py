#!/venv/bin/python
"""Quick look: apply one or more patch files to a scratch export of /repo HEAD and run all twenty checks on it (in parallel).
usage: try_seed.py <patch.diff> [...]"""
import os, shutil, subprocess, sys, tempfile
from concurrent.futures import ThreadPoolExecutor
from pathlib import Path


def one(diff):
    tmp = Path(tempfile.mkdtemp(prefix="pvs_try_"))
    try:
        subprocess.run(f"git -C /repo archive HEAD | tar -x -C {tmp}", shell=True, check=True)
        ap = subprocess.run(["git", "apply", str(diff)], cwd=tmp, capture_output=True, text=True)
        if ap.returncode != 0:
            ap = subprocess.run(["patch", "-p1", "-s", "-i", str(diff)], cwd=tmp, capture_output=True, text=True)
        if ap.returncode != 0:
            return f"{diff}: DOES NOT APPLY {ap.stderr[-200:]} {ap.stdout[-200:]}"

        def chk(p):
            env = dict(os.environ, PVS_REPO=str(tmp), PVS_EVIDENCE_DIR=str(tmp / "ev" / p))
            r = subprocess.run(["/venv/bin/python", "-m", "pvs.check", p], cwd="/verif", capture_output=True, text=True, env=env)
            lines = [l.strip()[:300] for l in r.stdout.splitlines() if "[R" in l[:90] or l.startswith("ANALYSIS")]
            return p, r.returncode, lines[:3]
        with ThreadPoolExecutor(int(os.environ.get("JOBS", "10"))) as ex:
            res = list(ex.map(chk, [f"C{i:02d}" for i in range(1, 21)]))
        out = [f"== {diff}"]
        for p, rc, lines in res:
            if rc:
                out.append(f"  {p} exit={rc}")
                out += [f"      {l}" for l in lines]
        if len(out) == 1:
            out.append("  SILENT in all twenty checks")
        return "\n".join(out)
    finally:
        shutil.rmtree(tmp, ignore_errors=True)


for d in sys.argv[1:]:
    print(one(Path(d).resolve()), flush=True)
