#!/venv/bin/python
"""Fast regression look: every seeded change against the check of its own property only (scratch export of /repo HEAD + patch).
usage: recheck_own.py [name ...]"""
import json, os, shutil, subprocess, sys, tempfile
from concurrent.futures import ThreadPoolExecutor
from pathlib import Path
root = Path("/verif/seeded")
names = sys.argv[1:] or sorted(p.name for p in root.iterdir() if (p / "patch.diff").exists())


def one(name):
    d = root / name
    prop = json.load(open(d / "meta.json")).get("property")
    tmp = Path(tempfile.mkdtemp(prefix="pvs_own_"))
    try:
        subprocess.run(f"git -C /repo archive HEAD | tar -x -C {tmp}", shell=True, check=True)
        ap = subprocess.run(["git", "apply", str(d / "patch.diff")], cwd=tmp, capture_output=True, text=True)
        if ap.returncode != 0:
            ap = subprocess.run(["patch", "-p1", "-s", "-i", str(d / "patch.diff")], cwd=tmp, capture_output=True, text=True)
        if ap.returncode != 0:
            return name, prop, "does not apply"
        env = dict(os.environ, PVS_REPO=str(tmp), PVS_EVIDENCE_DIR=str(tmp / "ev"))
        r = subprocess.run(["/venv/bin/python", "-m", "pvs.check", prop], cwd="/verif", capture_output=True, text=True, env=env)
        return name, prop, r.returncode
    finally:
        shutil.rmtree(tmp, ignore_errors=True)


with ThreadPoolExecutor(int(os.environ.get("JOBS", "6"))) as ex:
    res = list(ex.map(one, names))
bad = [(n, p, rc) for n, p, rc in res if rc != 1]
print("seeds:", len(res), "reported by the own check:", len(res) - len(bad))
for n, p, rc in bad:
    print("  not by own:", n, p, rc)
