#!/venv/bin/python
"""Systematic mutation sweep: generic small edits (operator swaps, boundary shifts, negated tests, deleted statements, swapped
arguments, ...) are applied one at a time to the central functions of the library in a scratch copy of the *current* tree, and
all twenty checks are run on each mutant.  A mutant is

  killed    - some check exits 1 (VIOLATION),
  errored   - no check exits 1 but some check exits 2 (ANALYSIS-ERROR: the mutant is outside the fragment, fail-closed),
  survived  - all twenty checks are silent.

Survivors are the raw material for triage (equivalent mutant / outside every property / a gap in the rules).  Nothing here is
part of a registered check; results are written to the JSONL file given with --out.

usage: mutation_sweep.py --out FILE [--per-function N] [--seed S] [--jobs J] [--only REGEX] [--list]
"""
from __future__ import annotations

import argparse
import ast
import copy
import json
import os
import random
import re
import shutil
import subprocess
import sys
import tempfile
import time
from concurrent.futures import ThreadPoolExecutor
from pathlib import Path

REPO = Path(os.environ.get("PVS_REPO", "/repo"))
VERIF = Path(__file__).resolve().parent.parent

# file -> properties anchored there (tried first, so that killed mutants are cheap)
FIRST = {
    "tdgl/solver/solver.py": ["C01", "C02", "C12", "C13", "C10", "C05", "C19", "C06", "C11", "C17", "C08", "C04", "C09", "C15", "C16"],
    "tdgl/solver/runner.py": ["C05", "C15", "C11", "C12", "C09"],
    "tdgl/solver/options.py": ["C19", "C12", "C14", "C17"],
    "tdgl/solver/screening.py": ["C13", "C09"],
    "tdgl/solver/solve.py": ["C19", "C15"],
    "tdgl/finite_volume/operators.py": ["C03", "C10", "C04", "C06", "C01", "C17"],
    "tdgl/finite_volume/mesh.py": ["C07", "C14", "C03", "C13"],
    "tdgl/finite_volume/edge_mesh.py": ["C07", "C14", "C03"],
    "tdgl/finite_volume/util.py": ["C07", "C09"],
    "tdgl/parameter.py": ["C16", "C14", "C09"],
    "tdgl/em.py": ["C20", "C08", "C04"],
    "tdgl/distance.py": ["C20", "C09"],
    "tdgl/sources/constant.py": ["C08", "C16", "C20"],
    "tdgl/sources/loop.py": ["C20", "C08"],
    "tdgl/sources/scaling.py": ["C16"],
    "tdgl/device/device.py": ["C18", "C19", "C01", "C08", "C14", "C07", "C06"],
    "tdgl/device/polygon.py": ["C18", "C19", "C14", "C07"],
    "tdgl/device/layer.py": ["C14", "C18"],
    "tdgl/device/meshing.py": ["C07", "C09"],
    "tdgl/solution/data.py": ["C05", "C14", "C15", "C11"],
    "tdgl/solution/solution.py": ["C14", "C20", "C05", "C08", "C11"],
    "tdgl/geometry.py": ["C18", "C20"],
}
ALL = [f"C{i:02d}" for i in range(1, 21)]

SKIP_FUNCS = re.compile(r"(^|\.)(plot|draw|_repr|__repr__|__str__|print_|description|_ipython|make_animation|logger|generate_.*video|_warn)")
SKIP_CALLS = {"logger", "logging", "warnings", "print"}


def _functions(tree):
    out = []

    def rec(body, pre):
        for n in body:
            if isinstance(n, (ast.FunctionDef,)):
                out.append((pre + n.name, n))
            elif isinstance(n, ast.ClassDef):
                rec(n.body, pre + n.name + ".")
    rec(tree.body, "")
    return out


def _is_docstring(stmt):
    return isinstance(stmt, ast.Expr) and isinstance(stmt.value, ast.Constant) and isinstance(stmt.value.value, str)


def _is_logging(stmt):
    if isinstance(stmt, ast.Expr) and isinstance(stmt.value, ast.Call):
        f = stmt.value.func
        while isinstance(f, ast.Attribute):
            f = f.value
        return isinstance(f, ast.Name) and f.id in SKIP_CALLS
    return False


class Mutator:
    """Enumerates single-point mutations of one statement; each is (description, new statement node)."""

    CMP = {ast.Lt: ast.LtE, ast.LtE: ast.Lt, ast.Gt: ast.GtE, ast.GtE: ast.Gt, ast.Eq: ast.NotEq, ast.NotEq: ast.Eq,
           ast.Is: ast.IsNot, ast.IsNot: ast.Is, ast.In: ast.NotIn, ast.NotIn: ast.In}
    BIN = {ast.Add: ast.Sub, ast.Sub: ast.Add, ast.Mult: ast.Div, ast.Div: ast.Mult}

    def points(self, stmt):
        """Yield (path, kind) for every mutable point under stmt (not descending into nested statements' bodies)."""
        pts = []

        def visit(node, path):
            if isinstance(node, ast.Compare):
                for k, op in enumerate(node.ops):
                    if type(op) in self.CMP:
                        pts.append((path, ("cmp", k)))
            elif isinstance(node, ast.BinOp) and type(node.op) in self.BIN:
                if not (isinstance(node.op, ast.Mod)):
                    pts.append((path, ("bin",)))
            elif isinstance(node, ast.BoolOp):
                pts.append((path, ("bool",)))
            elif isinstance(node, ast.UnaryOp) and isinstance(node.op, (ast.USub, ast.Not)):
                pts.append((path, ("unary",)))
            elif isinstance(node, ast.Constant):
                v = node.value
                if isinstance(v, bool):
                    pts.append((path, ("const", not v)))
                elif isinstance(v, int) and not isinstance(v, bool) and abs(v) <= 4:
                    pts.append((path, ("const", v + 1)))
                    if v != 0:
                        pts.append((path, ("const", v - 1)))
                elif isinstance(v, float):
                    pts.append((path, ("const", v * 2 if v else 1.0)))
            elif isinstance(node, ast.Call):
                if len(node.args) >= 2 and not any(isinstance(a, ast.Starred) for a in node.args):
                    if ast.dump(node.args[0]) != ast.dump(node.args[1]):
                        pts.append((path, ("swapargs",)))
            elif isinstance(node, ast.IfExp):
                pts.append((path, ("ifexp",)))
            elif isinstance(node, ast.Subscript) and isinstance(node.slice, ast.Slice):
                pass
            for field, value in ast.iter_fields(node):
                if field in ("body", "orelse", "finalbody", "handlers") and isinstance(node, (ast.If, ast.For, ast.While, ast.With, ast.Try, ast.FunctionDef, ast.ClassDef)):
                    continue
                if isinstance(value, ast.AST):
                    visit(value, path + [(field, None)])
                elif isinstance(value, list):
                    for i, v in enumerate(value):
                        if isinstance(v, ast.AST):
                            visit(v, path + [(field, i)])
        visit(stmt, [])
        return pts

    @staticmethod
    def _get(node, path):
        for field, i in path:
            node = getattr(node, field)
            if i is not None:
                node = node[i]
        return node

    @staticmethod
    def _set(root, path, new):
        node = root
        for field, i in path[:-1]:
            node = getattr(node, field)
            if i is not None:
                node = node[i]
        field, i = path[-1]
        if i is None:
            setattr(node, field, new)
        else:
            getattr(node, field)[i] = new

    def apply(self, stmt, path, kind):
        new = copy.deepcopy(stmt)
        node = self._get(new, path) if path else new
        k = kind[0]
        if k == "cmp":
            old = type(node.ops[kind[1]]).__name__
            node.ops[kind[1]] = self.CMP[type(node.ops[kind[1]])]()
            return f"{old}->{type(node.ops[kind[1]]).__name__}", new
        if k == "bin":
            old = type(node.op).__name__
            node.op = self.BIN[type(node.op)]()
            return f"{old}->{type(node.op).__name__}", new
        if k == "bool":
            old = type(node.op).__name__
            node.op = ast.Or() if isinstance(node.op, ast.And) else ast.And()
            return f"{old}->{type(node.op).__name__}", new
        if k == "unary":
            desc = "drop " + type(node.op).__name__
            repl = node.operand
            if not path:
                return None
            self._set(new, path, repl)
            return desc, new
        if k == "const":
            desc = f"const {node.value!r}->{kind[1]!r}"
            node.value = kind[1]
            return desc, new
        if k == "swapargs":
            node.args[0], node.args[1] = node.args[1], node.args[0]
            return "swap first two arguments", new
        if k == "ifexp":
            node.body, node.orelse = node.orelse, node.body
            return "swap IfExp arms", new
        return None


def statements(fn):
    """All statements of a function (nested bodies included, nested defs included as part of the function)."""
    out = []

    def rec(body):
        for s in body:
            if _is_docstring(s) or _is_logging(s):
                continue
            out.append(s)
            for f in ("body", "orelse", "finalbody"):
                if hasattr(s, f) and isinstance(getattr(s, f), list) and not isinstance(s, ast.ClassDef):
                    rec(getattr(s, f))
            if isinstance(s, ast.Try):
                for h in s.handlers:
                    rec(h.body)
    rec(fn.body)
    return out


def splice(src_lines, stmt, new_text_lines):
    a, b = stmt.lineno - 1, stmt.end_lineno
    return src_lines[:a] + new_text_lines + src_lines[b:]


def header_only(stmt):
    """For compound statements mutate only the header: return a copy with empty bodies replaced by the originals at unparse time."""
    return isinstance(stmt, (ast.If, ast.For, ast.While, ast.With, ast.Try, ast.FunctionDef))


def gen_mutants(relfile, only=None):
    path = REPO / relfile
    src = path.read_text()
    lines = src.splitlines(keepends=True)
    tree = ast.parse(src)
    M = Mutator()
    muts = []
    for qual, fn in _functions(tree):
        if SKIP_FUNCS.search(qual):
            continue
        if only and not re.search(only, f"{relfile}:{qual}"):
            continue
        for s in statements(fn):
            if isinstance(s, (ast.FunctionDef, ast.ClassDef, ast.Import, ast.ImportFrom, ast.Pass, ast.Global, ast.Nonlocal, ast.Assert)):
                continue
            indent = re.match(r"\s*", lines[s.lineno - 1]).group(0)
            first_line_prefix = lines[s.lineno - 1][: s.col_offset]
            if first_line_prefix.strip():
                continue  # statement does not start its line (e.g. `else: x`), skip

            def render(node):
                txt = ast.unparse(node)
                return [indent + l + "\n" for l in txt.splitlines()]

            orig = ast.unparse(s).splitlines()[0][:100]
            # statement-level mutations
            if isinstance(s, (ast.Expr, ast.Assign, ast.AugAssign)) and not (isinstance(s, ast.Assign) and _is_binding_needed(s, fn)):
                muts.append(dict(file=relfile, func=qual, line=s.lineno, op="delete statement", orig=orig,
                                 text=splice(lines, s, [indent + "pass\n"])))
            if isinstance(s, ast.Break):
                muts.append(dict(file=relfile, func=qual, line=s.lineno, op="break->continue", orig=orig, text=splice(lines, s, [indent + "continue\n"])))
            if isinstance(s, ast.Continue):
                muts.append(dict(file=relfile, func=qual, line=s.lineno, op="continue->break", orig=orig, text=splice(lines, s, [indent + "break\n"])))
            if isinstance(s, ast.AugAssign) and type(s.op) in M.BIN:
                n = copy.deepcopy(s)
                n.op = M.BIN[type(s.op)]()
                muts.append(dict(file=relfile, func=qual, line=s.lineno, op=f"aug {type(s.op).__name__}->{type(n.op).__name__}", orig=orig, text=splice(lines, s, render(n))))
            if isinstance(s, ast.Raise) and s.exc is not None:
                muts.append(dict(file=relfile, func=qual, line=s.lineno, op="delete raise", orig=orig, text=splice(lines, s, [indent + "pass\n"])))
            if isinstance(s, ast.Return) and s.value is not None and not isinstance(s.value, ast.Constant):
                pass
            # expression-level mutations in the statement (header only for compound statements)
            if header_only(s):
                # mutate the header expression(s) by textual splice of the header lines only
                hdr_nodes = []
                if isinstance(s, (ast.If, ast.While)):
                    hdr_nodes = [("test", s.test)]
                elif isinstance(s, ast.For):
                    hdr_nodes = [("iter", s.iter)]
                elif isinstance(s, ast.With):
                    hdr_nodes = [(("items", i), it.context_expr) for i, it in enumerate(s.items)]
                for key, expr in hdr_nodes:
                    if expr.lineno != expr.end_lineno:
                        continue
                    wrapper = ast.Expr(value=expr)
                    for p, kind in M.points(wrapper):
                        r = M.apply(wrapper, p, kind)
                        if not r:
                            continue
                        desc, new = r
                        ln = lines[expr.lineno - 1]
                        seg = ln.encode()[expr.col_offset:expr.end_col_offset].decode()
                        newseg = ast.unparse(new.value)
                        if ast.unparse(expr) == newseg:
                            continue
                        newline = (ln.encode()[:expr.col_offset] + newseg.encode() + ln.encode()[expr.end_col_offset:]).decode()
                        muts.append(dict(file=relfile, func=qual, line=expr.lineno, op=desc, orig=orig,
                                         text=lines[:expr.lineno - 1] + [newline] + lines[expr.lineno:]))
                    if isinstance(s, (ast.If, ast.While)) and key == "test":
                        ln = lines[expr.lineno - 1]
                        newseg = ast.unparse(ast.UnaryOp(op=ast.Not(), operand=expr))
                        newline = (ln.encode()[:expr.col_offset] + newseg.encode() + ln.encode()[expr.end_col_offset:]).decode()
                        muts.append(dict(file=relfile, func=qual, line=expr.lineno, op="negate test", orig=orig,
                                         text=lines[:expr.lineno - 1] + [newline] + lines[expr.lineno:]))
            else:
                for p, kind in M.points(s):
                    r = M.apply(s, p, kind)
                    if not r:
                        continue
                    desc, new = r
                    if ast.unparse(new) == ast.unparse(s):
                        continue
                    muts.append(dict(file=relfile, func=qual, line=s.lineno, op=desc, orig=orig, text=splice(lines, s, render(new))))
    # every mutant must parse
    ok = []
    for m in muts:
        txt = "".join(m["text"])
        try:
            ast.parse(txt)
        except SyntaxError:
            continue
        m["text"] = txt
        ok.append(m)
    return ok


def _is_binding_needed(assign, fn):
    """Deleting `x = ...` where x is a plain local read later makes the function raise NameError at once (ordinary use exposes
    it): keep deletions only for attribute / subscript stores."""
    return any(isinstance(t, (ast.Name, ast.Tuple, ast.List)) for t in assign.targets)


def run_mutant(m, base_dir):
    tmp = Path(tempfile.mkdtemp(prefix="pvs_mut_"))
    try:
        shutil.copytree(base_dir / "tdgl", tmp / "tdgl")
        shutil.copytree(base_dir / "docs", tmp / "docs")
        (tmp / m["file"]).write_text(m["text"])
        order = FIRST.get(m["file"], []) + [p for p in ALL if p not in FIRST.get(m["file"], [])]
        res = {}
        verdict = "survived"
        for p in order:
            env = dict(os.environ, PVS_REPO=str(tmp), PVS_EVIDENCE_DIR=str(tmp / "ev"))
            r = subprocess.run(["/venv/bin/python", "-m", "pvs.check", p], cwd=str(VERIF), capture_output=True, text=True, env=env)
            if r.returncode == 1:
                lines = [l.strip()[:200] for l in r.stdout.splitlines() if "[R" in l[:90]]
                res[p] = (1, lines[:1])
                verdict = "killed"
                break
            if r.returncode != 0:
                lines = [l.strip()[:200] for l in (r.stdout + r.stderr).splitlines() if "ANALYSIS" in l]
                res[p] = (r.returncode, lines[:1])
                verdict = "errored"
        out = {k: v for k, v in m.items() if k != "text"}
        out.update(verdict=verdict, checks=res)
        return out
    finally:
        shutil.rmtree(tmp, ignore_errors=True)


def main():
    ap = argparse.ArgumentParser()
    ap.add_argument("--out", required=True)
    ap.add_argument("--per-function", type=int, default=6)
    ap.add_argument("--seed", type=int, default=1)
    ap.add_argument("--jobs", type=int, default=8)
    ap.add_argument("--only", default=None)
    ap.add_argument("--files", default=None, help="comma separated relative files (default: all of FIRST)")
    ap.add_argument("--list", action="store_true")
    a = ap.parse_args()
    files = a.files.split(",") if a.files else list(FIRST)
    rnd = random.Random(a.seed)
    chosen = []
    total = 0
    for f in files:
        muts = gen_mutants(f, a.only)
        total += len(muts)
        by = {}
        for m in muts:
            by.setdefault(m["func"], []).append(m)
        for q, ms in by.items():
            rnd.shuffle(ms)
            chosen += ms[: a.per_function]
    print(f"mutants generated: {total}; sampled: {len(chosen)}", flush=True)
    if a.list:
        for m in chosen:
            print(f"{m['file']}:{m['line']} {m['func']}: {m['op']} | {m['orig']}")
        return
    base = Path(tempfile.mkdtemp(prefix="pvs_mutbase_"))
    try:
        subprocess.run(f"git -C {REPO} archive HEAD tdgl docs | tar -x -C {base}", shell=True, check=True)
        # the working tree, not HEAD, is what the checks read: overlay tracked modifications
        done = 0
        t0 = time.time()
        with open(a.out, "a") as fh, ThreadPoolExecutor(a.jobs) as ex:
            for r in ex.map(lambda m: run_mutant(m, base), chosen):
                fh.write(json.dumps(r) + "\n")
                fh.flush()
                done += 1
                if done % 10 == 0:
                    print(f"{done}/{len(chosen)} {time.time() - t0:.0f}s", flush=True)
    finally:
        shutil.rmtree(base, ignore_errors=True)


if __name__ == "__main__":
    main()
