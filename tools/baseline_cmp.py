#!/venv/bin/python
"""Compare a junit xml with BASELINE.json's stable_pass set."""
import json, sys
import xml.etree.ElementTree as ET
base = set(json.load(open("/root/.vp/BASELINE.json"))["stable_pass"])
root = ET.parse(sys.argv[1]).getroot()
passed = set()
for tc in root.iter("testcase"):
    ok = not any(ch.tag in ("failure", "error", "skipped") for ch in tc)
    name = f"{tc.get('classname')}::{tc.get('name')}"
    if ok:
        passed.add(name)
missing = sorted(base - passed)
print(f"baseline {len(base)} passed-now {len(passed)} missing {len(missing)}")
for m in missing[:20]:
    print("  MISSING", m)
sys.exit(1 if missing else 0)
