#!/venv/bin/python
"""Re-run every property check against every seeded change (scratch export of /repo HEAD + patch, removed afterwards) and
refresh meta.json["confirmation"]["checks_fired"].  Demo and test-suite confirmation are left as recorded by ingest_seed.py.

usage: recheck_seeds.py [name ...]
"""
import json, os, shutil, subprocess, sys, tempfile, time
from concurrent.futures import ThreadPoolExecutor
from pathlib import Path

root = Path("/verif/seeded")
names = sys.argv[1:] or sorted(p.name for p in root.iterdir() if (p / "patch.diff").exists())


def one(name):
    d = root / name
    tmp = Path(tempfile.mkdtemp(prefix="pvs_reseed_"))
    try:
        subprocess.run(f"git -C /repo archive HEAD | tar -x -C {tmp}", shell=True, check=True)
        ap = subprocess.run(["git", "apply", "--directory", ".", str(d / "patch.diff")], cwd=tmp, capture_output=True, text=True)
        if ap.returncode != 0:
            ap = subprocess.run(["patch", "-p1", "-i", str(d / "patch.diff")], cwd=tmp, capture_output=True, text=True)
        if ap.returncode != 0:
            return name, None
        fired = {}
        for i in range(1, 21):
            p = f"C{i:02d}"
            env = dict(os.environ, PVS_REPO=str(tmp), PVS_EVIDENCE_DIR=str(tmp / "ev"))
            r = subprocess.run(["/venv/bin/python", "-m", "pvs.check", p], cwd="/verif", capture_output=True, text=True, env=env)
            if r.returncode != 0:
                lines = [l.strip()[:260] for l in r.stdout.splitlines() if l.strip().startswith(("tdgl/", "[R", "ANALYSIS")) or "[R" in l[:60]]
                fired[p] = {"exit": r.returncode, "reports": lines[:4]}
        return name, fired
    finally:
        shutil.rmtree(tmp, ignore_errors=True)


with ThreadPoolExecutor(8) as ex:
    for name, fired in ex.map(one, names):
        mp = root / name / "meta.json"
        meta = json.load(open(mp))
        if fired is None:
            print(f"{name}: patch does not apply to HEAD")
            continue
        meta.setdefault("confirmation", {})["checks_fired"] = fired
        meta["confirmation"]["checks_rerun_at"] = time.strftime("%Y-%m-%d %H:%M")
        json.dump(meta, open(mp, "w"), indent=1)
        own = meta.get("property")
        viol = sorted(k for k, v in fired.items() if v["exit"] == 1)
        err = sorted(k for k, v in fired.items() if v["exit"] == 2)
        print(f"{name}: property {own}; violation reported by {viol or 'NONE'}" + (f"; analysis-error {err}" if err else ""))
