#!/venv/bin/python
"""Confirm a seeded change and record it under /verif/seeded/<name>/.

usage: ingest_seed.py <worktree> <name> [--no-suite]
Steps (all in scratch copies outside /repo and /verif, removed afterwards):
  1. export /repo HEAD, check the patch applies, run demo.py without (exit 0) and with (exit 1) the change;
  2. run every property check against the patched copy (PVS_REPO) and record which fire;
  3. unless --no-suite: run the full baseline test suite on the patched copy and compare with BASELINE.json.
"""
import json, os, shutil, subprocess, sys, tempfile, time
from pathlib import Path

wt = Path(sys.argv[1]); name = sys.argv[2]; suite = "--no-suite" not in sys.argv
seed = wt / "seed"
out = Path("/verif/seeded") / name
out.mkdir(parents=True, exist_ok=True)
for f in ("patch.diff", "demo.py", "meta.json"):
    if "--demo-only" in sys.argv:
        break
    if not (seed / f).exists():
        sys.exit(f"missing {seed / f}")
    shutil.copy(seed / f, out / f)
meta = json.load(open(out / "meta.json"))
tmp = Path(tempfile.mkdtemp(prefix="pvs_seed_"))
env = dict(os.environ, TQDM_DISABLE="1", MPLBACKEND="Agg", NUMBA_NUM_THREADS="2")
demo_only = "--demo-only" in sys.argv
rec = {"confirmed_at": time.strftime("%Y-%m-%d %H:%M"), "repo_head": subprocess.run(["git", "-C", "/repo", "rev-parse", "--short", "HEAD"], capture_output=True, text=True).stdout.strip()}
try:
    subprocess.run(f"git -C /repo archive HEAD | tar -x -C {tmp}", shell=True, check=True)
    # the demos must import the scratch copy, not the editable install of /repo
    env["PYTHONPATH"] = str(tmp)
    # ... and they are run from <copy>/seed/demo.py, where the seeder ran them
    (tmp / "seed").mkdir(exist_ok=True)
    shutil.copy(out / "demo.py", tmp / "seed" / "demo.py")
    r0 = subprocess.run(["/venv/bin/python", "seed/demo.py"], cwd=tmp, capture_output=True, text=True, env=env, timeout=1200)
    rec["demo_without_change"] = {"exit": r0.returncode, "tail": (r0.stdout + r0.stderr)[-400:]}
    ap = subprocess.run(["git", "apply", "--directory", ".", str(out / "patch.diff")], cwd=tmp, capture_output=True, text=True)
    if ap.returncode != 0:
        ap = subprocess.run(["patch", "-p1", "-i", str(out / "patch.diff")], cwd=tmp, capture_output=True, text=True)
    rec["patch_applies"] = ap.returncode == 0
    if ap.returncode != 0:
        rec["apply_error"] = ap.stderr[-300:]
    comp = subprocess.run(["/venv/bin/python", "-m", "compileall", "-q", "tdgl"], cwd=tmp, capture_output=True, text=True)
    rec["compiles"] = comp.returncode == 0
    r1 = subprocess.run(["/venv/bin/python", "seed/demo.py"], cwd=tmp, capture_output=True, text=True, env=env, timeout=1200)
    rec["demo_with_change"] = {"exit": r1.returncode, "tail": (r1.stdout + r1.stderr)[-600:]}
    # checks
    fired = {}
    for i in ([] if demo_only else range(1, 21)):
        p = f"C{i:02d}"
        e2 = dict(env, PVS_REPO=str(tmp), PVS_EVIDENCE_DIR=str(tmp / "ev"))
        r = subprocess.run(["/venv/bin/python", "-m", "pvs.check", p], cwd="/verif", capture_output=True, text=True, env=e2)
        if r.returncode != 0:
            lines = [l.strip()[:260] for l in r.stdout.splitlines() if l.strip().startswith(("tdgl/", "[R", "ANALYSIS")) or "[R" in l[:60]]
            fired[p] = {"exit": r.returncode, "reports": lines[:4]}
    if not demo_only:
        rec["checks_fired"] = fired
    if suite and not demo_only:
        t0 = time.time()
        subprocess.run(["/venv/bin/python", "-m", "pytest", "-q", "-p", "no:cacheprovider", "--timeout=900", "--continue-on-collection-errors",
                        f"--junitxml={tmp}/junit.xml"], cwd=tmp, capture_output=True, text=True, env=env)
        c = subprocess.run(["/verif/tools/baseline_cmp.py", f"{tmp}/junit.xml"], capture_output=True, text=True)
        rec["baseline"] = {"ok": c.returncode == 0, "summary": c.stdout.strip()[:400], "wall_s": round(time.time() - t0)}
finally:
    shutil.rmtree(tmp, ignore_errors=True)
if demo_only and "confirmation" in meta:
    old = meta["confirmation"]
    for k in ("demo_without_change", "demo_with_change", "patch_applies", "compiles"):
        if k in rec:
            old[k] = rec[k]
    old["demo_rerun_at"] = rec["confirmed_at"]
    rec = old
meta["confirmation"] = rec
json.dump(meta, open(out / "meta.json", "w"), indent=1)
print(json.dumps({"name": name, "demo": (rec.get("demo_without_change", {}).get("exit"), rec.get("demo_with_change", {}).get("exit")),
                  "fired": {k: v["exit"] for k, v in rec.get("checks_fired", {}).items()}, "baseline": rec.get("baseline")}, indent=1))
