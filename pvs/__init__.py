"""pvs - property verification by static analysis for py-tdgl.

Everything in this package reads /repo's *source text* (ast); nothing here
imports or executes tdgl.
"""
