"""Traces of the simulation loop: Runner._run_stage (and Runner.run around it) is followed statement by statement
(pvs/smallstep.py) with a model update function and a model frame writer, for every combination of

    number of steps to the end time x save interval x {no interrupt, KeyboardInterrupt in the n-th update, in the n-th save}
    x {cancel, pause and cancel, pause and resume}

and what the loop *does* is recorded in order: LABEL (the step / time labels of the frame are set), UPDATE (the update function
returned: the field content is one version further), ADVANCE (the clock moved), SAVE (a frame was handed to the writer, with the
labels and the content version it carried), CLEAR / CURSOR (record buffer), and how the stage ended.  Rules about the loop are
predicates on these traces - they do not depend on how the loop is written (for / while, helpers, merged statements ...).
"""
from __future__ import annotations

import ast
import itertools
import re
from typing import Any, Dict, List, Optional, Tuple

from .smallstep import Closure, Machine, Opaque, Raised, Undecidable, module_constants, render
from .src import AnalysisError

RUNNER = "tdgl.solver.runner"
DT = 0.5           # the step the model update function reports back (the runner starts from self.dt = DT0)
DT0 = 1.0


class Ev:
    def __init__(self, kind, **kw):
        self.kind = kind
        self.__dict__.update(kw)

    def __repr__(self):
        extra = {k: v for k, v in self.__dict__.items() if k != "kind"}
        return f"{self.kind}{extra if extra else ''}"


class RunTrace:
    def __init__(self, scenario):
        self.scenario = scenario
        self.events: List[Ev] = []
        self.outcome: Tuple[str, Any] = ("?", None)

    def kinds(self, *ks):
        return [e for e in self.events if e.kind in ks]

    def text(self):
        return [repr(e) for e in self.events] + [f"{self.outcome[0]} {render(self.outcome[1])[:100]}"]


class _Interrupt(Raised):
    pass


class _RunMachine(Machine):
    """attributes of self are real state (self.time, self.dt, self.values, self.state ...)"""

    def _is_self(self, e):
        return isinstance(e, ast.Name) and e.id == "self" and self.env.get("self") == Opaque("self")

    def ev(self, e):
        if isinstance(e, ast.Attribute) and self._is_self(e.value) and isinstance(e.ctx, ast.Load) and e.attr in self.self_state:
            return self.self_state[e.attr]
        return super().ev(e)

    def assign(self, t, v):
        if isinstance(t, ast.Attribute) and self._is_self(t.value):
            old = self.self_state.get(t.attr)
            self.self_state[t.attr] = v
            if t.attr == "time" and isinstance(v, (int, float)) and isinstance(old, (int, float)) and v != old:
                self.trace.events.append(Ev("ADVANCE" if v > old else "RESET", time=v, by=v - old))
            return
        if isinstance(t, ast.Subscript):
            base = self.ev(t.value)
            if base is self.self_state.get("state"):
                k = self.ev(t.slice)
                base[k] = v
                if k == "step":
                    self.trace.events.append(Ev("LABEL", step=v))
                return
            if isinstance(base, Opaque) and base.parts is None and base.text == "RS":
                return
        if isinstance(t, ast.Attribute):
            base = self.ev(t.value)
            if base == Opaque("RS") and t.attr == "step":
                self.trace.events.append(Ev("CURSOR", value=render(v)))
                return
        super().assign(t, v)

    def stmt(self, st):
        # `self.running_state.step += 1`
        if isinstance(st, ast.AugAssign) and isinstance(st.target, ast.Attribute) and st.target.attr == "step":
            base = self.ev(st.target.value)
            if base == Opaque("RS"):
                self.trace.events.append(Ev("CURSOR", value=f"+= {render(self.ev(st.value))}"))
                return
        if isinstance(st, ast.Try):
            return self.try_(st)
        return super().stmt(st)

    def try_(self, st: ast.Try):
        """exceptions of the model are matched against the handler types by name"""
        def matches(h, what):
            if h.type is None:
                return True
            names = [ast.unparse(x).split(".")[-1] for x in (h.type.elts if isinstance(h.type, ast.Tuple) else [h.type])]
            w = str(what).split(":")[0].split("(")[0].strip("'\" ")
            os_errors = ("FileExistsError", "FileNotFoundError", "PermissionError", "IsADirectoryError", "NotADirectoryError", "BlockingIOError")
            return w in names or "BaseException" in names or ("Exception" in names and w != "KeyboardInterrupt") \
                or (w in os_errors and ({"OSError", "IOError", "EnvironmentError"} & set(names)))
        try:
            try:
                self.run(st.body)
            except Raised as r:
                for h in st.handlers:
                    if matches(h, r.what):
                        if h.name:
                            self.env[h.name] = Opaque(f"exception {r.what}")
                        outer, self.active_exception = getattr(self, "active_exception", None), r
                        try:
                            self.run(h.body)
                        finally:
                            self.active_exception = outer
                        break
                else:
                    raise
            else:
                self.run(st.orelse)
        finally:
            self.run(st.finalbody)


def stage_scenarios():
    out = []
    for n_steps, k in itertools.product((1, 3, 4, 5, 6), (1, 2, 3)):
        out.append({"steps": n_steps, "save_every": k, "save": True, "interrupt": None, "pause": False, "answer": None})
    for k in (1, 2, 3):
        out.append({"steps": 4, "save_every": k, "save": False, "interrupt": None, "pause": False, "answer": None})
    # the same loop when the data handler keeps a tmp file for the monitor (an explicit output file): nothing the update is handed may differ
    for k in (1, 2):
        out.append({"steps": 3, "save_every": k, "save": True, "interrupt": None, "pause": False, "answer": None, "tmp_file": True})
    for k, where, j, (pause, answer) in itertools.product((1, 2, 3), ("update", "save"), (0, 1, 2), ((False, None), (True, "n"), (True, "y"), (True, ""))):
        out.append({"steps": 5, "save_every": k, "save": True, "interrupt": (where, j), "pause": pause, "answer": answer})
    for where, j in (("update", 1),):
        out.append({"steps": 4, "save_every": 2, "save": False, "interrupt": (where, j), "pause": False, "answer": None})
    # an error (not Ctrl-C) raised by the n-th update / the n-th save: the stage must not swallow it
    for k, where, j, save in itertools.product((1, 2), ("update", "save"), (0, 2), (True, False)):
        if where == "save" and not save:
            continue
        out.append({"steps": 5, "save_every": k, "save": save, "interrupt": (where, j), "pause": False, "answer": None, "error": "RuntimeError"})
    return out


def _machine(repo, sc, tr, counters, entry):
    C = repo.cls(RUNNER, "Runner")
    mod_env = dict(module_constants(repo.module(RUNNER).tree))

    def attrs(text):
        if text.endswith("options.save_every"):
            return sc["save_every"]
        if text.endswith("options.progress_interval"):
            return 0
        if text.endswith("options.pause_on_interrupt"):
            return sc["pause"]
        if text.endswith("options.skip_time"):
            return sc.get("skip_time", 0)
        if text.endswith("options.solve_time"):
            return sc["steps"] * DT
        if text.endswith("options.dt_init"):
            return DT
        if text.endswith("data_handler.tmp_file"):
            return Opaque("TMPFILE") if sc.get("tmp_file") else None
        if text.endswith(".monitor"):
            return False
        return NotImplemented

    def call(m, node, name, args, kwargs):
        short = name.split(".")[-1]
        if name == "self.function":
            j = counters["update_calls"]
            counters["update_calls"] += 1
            if sc["interrupt"] == ("update", j):
                tr.events.append(Ev("INTERRUPT", during="update"))
                raise _Interrupt(sc.get("error") or "KeyboardInterrupt")
            counters["version"] += 1
            v = counters["version"]
            state = args[0] if args else None
            tr.events.append(Ev("UPDATE", version=v, dt_in=render(args[2]) if len(args) > 2 else None,
                                label=state.get("step") if isinstance(state, dict) else None, kwargs=sorted(kwargs)))
            return (DT, Opaque(f"psi@{v}"), Opaque(f"mu@{v}"))
        if short == "save_time_step" and name.startswith("self.data_handler"):
            j = counters["saves"]
            counters["saves"] += 1
            state, data, rs = (list(args) + [kwargs.get("state"), kwargs.get("data"), kwargs.get("running_state")])[:3] if len(args) < 3 else args[:3]
            if sc["interrupt"] == ("save", j):
                tr.events.append(Ev("INTERRUPT", during="save"))
                raise _Interrupt(sc.get("error") or "KeyboardInterrupt")
            content = None
            if isinstance(data, dict):
                vs = {re.sub(r".*@", "", render(x)) for x in data.values()}
                content = int(next(iter(vs))) if len(vs) == 1 and next(iter(vs)).isdigit() else sorted(vs)
            tr.events.append(Ev("SAVE", step=state.get("step") if isinstance(state, dict) else None,
                                time=state.get("time") if isinstance(state, dict) else None, content=content,
                                records=None if rs is None else render(rs), fresh=isinstance(data, dict) and data is not m.self_state.get("values")))
            return None
        if short == "save_fixed_values":
            return None
        if name == "input":
            tr.events.append(Ev("PROMPT"))
            return sc["answer"] or ""
        if name.endswith("running_state.clear") or name == "RS.clear":
            tr.events.append(Ev("CLEAR"))
            return None
        if (name.startswith("self.running_state.") or name.startswith("RS.")) and name.count(".") <= 2:
            # any other method of the record buffer called by the runner: harmless if it only reads; if it stores into the buffers or
            # moves the cursor the model of the records (cursor increments and clear) no longer describes the program
            RSc = repo.cls(RUNNER, "RunningState")
            meth = RSc.methods.get(short)
            if meth is not None:
                writes = [ast.unparse(x)[:60] for x in ast.walk(meth.node)
                          if (isinstance(x, (ast.Subscript, ast.Attribute)) and isinstance(getattr(x, "ctx", None), (ast.Store, ast.Del)))
                          or (isinstance(x, ast.Call) and isinstance(x.func, ast.Attribute) and x.func.attr in ("clear", "pop", "update", "fill", "append"))]
                if writes:
                    raise AnalysisError(f"Runner.{entry} calls RunningState.{short}(), which modifies the record buffer ({writes[0]}): outside the model "
                                        "of the per-step records (append by the update, cursor += 1 per step, clear with each frame)")
                return Opaque(f"RS.{short}()")
        if short in ("lower", "startswith", "strip") and isinstance(node.func, ast.Attribute):
            recv = m.ev(node.func.value)
            if isinstance(recv, str):
                return getattr(recv, short)(*args)
        if name == "float" and args and isinstance(args[0], (int, float)):
            return float(args[0])
        if name in ("tqdm",) or short == "tqdm":
            return Opaque("pbar")
        # other methods of the runner itself are followed
        if name.startswith("self.") and name.count(".") == 1 and short in C.methods and short != entry:
            h = C.methods[short].node
            return m.invoke(Closure(h, None), [Opaque("self")] + list(args), kwargs)
        return NotImplemented

    def undecided(text):
        return None
    env = dict(mod_env)
    env["self"] = Opaque("self")
    mach = _RunMachine(env, attrs, call, fuel=200, undecided=undecided)
    mach.self_state = {"time": 0.0, "dt": DT0, "values": [Opaque("psi@0"), Opaque("mu@0")], "names": ["psi", "mu"], "state": {},
                       "running_state": Opaque("RS"), "fixed_names": (), "fixed_values": (), "monitor": False}
    mach.trace = tr
    return mach


def trace_stage(repo, sc) -> RunTrace:
    f = repo.func(RUNNER, "Runner._run_stage")
    tr = RunTrace(sc)
    counters = {"update_calls": 0, "saves": 0, "version": 0}
    mach = _machine(repo, sc, tr, counters, "_run_stage")
    params = [a.arg for a in f.node.args.args + f.node.args.kwonlyargs]
    given = {"self": Opaque("self"), "name": "stage", "start_time": 0.0, "end_time": sc["steps"] * DT, "save": sc["save"]}
    for p in params:
        if p not in given:
            raise AnalysisError(f"Runner._run_stage has a parameter `{p}` the model does not know")
    mach.env.update({p: given[p] for p in params})
    tr.outcome = mach.run_function(f.node)
    tr.final_time = mach.self_state.get("time")
    tr.counters = counters
    return tr


def trace_run(repo, sc) -> RunTrace:
    f = repo.func(RUNNER, "Runner.run")
    tr = RunTrace(sc)
    counters = {"update_calls": 0, "saves": 0, "version": 0}
    mach = _machine(repo, sc, tr, counters, "run")
    tr.outcome = mach.run_function(f.node)
    tr.final_time = mach.self_state.get("time")
    tr.counters = counters
    return tr


_CACHE: Dict[int, Any] = {}


def stage_traces(repo) -> List[RunTrace]:
    cache = repo.__dict__.setdefault("_pvs_trace_cache", {})
    if "stage" not in cache:
        cache["stage"] = [trace_stage(repo, sc) for sc in stage_scenarios()]
    return cache["stage"]


def run_scenarios():
    out = []
    for skip, k in itertools.product((0, 2 * DT), (1, 2)):
        out.append({"steps": 3, "save_every": k, "skip_time": skip, "interrupt": None, "pause": False, "answer": None})
    # cancelled during thermalisation / during the recorded stage
    out.append({"steps": 3, "save_every": 2, "skip_time": 2 * DT, "interrupt": ("update", 1), "pause": False, "answer": None})
    out.append({"steps": 3, "save_every": 2, "skip_time": 2 * DT, "interrupt": ("update", 3), "pause": False, "answer": None})
    # an error during thermalisation / during the recorded stage ends the run with that error
    out.append({"steps": 3, "save_every": 2, "skip_time": 2 * DT, "interrupt": ("update", 1), "pause": False, "answer": None, "error": "RuntimeError"})
    out.append({"steps": 3, "save_every": 2, "skip_time": 2 * DT, "interrupt": ("update", 3), "pause": False, "answer": None, "error": "RuntimeError"})
    return out


def run_traces(repo) -> List[RunTrace]:
    cache = repo.__dict__.setdefault("_pvs_trace_cache", {})
    if "run" not in cache:
        cache["run"] = [trace_run(repo, sc) for sc in run_scenarios()]
    return cache["run"]
