"""Physical-dimension typing with exact scale factors (a model of pint).

A unit is ``factor * m^a kg^b s^c A^d`` where ``factor`` is an exact term over
symbols: ``kL``/``kB``/``kI`` (the unknown sizes of the user's length, field and
current units in SI), ``mu0``, ``Phi0``, ``pi``.  A quantity is ``magnitude
(term) x unit``.  ``.to(u)`` demands equal dimension vectors (else a
``DimMismatch`` - the static twin of pint's DimensionalityError) and rescales
the magnitude; ``.magnitude`` strips the unit.  Running the repository's own
pint expressions through this model yields, for every bare number the solver
multiplies its dimensionless arrays with, an exact term in the unit sizes -
which is what "results do not depend on the unit system" is about.
"""
from __future__ import annotations

import ast
from fractions import Fraction as Fr
from typing import Dict, Optional

from .alg import AtomTable, Rat
from .interp import (BoundMethod, Cols, ExtFunc, Field, Frame, Interp, ModRef, Obj, Opaque, PyFunc,
                     Unsupported, Vec2)
from .src import AnalysisError, Repo, loc, norm, own_nodes

DIMS = ("L", "M", "T", "I")


class DimMismatch(Unsupported):
    pass


def dv(**kw) -> Dict[str, Fr]:
    return {k: Fr(v) for k, v in kw.items() if v}


def dmul(a, b, sign=1):
    out = dict(a)
    for k, v in b.items():
        out[k] = out.get(k, 0) + sign * v
        if out[k] == 0:
            del out[k]
    return out


def dpow(a, n):
    return {k: v * Fr(n) for k, v in a.items() if v * Fr(n) != 0}


PINT_NAMES = {"L": "[length]", "M": "[mass]", "T": "[time]", "I": "[current]"}


def pint_dims(d):
    return {PINT_NAMES[k]: v for k, v in d.items()}


def dstr(d):
    return "*".join(f"{k}^{v}" for k, v in sorted(d.items())) or "1"


class UnitV:
    def __init__(self, factor: Rat, dims: Dict[str, Fr], name=""):
        self.factor = factor
        self.dims = dims
        self.name = name

    def __repr__(self):
        return f"Unit({self.factor} [{dstr(self.dims)}])"


class Quant:
    def __init__(self, mag, unit: UnitV):
        self.mag = mag            # Rat or Vec2 / Field-like
        self.unit = unit

    def si(self):
        """magnitude in SI base units"""
        return _scale(self.mag, self.unit.factor)

    def __repr__(self):
        return f"Quant({self.mag} x {self.unit})"


def _scale(mag, f: Rat):
    if isinstance(mag, Vec2):
        return Vec2(mag.x * f, mag.y * f)
    if isinstance(mag, Cols):
        return Cols([c * f for c in mag.cols])
    return mag * f


class UnitStr:
    """A user-chosen unit string (length_units / field_units / current_units)."""

    def __init__(self, kind):
        self.kind = kind

    def __repr__(self):
        return f"<{self.kind}_units>"


class Ureg:
    pass


B_DIM = dv(M=1, T=-2, I=-1)
H_DIM = dv(I=1, L=-1)


class DimInterp(Interp):
    def __init__(self, repo: Repo, T: AtomTable, field_kind="B"):
        super().__init__(repo, T)
        self.kL = T.real("kL", "pos")
        self.kB = T.real("kB", "pos")
        self.kI = T.real("kI", "pos")
        self.mu0 = T.real("mu0", "pos")
        self.Phi0 = T.real("Phi0", "pos")
        self.pi = T.real("pi", "pos")
        one = Rat.const(T, 1)
        self.one = one
        self.field_kind = field_kind
        self.units = {
            "m": UnitV(one, dv(L=1)), "meter": UnitV(one, dv(L=1)),
            "tesla": UnitV(one, B_DIM), "T": UnitV(one, B_DIM),
            "A": UnitV(one, dv(I=1)), "ampere": UnitV(one, dv(I=1)),
            "mu_0": UnitV(self.mu0, dv(M=1, L=1, T=-2, I=-2)), "mu0": UnitV(self.mu0, dv(M=1, L=1, T=-2, I=-2)),
            "Phi_0": UnitV(self.Phi0, dv(M=1, L=2, T=-2, I=-1)),
            "siemens": UnitV(one, dv(M=-1, L=-2, T=3, I=2)),
            "seconds": UnitV(one, dv(T=1)), "second": UnitV(one, dv(T=1)), "s": UnitV(one, dv(T=1)),
            "volts": UnitV(one, dv(M=1, L=2, T=-3, I=-1)), "volt": UnitV(one, dv(M=1, L=2, T=-3, I=-1)),
            "dimensionless": UnitV(one, {}),
        }
        self.user_units = {
            "length": UnitV(self.kL, dv(L=1), "length_units"),
            "field": UnitV(self.kB, B_DIM if field_kind == "B" else H_DIM, "field_units"),
            "current": UnitV(self.kI, dv(I=1), "current_units"),
        }
        self.to_log = []      # every .to() performed: (from dims, to dims, ok)

    # -- unit strings ----------------------------------------------------------------
    def parse_unit(self, parts) -> UnitV:
        """parts: list of str | UnitStr (from a plain string or an f-string)."""
        env = {}
        src = ""
        for p in parts:
            if isinstance(p, UnitStr):
                nm = f"__u{len(env)}"
                env[nm] = self.user_units[p.kind]
                src += nm
            elif isinstance(p, UnitV):
                nm = f"__u{len(env)}"
                env[nm] = p
                src += nm
            else:
                src += str(p)
        src = src.strip()
        try:
            tree = ast.parse(src, mode="eval").body
        except SyntaxError:
            raise Unsupported(f"unit string {src!r} is not parseable")
        return self._unit_expr(tree, env, src)

    def _unit_expr(self, n, env, src):
        if isinstance(n, ast.Name):
            if n.id in env:
                return env[n.id]
            if n.id in self.units:
                return self.units[n.id]
            raise Unsupported(f"unit {n.id!r} (in {src!r}) is not in the unit table")
        if isinstance(n, ast.Constant) and isinstance(n.value, (int, float)):
            return UnitV(Rat.const(self.T, Fr(repr(n.value)) if isinstance(n.value, float) else n.value), {})
        if isinstance(n, ast.BinOp):
            if isinstance(n.op, ast.Pow):
                b = self._unit_expr(n.left, env, src)
                if not (isinstance(n.right, ast.Constant) and isinstance(n.right.value, int)):
                    raise Unsupported(f"unit power in {src!r}")
                return UnitV(b.factor ** n.right.value, dpow(b.dims, n.right.value))
            a, b = self._unit_expr(n.left, env, src), self._unit_expr(n.right, env, src)
            if isinstance(n.op, ast.Mult):
                return UnitV(a.factor * b.factor, dmul(a.dims, b.dims))
            if isinstance(n.op, ast.Div):
                return UnitV(a.factor / b.factor, dmul(a.dims, b.dims, -1))
        raise Unsupported(f"unit expression {src!r}")

    def as_unit(self, v) -> UnitV:
        if isinstance(v, UnitV):
            return v
        if isinstance(v, UnitStr):
            return self.user_units[v.kind]
        if isinstance(v, str):
            return self.parse_unit([v])
        if isinstance(v, list):
            return self.parse_unit(v)
        if isinstance(v, Quant):
            if isinstance(v.mag, Rat):
                return UnitV(v.mag * v.unit.factor, v.unit.dims)
        if isinstance(v, (int, Fr)):
            return UnitV(Rat.const(self.T, v), {})
        raise Unsupported(f"not a unit: {v!r}")

    # -- expression hooks ------------------------------------------------------------------
    def e_JoinedStr(self, node, fr):
        parts = []
        for v in node.values:
            if isinstance(v, ast.Constant):
                parts.append(v.value)
            else:
                parts.append(self.eval(v.value, fr))
        if any(isinstance(p, (UnitStr, UnitV)) for p in parts):
            return parts
        return "".join(str(p) for p in parts)

    def call(self, f, args, kwargs, node=None, fr=None):
        if isinstance(f, Ureg):
            u = self.as_unit(args[0])
            return Quant(self.one, u)
        return super().call(f, args, kwargs, node, fr)

    def call_ext(self, dotted, args, kwargs, node=None):
        if dotted in ("pint.UnitRegistry",):
            return Ureg()
        return super().call_ext(dotted, args, kwargs, node)

    def x_builtins_str(self, a, k):
        return a[0]

    def binop(self, op, a, b):
        if isinstance(a, (Quant, UnitV)) or isinstance(b, (Quant, UnitV)):
            return self._qbinop(op, a, b)
        return super().binop(op, a, b)

    def _q(self, v) -> Quant:
        if isinstance(v, Quant):
            return v
        if isinstance(v, UnitV):
            return Quant(self.one, v)
        if isinstance(v, (Vec2, Cols)):
            return Quant(v, UnitV(self.one, {}))
        if isinstance(v, Field) and v.comps == 2:
            return Quant(self.as_vec(v), UnitV(self.one, {}))
        return Quant(self.as_term(v), UnitV(self.one, {}))

    def _qbinop(self, op, a, b):
        if isinstance(op, ast.Pow):
            qa = self._q(a)
            n = b
            if isinstance(n, Rat) and n.is_const():
                n = n.const_value().re
            if not isinstance(n, (int, Fr)):
                raise Unsupported("quantity raised to a non-constant power")
            return Quant(super().binop(op, qa.mag, n), UnitV(qa.unit.factor ** n, dpow(qa.unit.dims, n)))
        qa, qb = self._q(a), self._q(b)
        if isinstance(op, ast.Mult):
            return Quant(super().binop(op, qa.mag, qb.mag),
                         UnitV(qa.unit.factor * qb.unit.factor, dmul(qa.unit.dims, qb.unit.dims)))
        if isinstance(op, ast.Div):
            return Quant(super().binop(op, qa.mag, qb.mag),
                         UnitV(qa.unit.factor / qb.unit.factor, dmul(qa.unit.dims, qb.unit.dims, -1)))
        if isinstance(op, (ast.Add, ast.Sub)):
            if qa.unit.dims != qb.unit.dims:
                raise DimMismatch(f"adding [{dstr(qa.unit.dims)}] and [{dstr(qb.unit.dims)}]")
            # express b in a's units
            mb = _scale(qb.mag, qb.unit.factor / qa.unit.factor)
            return Quant(super().binop(op, qa.mag, mb), qa.unit)
        raise Unsupported("quantity operator")

    def e_UnaryOp(self, node, fr):
        if isinstance(node.op, ast.USub):
            v = self.eval(node.operand, fr)
            if isinstance(v, Quant):
                return Quant(super().binop(ast.Mult(), -1, v.mag), v.unit)
            if isinstance(v, (int, Fr)):
                return -v
            if isinstance(v, Vec2):
                return Vec2(-v.x, -v.y)
            return -self.as_term(v)
        return super().e_UnaryOp(node, fr)

    def getattr(self, base, attr, node=None):
        if isinstance(base, Quant):
            if attr == "magnitude":
                return base.mag
            if attr == "units":
                return base.unit
            if attr == "dimensionless":
                return not base.unit.dims
            if attr == "dimensionality":
                return pint_dims(base.unit.dims)
            if attr in ("to", "to_base_units", "squeeze", "sum", "min", "max"):
                return BoundMethod(base, attr)
            if attr == "T":
                return base
        if isinstance(base, UnitV):
            if attr == "dimensionality":
                return pint_dims(base.dims)
            if attr == "units":
                return base
        if isinstance(base, Obj) and attr not in base.attrs and base.cls is not None:
            # class-level attribute (Device.ureg = ureg)
            if self.repo.method(base.cls, attr) is None:
                for k in self.repo.mro(base.cls):
                    for st in k.node.body:
                        if isinstance(st, ast.Assign) and any(isinstance(t, ast.Name) and t.id == attr for t in st.targets):
                            return self.eval(st.value, Frame(None, k.module))
        return super().getattr(base, attr, node)

    def call_method(self, recv, name, args, kwargs, node=None):
        if isinstance(recv, Quant):
            if name == "to":
                u = self.as_unit(args[0])
                ok = u.dims == recv.unit.dims
                self.to_log.append((dstr(recv.unit.dims), dstr(u.dims), ok, norm(node) if node is not None else ""))
                if not ok:
                    raise DimMismatch(f".to(): cannot convert [{dstr(recv.unit.dims)}] to [{dstr(u.dims)}]"
                                      + (f" in `{norm(node)}`" if node is not None else ""))
                return Quant(_scale(recv.mag, recv.unit.factor / u.factor), u)
            if name == "to_base_units":
                return Quant(_scale(recv.mag, recv.unit.factor), UnitV(self.one, dict(recv.unit.dims)))
            if name == "squeeze":
                return recv
            if name in ("min", "max"):
                return self.fresh_const(name, recv)
        return super().call_method(recv, name, args, kwargs, node)

    def e_Subscript(self, node, fr):
        base = self.eval(node.value, fr)
        if isinstance(base, Quant):
            # index the magnitude, keep the unit
            tmp = ast.Subscript(value=ast.Name(id="__q", ctx=ast.Load()), slice=node.slice, ctx=ast.Load())
            f2 = Frame(fr.fi, fr.module, {"__q": base.mag}, parent=fr)
            return Quant(super().e_Subscript(tmp, f2), base.unit)
        return super().e_Subscript(node, fr)

    def fresh_const(self, what, q: Quant) -> Quant:
        self._fresh = getattr(self, "_fresh", 0) + 1
        return Quant(self.T.real(f"{what}#{self._fresh}"), q.unit)

    def x_numpy_ptp(self, a, k):
        if isinstance(a[0], Quant):
            return self.fresh_const("ptp", a[0])
        raise Unsupported("ptp of a non-quantity")

    def x_numpy_zeros_like(self, a, k):
        if isinstance(a[0], Quant):
            return Quant(self.const(0), a[0].unit)
        return super().x_numpy_zeros_like(a, k)

    def x_numpy_stack(self, a, k):
        v = a[0]
        if isinstance(v, list) and v and all(isinstance(x, Quant) for x in v) and k.get("axis") == 1:
            u = v[0].unit
            cols = []
            for x in v:
                if x.unit.dims != u.dims:
                    raise DimMismatch("stacking quantities of different dimensions")
                cols.append(_scale(x.mag, x.unit.factor / u.factor))
            return Quant(Cols(cols), u)
        return super().x_numpy_stack(a, k)

    def x_builtins_isinstance(self, a, k):
        v, c = a
        if isinstance(c, ModRef) and c.dotted in ("pint.Quantity", "pint.quantity.Quantity"):
            return isinstance(v, Quant)
        return super().x_builtins_isinstance(a, k)

    def x_numpy_pi(self, a, k):
        return self.pi


def device_model(repo: Repo, ip: DimInterp) -> Obj:
    T = ip.T
    layer = Obj(repo.cls("tdgl.device.layer", "Layer"), {
        "coherence_length": T.real("xi", "pos"), "london_lambda": T.real("lam", "pos"),
        "thickness": T.real("d", "pos"), "conductivity": T.real("sigma", "pos"),
        "u": T.real("u", "pos"), "gamma": T.real("gamma", "nonneg"), "z0": T.real("z0"),
    }, label="layer")
    dev = Obj(repo.cls("tdgl.device.device", "Device"), {
        "layer": layer, "_length_units": UnitStr("length"),
    }, label="device")
    return dev


def lenient_env(ip: Interp, fi, env: dict, stop_names=()):
    """Run a function body best-effort: unsupported statements bind their targets to Opaque;
    undecidable branches run both arms in order.  Returns the frame."""
    fr = Frame(fi, fi.module, env)

    def run(stmts):
        for s in stmts:
            try:
                if isinstance(s, ast.If):
                    try:
                        t = ip.truth(ip.eval(s.test, fr))
                    except (Unsupported, TypeError, AttributeError, KeyError, ValueError, IndexError):
                        t = None
                    if t is None:
                        run(s.body)
                        run(s.orelse)
                    else:
                        run(s.body if t else s.orelse)
                elif isinstance(s, (ast.For, ast.While, ast.With, ast.Try)):
                    for fld in ("body", "orelse", "finalbody"):
                        run(getattr(s, fld, []) or [])
                elif isinstance(s, (ast.Return, ast.Raise)):
                    continue
                elif isinstance(s, ast.Assign) and isinstance(s.value, ast.IfExp):
                    # `x = A if T else B` is read like `if T: x = A / else: x = B`
                    import copy as _copy
                    arms = []
                    for v_ in (s.value.body, s.value.orelse):
                        a_ = _copy.copy(s)
                        a_.value = v_
                        arms.append(a_)
                    run([ast.copy_location(ast.If(test=s.value.test, body=[arms[0]], orelse=[arms[1]]), s)])
                else:
                    ip.exec_block([s], fr)
            except DimMismatch:
                raise
            except (Unsupported, TypeError, AttributeError, KeyError, ValueError, IndexError) as e:
                for t in getattr(s, "targets", [getattr(s, "target", None)]):
                    if t is None:
                        continue
                    elts = t.elts if isinstance(t, (ast.Tuple, ast.List)) else [t]
                    for n in elts:
                        if isinstance(n, ast.Name):
                            fr.env[n.id] = Opaque(f"unsupported: {e}")
                        elif isinstance(n, ast.Attribute) and isinstance(n.value, ast.Name):
                            ok, base = fr.lookup(n.value.id)
                            if ok and isinstance(base, Obj):
                                base.attrs[n.attr] = Opaque(f"unsupported: {e}")
    run(fi.node.body)
    return fr


def solver_scales(repo: Repo, field_kind="B"):
    """Evaluate the unit-bearing expressions of TDGLSolver.__init__ symbolically."""
    T = AtomTable()
    ip = DimInterp(repo, T, field_kind)
    dev = device_model(repo, ip)
    opts = Obj(repo.cls("tdgl.solver.options", "SolverOptions"), {
        "field_units": UnitStr("field"), "current_units": UnitStr("current"),
        "include_screening": True, "gpu": False, "terminal_psi": None, "monitor": False,
        "adaptive": True,
    }, label="options")
    me = Obj(repo.cls("tdgl.solver.solver", "TDGLSolver"), {}, label="solver")
    fi = repo.func("tdgl.solver.solver", "TDGLSolver.__init__")
    mesh = Obj(None, {"areas": Field("areas", "site", sign="pos"), "sites": Field("sites", "site", comps=2),
                      "edge_mesh": Obj(None, {"centers": Field("ctr", "edge", comps=2),
                                              "edges": Field("e", "edge", kind="index", comps=2),
                                              "normalized_directions": Field("ndir", "edge", comps=2),
                                              "boundary_edge_indices": Opaque("bidx")}, label="edge_mesh")},
               label="mesh")
    dev.attrs["mesh"] = mesh
    dev.attrs["probe_points"] = None
    env = {"self": me, "device": dev, "options": opts, "applied_vector_potential": Opaque("A"),
           "terminal_currents": None, "disorder_epsilon": Opaque("eps"), "seed_solution": None}
    fr = lenient_env(ip, fi, env)
    return T, ip, dev, me, fr, fi


def check_j_scale(ctx):
    """R01.5 (also used by C08): J_scale == 4 [current_units]/[length_units]/K0, dimensionless."""
    repo = ctx.repo
    T, ip, dev, me, fr, fi = solver_scales(repo)
    # the scale is identified by its role, not its name: the factor applied to the values of the user's current function
    fn = fi.node
    sa = [n for n in own_nodes(fn) if isinstance(n, ast.Assign) and any(
        isinstance(t, ast.Attribute) and t.attr == "current_func" for t in n.targets)]
    ok = False
    det = None
    jname = None
    if len(sa) == 1 and isinstance(sa[0].value, ast.Lambda) and isinstance(sa[0].value.body, ast.DictComp):
        dc = sa[0].value.body
        det = norm(dc)
        v = dc.value
        tgt = dc.generators[0].target
        loopvars = {getattr(e, "id", None) for e in getattr(tgt, "elts", [])}
        it = dc.generators[0].iter
        lam_args = [a.arg for a in sa[0].value.args.args]
        iter_ok = isinstance(it, ast.Call) and isinstance(it.func, ast.Attribute) and it.func.attr == "items" and not it.args \
            and isinstance(it.func.value, ast.Call) and isinstance(it.func.value.func, ast.Name) \
            and [getattr(a, "id", None) for a in it.func.value.args] == lam_args
        if isinstance(v, ast.BinOp) and isinstance(v.op, ast.Mult) and isinstance(v.left, ast.Name) and isinstance(v.right, ast.Name):
            others = {v.left.id, v.right.id} - loopvars
            valvar = getattr(tgt.elts[1], "id", None) if isinstance(tgt, ast.Tuple) and len(tgt.elts) == 2 else None
            if len(others) == 1 and valvar in (v.left.id, v.right.id) and isinstance(dc.key, ast.Name) and dc.key.id == getattr(tgt.elts[0], "id", "?"):
                jname = others.pop()
                ok = iter_ok
    if jname is None and len(sa) == 1 and isinstance(sa[0].value, ast.Name):
        # self.current_func = <nested def>: the scale is the free name multiplied with the value variable of a loop over f(t).items()
        defs = [d for d in ast.walk(fn) if isinstance(d, ast.FunctionDef) and d.name == sa[0].value.id and d is not fn]
        if len(defs) == 1:
            d = defs[0]
            det = norm(d)[:200]
            for lp in ast.walk(d):
                if isinstance(lp, ast.For) and isinstance(lp.target, ast.Tuple) and len(lp.target.elts) == 2 \
                        and isinstance(lp.iter, ast.Call) and isinstance(lp.iter.func, ast.Attribute) and lp.iter.func.attr == "items":
                    valvar = getattr(lp.target.elts[1], "id", None)
                    for b in ast.walk(lp):
                        if isinstance(b, ast.BinOp) and isinstance(b.op, ast.Mult) and isinstance(b.left, ast.Name) and isinstance(b.right, ast.Name) \
                                and valvar in (b.left.id, b.right.id):
                            jname = ({b.left.id, b.right.id} - {valvar}).pop() if b.left.id != b.right.id else None
                            ok = jname is not None
    if jname is None:
        raise AnalysisError("self.current_func is no longer `lambda t: {key: <scale> * value for key, value in f(t).items()}`: "
                            "cannot identify the current scale")
    ok_, js = fr.lookup(jname)
    if not ok_ or not isinstance(js, Rat):
        raise AnalysisError(f"J_scale in TDGLSolver.__init__ is not a dimensionless number in the model: {js!r}")
    xi, lam, d = T.real("xi"), T.real("lam"), T.real("d")
    # K0 = 4 xi Bc2 / (mu0 Lambda) with physical xi = xi*kL etc. (documented in Device.K0's docstring)
    xi_p, lam_p, d_p = xi * ip.kL, lam * ip.kL, d * ip.kL
    Bc2 = ip.Phi0 / (2 * ip.pi * xi_p ** 2)
    K0 = 4 * xi_p * Bc2 / (ip.mu0 * (lam_p ** 2 / d_p))
    want = 4 * (ip.kI / ip.kL) / K0
    ctx.ob("R01.5", "J_scale == 4 * (current_units/length_units) / K0 as an exact term in the unit sizes", js == want,
           detail={"J_scale": str(js), "expected": str(want)}, where=fi.fq, construct="J_scale",
           loc=loc(fi, fi.node), message=f"J_scale = {js}, expected {want}",
           consequence="the dimensionless terminal current density is off by a unit-dependent factor: the injected current "
                       "differs from the requested one in some unit system")
    # applied exactly once to the values of the user's current function
    mult_uses = [n for n in ast.walk(fn) if isinstance(n, ast.BinOp) and isinstance(n.op, ast.Mult) and any(
        isinstance(x, ast.Name) and x.id == jname for x in (n.left, n.right))]
    ctx.ob("R01.5", "J_scale multiplies every value returned by the user's current function, exactly once",
           ok and len(mult_uses) == 1, detail={"current_func": det, "multiplications_by_J_scale": len(mult_uses)},
           where=fi.fq, construct="self.current_func", loc=loc(fi, sa[0]) if sa else "",
           message="the unit scale is not applied exactly once to the requested currents",
           consequence="requested terminal currents are scaled twice or not at all")
