"""Symbolic HDF5 round trips: a writer is followed statement by statement into a model of an h5py group, and the reader is then
followed on exactly that group (pvs/smallstep.py).

What the writer stores are the opaque symbols of the object's attributes (`self.sites`), so what the reader hands to the
constructor can be traced back to the attribute it came from - whichever way writer and reader are arranged (statement per
field, loops over tables of names, nested helper functions, conditional expressions, keyword dictionaries).  Scenarios: every
optional attribute (one the writer compares with None) set and unset, every boolean writer option on and off.  A reader that
raises on a group its own writer produced, a key that no scenario reads, a constructor parameter fed from another attribute's
key or not fed at all are the findings.  A statement outside the model is an AnalysisError, never a verdict.
"""
from __future__ import annotations

import ast
import re
from typing import Any, Dict, List, Optional, Set, Tuple

from .smallstep import Closure, Machine, Opaque, Raised, Undecidable, module_constants, render
from .src import AnalysisError


class Group:
    def __init__(self, path: str):
        self.path = path
        self.items: Dict[Any, Any] = {}
        self.attrs = Attrs(self)
        self.read: Set[Any] = set()
        self.missed: Set[Any] = set()               # keys looked for and not found
        self.writer: Optional[Opaque] = None        # the object whose to_hdf5 filled this group
        self.writer_args: dict = {}

    def __repr__(self):
        return f"<group {self.path}>"

    def all_groups(self):
        yield self
        for v in self.items.values():
            if isinstance(v, Group):
                yield from v.all_groups()


class Attrs:
    def __init__(self, group: Group):
        self.group = group
        self.items: Dict[Any, Any] = {}
        self.read: Set[Any] = set()
        self.missed: Set[Any] = set()

    def __repr__(self):
        return f"<attrs of {self.group.path}>"


def _key(k):
    return k


class H5Machine(Machine):
    """Machine with h5py groups, context managers that yield their argument, and opaque sequences of two elements."""

    def iterate(self, v, node):
        if isinstance(v, Opaque):
            return [Opaque(f"{v.text}[{i}]", ("index", v, i)) for i in range(2)]
        if isinstance(v, Group):
            return list(v.items)
        if isinstance(v, Attrs):
            return list(v.items)
        return super().iterate(v, node)

    def enter(self, v, node):
        return v

    def ev(self, e):
        if isinstance(e, ast.Subscript):
            base = self.ev(e.value)
            if isinstance(base, (Group, Attrs)):
                if isinstance(e.slice, ast.Slice):
                    return base
                key = self.ev(e.slice)
                if key == () or key is Ellipsis:
                    return base
                if key not in base.items:
                    raise Raised(f"KeyError: {render(key)} in {base!r}")
                base.read.add(key)
                return base.items[key]
        if isinstance(e, ast.Compare) and len(e.ops) == 1 and isinstance(e.ops[0], (ast.In, ast.NotIn)):
            c = self.ev(e.comparators[0])
            if isinstance(c, (Group, Attrs)):
                k = self.ev(e.left)
                r = k in c.items
                if not r:
                    c.missed.add(k)
                return r if isinstance(e.ops[0], ast.In) else not r
        if isinstance(e, ast.Attribute):
            base = self.ev(e.value)
            if isinstance(base, Opaque) and base.parts and base.parts[0] == "field" and e.attr == "name":
                return base.parts[1]
            if isinstance(base, Group):
                if e.attr == "attrs":
                    return base.attrs
                return Opaque(f"{base.path}.{e.attr}")
            if isinstance(base, Attrs):
                return Opaque(f"{base!r}.{e.attr}")
        return super().ev(e)

    def call(self, e: ast.Call):
        f = e.func
        if isinstance(f, ast.Attribute):
            base = self.ev(f.value)
            if isinstance(base, (Group, Attrs)):
                args, kwargs = self.arguments(e)
                m = f.attr
                if m in ("create_group", "require_group") and isinstance(base, Group) and args:
                    k = args[0]
                    if k in base.items:
                        if m == "create_group":
                            raise Raised(f"ValueError: group {render(k)} exists")
                        return base.items[k]
                    g = Group(f"{base.path}/{render(k)}")
                    base.items[k] = g
                    return g
                if m == "create_dataset" and isinstance(base, Group) and args:
                    base.items[args[0]] = kwargs.get("data", args[1] if len(args) > 1 else Opaque("empty dataset"))
                    return base.items[args[0]]
                if m == "get" and args:
                    if args[0] in base.items:
                        base.read.add(args[0])
                        return base.items[args[0]]
                    base.missed.add(args[0])
                    return args[1] if len(args) > 1 else kwargs.get("default")
                if m == "keys":
                    return list(base.items)
                if m == "values":
                    base.read |= set(base.items)
                    return list(base.items.values())
                if m == "items":
                    base.read |= set(base.items)
                    return list(base.items.items())
                if m in ("update",) and isinstance(base, Attrs) and args:
                    if isinstance(args[0], dict):
                        base.items.update(args[0])
                    else:
                        base.items[Opaque(f"**{render(args[0])}")] = args[0]        # a whole mapping stored as attributes
                    return None
                if m == "__contains__" and args:
                    return args[0] in base.items
                raise Undecidable(f"h5py method .{m}() is outside the model")
        return super().call(e)

    def compare(self, op, a, b, node):
        if isinstance(op, (ast.Is, ast.IsNot)):
            for x, y in ((a, b), (b, a)):
                if y is None and isinstance(x, Opaque):
                    mm = re.fullmatch(r"self\.(\w+)", x.text)
                    if mm:
                        self.none_tested.add(mm.group(1))
        return super().compare(op, a, b, node)

    none_tested: Set[str]

    def assign(self, t, v):
        if isinstance(t, ast.Subscript):
            base = self.ev(t.value)
            if isinstance(base, (Group, Attrs)):
                base.items[self.ev(t.slice)] = v
                return
        super().assign(t, v)


    def delete(self, t):
        if isinstance(t, ast.Subscript):
            base = self.ev(t.value)
            if isinstance(base, (Group, Attrs)):
                k = self.ev(t.slice)
                if k not in base.items:
                    raise Raised(f"KeyError: {render(k)}")
                del base.items[k]
                return
        super().delete(t)


BUILTINS_TRUE = ("h5py.File", "h5py.Group")


def norm_(d):
    return ast.unparse(d)


def _std_call(unset: Set[str], log: dict, fi=None):
    """call hook shared by writers and readers"""
    cls = getattr(fi, "cls", None)

    def call(m, node, name, args, kwargs):
        short = name.split(".")[-1]
        # a static / class method of the same class, called with the group (Mesh.is_restorable(h5group)): followed in the model
        if cls is not None and "." in name and name.split(".")[0] in (cls.name, "cls", "self") and name.count(".") == 1 and short in cls.methods \
                and short != fi.node.name and short not in ("to_hdf5", "from_hdf5"):
            h = cls.methods[short].node
            decos = {getattr(d, "id", "") for d in h.decorator_list}
            takes_group = any(isinstance(a, (Group, Attrs)) for a in list(args) + list(kwargs.values()))
            private = short.startswith("_") and not short.startswith("__")
            if takes_group or private:
                if "staticmethod" in decos:
                    return m.invoke(Closure(h, None), args, kwargs)
                if "classmethod" in decos:
                    return m.invoke(Closure(h, None), [Opaque("cls")] + list(args), kwargs)
                if name.split(".")[0] == "self" and not any(norm_(d) == "property" for d in h.decorator_list):
                    return m.invoke(Closure(h, None), [Opaque("self")] + list(args), kwargs)
        if name == "isinstance" and len(args) == 2:
            v, c = args
            if isinstance(v, Group):
                return "str" not in render(c) or "Group" in render(c) or "File" in render(c)
            if isinstance(v, str):
                return render(c) in ("str", "(str,)")
            if v is None:
                return False
            raise Undecidable(f"isinstance({render(v)}, {render(c)})")
        if short in ("asdict", "fields") and name.split(".")[0] in ("dataclasses", "asdict", "fields") and args:
            names = [s_.target.id for s_ in cls.node.body if isinstance(s_, ast.AnnAssign) and isinstance(s_.target, ast.Name)] if cls is not None else []
            if names and short == "asdict" and args[0] == Opaque("self"):
                return {n_: Opaque(f"self.{n_}", ("attr", Opaque("self"), n_)) for n_ in names}
            if names and short == "fields" and isinstance(args[0], Opaque) and args[0].text in (cls.name, "cls", "self"):
                return [Opaque(f"<field {n_}>", ("field", n_)) for n_ in names]
        if name == "nullcontext" or name.endswith(".nullcontext"):
            return args[0] if args else None
        if name in ("sorted", "list", "tuple", "reversed") and args and isinstance(args[0], (list, tuple)):
            return list(args[0])           # order is not what is checked here
        if name == "str" and args:
            return args[0] if isinstance(args[0], (str, Opaque)) else str(args[0])
        if name == "int" and args and isinstance(args[0], (int, str)):
            try:
                return int(args[0])
            except ValueError:
                return Opaque(f"int({args[0]!r})")
        if short == "to_hdf5":
            recv = m.callee(node.func)[1]
            groups = [a for a in list(args) + list(kwargs.values()) if isinstance(a, Group)]
            if isinstance(recv, Opaque) and groups:
                groups[0].writer = recv
                groups[0].writer_args = {k: v for k, v in kwargs.items() if not isinstance(v, Group)}
                groups[0].items["<contents>"] = recv
                log.setdefault("sub_writers", []).append((render(recv), groups[0].path))
                return None
        if short == "from_hdf5":
            groups = [a for a in list(args) + list(kwargs.values()) if isinstance(a, Group)]
            if groups:
                g = groups[0]
                if g.writer is None:
                    raise Raised(f"{name} on a group that no sub-object writer filled ({g.path})")
                g.read.add("<contents>")
                log.setdefault("sub_readers", []).append((name, g.path))
                return Opaque(g.writer.text, ("reloaded", g.writer, name))
        return NotImplemented
    return call


def follow_writer(f, unset: Set[str], flags: Dict[str, bool], extra_attrs=None, root: Optional[Group] = None, into: Optional[Group] = None,
                  empty: Optional[Set[str]] = None) -> Tuple[str, Any, Group, Set[str], dict]:
    """(kind, value, root group, attributes compared with None, log); `into` is the group handed to the writer (default: the root)"""
    a = f.node.args
    params = [p.arg for p in a.args + a.kwonlyargs]
    if not params or params[0] != "self":
        raise AnalysisError(f"{f.fq} is not an instance method")
    root = root or Group("file")
    tested: Set[str] = set()
    log: dict = {}
    m0 = Machine({}, lambda t: NotImplemented, lambda *x: NotImplemented)
    defaults = dict(zip([p.arg for p in a.args][len(a.args) - len(a.defaults):], a.defaults))
    for p, d in zip(a.kwonlyargs, a.kw_defaults):
        if d is not None:
            defaults[p.arg] = d
    env = dict(module_constants(f.module.tree))
    env["self"] = Opaque("self")
    gp = [p for p in params[1:] if p not in defaults]
    if len(gp) != 1:
        raise AnalysisError(f"{f.fq}: cannot tell which parameter is the HDF5 group ({params})")
    env[gp[0]] = into or root
    for p, d in defaults.items():
        env[p] = flags[p] if p in flags else m0.ev(d)

    def attrs(text):
        mm = re.fullmatch(r"self\.(\w+)", text)
        if mm and mm.group(1) in unset:
            return None
        if mm and empty and mm.group(1) in empty:
            return []
        if extra_attrs is not None:
            return extra_attrs(text)
        return NotImplemented

    def undecided(text):
        mm = re.fullmatch(r"(?:not )?\(?self\.(\w+) is (not )?None\)?", text.strip())
        if mm:
            tested.add(mm.group(1))
            return mm.group(2) is not None          # the attribute is set in this scenario (unset ones are None and decidable)
        # `if self.terminals:` / `if not self.holes:` - a collection that may be empty: non-empty here, empty in its own scenario
        mm = re.fullmatch(r"(not )?\(?(?:len\()?self\.(\w+)\)?\)?(?: (?:!=|>) 0)?", text.strip())
        if mm:
            log.setdefault("emptiable", set()).add(mm.group(2))
            return mm.group(1) is None
        return None
    mach = H5Machine(env, attrs, _std_call(unset, log, f), fuel=24, undecided=undecided)

    def undecided_value(v, text):
        src = sources(v)
        if len(src) == 1:            # `if holes_by_name:` with holes_by_name = sorted(self.holes): a collection that may be empty
            log.setdefault("emptiable", set()).add(next(iter(src)))
            return True
        return None
    mach.undecided_value = undecided_value
    mach.none_tested = tested
    kind, val = mach.run_function(f.node)
    return kind, val, root, tested, log


def follow_reader(f, root: Group, given: Optional[Dict[str, Any]] = None) -> Tuple[str, Any, H5Machine, dict]:
    """`given`: values of the reader's other parameters"""
    given = given or {}
    a = f.node.args
    params = [p.arg for p in a.args + a.kwonlyargs]
    log: dict = {}
    env = dict(module_constants(f.module.tree))
    m0 = Machine({}, lambda t: NotImplemented, lambda *x: NotImplemented)
    defaults = dict(zip([p.arg for p in a.args][len(a.args) - len(a.defaults):], a.defaults))
    for p, d in zip(a.kwonlyargs, a.kw_defaults):
        if d is not None:
            defaults[p.arg] = d
    rest = [p for p in params if p not in ("cls", "self")]
    gp = [p for p in rest if p not in defaults and p not in given]
    if len(gp) != 1:
        raise AnalysisError(f"{f.fq}: cannot tell which parameter is the HDF5 group ({params})")
    env[gp[0]] = root
    if "cls" in params:
        env["cls"] = Opaque("cls")
    for p, d in defaults.items():
        env[p] = m0.ev(d)
    env.update(given)
    def undecided(text):
        log.setdefault("truthiness_tests", []).append(text)
        return True
    mach = H5Machine(env, lambda t: NotImplemented, _std_call(set(), log, f), fuel=24, undecided=undecided)
    mach.none_tested = set()
    kind, val = mach.run_function(f.node)
    return kind, val, mach, log


def sources(v, out=None) -> Set[str]:
    """attributes of the written object (`self.X`) that a value is computed from"""
    out = set() if out is None else out
    if isinstance(v, Opaque):
        mm = re.match(r"self\.(\w+)", v.text) if (v.parts is None or v.parts[0] in ("attr", "index", "reloaded")) else None
        if mm:
            out.add(mm.group(1))
            return out
        if v.parts:
            for p in v.parts[1:]:
                sources(p, out)
    elif isinstance(v, (list, tuple)):
        for x in v:
            sources(x, out)
    elif isinstance(v, dict):
        for x in v.values():
            sources(x, out)
    return out


def unread(root: Group) -> List[str]:
    out = []
    for g in root.all_groups():
        if g.writer is not None and "<contents>" in g.read:
            continue            # a sub-object: its own writer/reader pair is judged on its own
        for k, v in g.items.items():
            if k not in g.read and not (isinstance(v, Group) and (v.read or v.attrs.read or any(x.read for x in v.all_groups()))):
                out.append(f"{g.path}[{render(k)}]")
        for k in g.attrs.items:
            if k not in g.attrs.read:
                out.append(f"{g.path}.attrs[{render(k)}]")
    return out


def all_keys(root: Group) -> List[str]:
    out = []
    for g in root.all_groups():
        out += [f"{g.path}[{render(k)}]" for k in g.items] + [f"{g.path}.attrs[{render(k)}]" for k in g.attrs.items]
    return out


def missed_keys(root: Group) -> List[str]:
    out = []
    for g in root.all_groups():
        out += [f"{g.path}[{render(k)}]" for k in g.missed] + [f"{g.path}.attrs[{render(k)}]" for k in g.attrs.missed]
    return out
