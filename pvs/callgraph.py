"""Whole-library call graph over resolved callees (methods, nested defs, properties,
callables stored in attributes at construction sites)."""
from __future__ import annotations

import ast
from typing import Dict, List, Optional, Set, Tuple

from .src import ClassInfo, FuncInfo, Repo


class CallGraph:
    def __init__(self, repo: Repo):
        self.repo = repo
        self.edges: Dict[str, Set[str]] = {}
        self.ext: Dict[str, List[Tuple[str, ast.Call]]] = {}
        self.unresolved: Dict[str, List[str]] = {}
        self.attr_bind: Dict[str, str] = {}
        self.funcs: Dict[str, FuncInfo] = {f.fq: f for f in repo.all_functions()}
        for f in self.funcs.values():
            self._bindings(f)
        for f in self.funcs.values():
            self._scan(f)

    def _bindings(self, f: FuncInfo):
        """Class(kw=self.method) stores a bound method in Class.kw (Runner.function = self.update)."""
        env = None
        for n in ast.walk(f.node):
            if isinstance(n, ast.Call):
                r = self.repo.resolve_name_expr(f.module, n.func)
                if isinstance(r, ClassInfo):
                    for k in n.keywords:
                        if k.arg and isinstance(k.value, ast.Attribute) and isinstance(k.value.value, ast.Name) \
                                and k.value.value.id == "self" and f.cls is not None:
                            m = self.repo.method(f.cls, k.value.attr)
                            if m is not None:
                                self.attr_bind[f"{r.fq}.{k.arg}"] = m.fq

    def _scan(self, f: FuncInfo):
        repo = self.repo
        env = repo.local_types(f)
        out = self.edges.setdefault(f.fq, set())
        # nested defs are callees of their parent (they run in its dynamic extent when called; include conservatively)
        for g in self.funcs.values():
            if g.parent is f:
                out.add(g.fq)
        for n in ast.walk(f.node):
            if isinstance(n, (ast.FunctionDef, ast.AsyncFunctionDef)) and n is not f.node:
                continue
            if isinstance(n, ast.Call):
                r = repo.resolve_call(f, n, env)
                if isinstance(r, FuncInfo):
                    out.add(r.fq)
                elif isinstance(r, ClassInfo):
                    for nm in ("__init__", "__post_init__", "__enter__", "__exit__"):
                        m = repo.method(r, nm)
                        if m is not None and (nm in ("__init__", "__post_init__") or self._in_with(f, n)):
                            out.add(m.fq)
                elif isinstance(r, tuple) and r[0] == "attr":
                    tgt = self.attr_bind.get(r[1])
                    if tgt:
                        out.add(tgt)
                    else:
                        self.unresolved.setdefault(f.fq, []).append(ast.unparse(n.func))
                elif isinstance(r, tuple) and r[0] == "ext":
                    self.ext.setdefault(f.fq, []).append((r[1], n))
                else:
                    self.unresolved.setdefault(f.fq, []).append(ast.unparse(n.func))
            elif isinstance(n, ast.Attribute) and isinstance(n.ctx, ast.Load):
                bt = repo.expr_type(f, n.value, env)
                if bt:
                    c = repo.by_fq(bt)
                    if isinstance(c, ClassInfo):
                        m = repo.method(c, n.attr)
                        if m is not None and any(isinstance(d, ast.Name) and d.id == "property" for d in m.node.decorator_list):
                            out.add(m.fq)

    def _in_with(self, f: FuncInfo, call: ast.Call) -> bool:
        for n in ast.walk(f.node):
            if isinstance(n, ast.With):
                for it in n.items:
                    if it.context_expr is call:
                        return True
        return False

    def reachable(self, roots: List[str]) -> Set[str]:
        seen = set()
        st = list(roots)
        while st:
            x = st.pop()
            if x in seen:
                continue
            seen.add(x)
            st.extend(self.edges.get(x, ()))
        return seen

    def calls_within(self, f: FuncInfo, nodes: List[ast.AST]) -> Set[str]:
        """Callees of the calls that lie inside the given subtrees of f."""
        repo = self.repo
        env = repo.local_types(f)
        out = set()
        for root in nodes:
            for n in ast.walk(root):
                if isinstance(n, ast.Call):
                    r = repo.resolve_call(f, n, env)
                    if isinstance(r, FuncInfo):
                        out.add(r.fq)
                    elif isinstance(r, ClassInfo):
                        for nm in ("__init__", "__post_init__", "__enter__", "__exit__"):
                            m = repo.method(r, nm)
                            if m is not None:
                                out.add(m.fq)
                    elif isinstance(r, tuple) and r[0] == "attr" and self.attr_bind.get(r[1]):
                        out.add(self.attr_bind[r[1]])
                elif isinstance(n, ast.Attribute) and isinstance(n.ctx, ast.Load):
                    bt = repo.expr_type(f, n.value, env)
                    if bt:
                        c = repo.by_fq(bt)
                        if isinstance(c, ClassInfo):
                            m = repo.method(c, n.attr)
                            if m is not None and any(isinstance(d, ast.Name) and d.id == "property" for d in m.node.decorator_list):
                                out.add(m.fq)
        return out
