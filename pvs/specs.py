"""Reference terms transcribed from docs/background.rst and public docstrings.

Nothing here is derived from the code under analysis.  Every spec names the
documentation label it transcribes; ``require_labels`` fails the run (analysis
error) when a label has vanished from the documentation.
"""
from __future__ import annotations

import re
from fractions import Fraction as Fr

from .alg import AtomTable, Rat
from .src import AnalysisError, repo_root


def doc_equations(path="docs/background.rst"):
    """label -> LaTeX body of every ``.. math:: :label: X`` block."""
    p = repo_root() / path
    if not p.exists():
        raise AnalysisError(f"specification source {path} not found")
    lines = p.read_text().splitlines()
    out = {}
    i = 0
    while i < len(lines):
        if lines[i].strip().startswith(".. math::"):
            j = i + 1
            label = None
            body = []
            while j < len(lines) and (not lines[j].strip() or lines[j].startswith((" ", "\t"))):
                m = re.match(r"\s*:label:\s*(\S+)", lines[j])
                if m:
                    label = m.group(1)
                elif lines[j].strip():
                    body.append(lines[j].strip())
                j += 1
            if label:
                out[label] = " ".join(body)
            i = j
        else:
            i += 1
    return out


def require_labels(labels):
    eqs = doc_equations()
    missing = [l for l in labels if l not in eqs]
    if missing:
        raise AnalysisError(f"documentation labels {missing} vanished from docs/background.rst")
    return {l: eqs[l] for l in labels}


# --- implicit Euler update (labels z, w, quad-2, quad-root, psi-sol) --------------

def euler_update(T: AtomTable, psi: Rat, a2: Rat, mu: Rat, eps: Rat, gamma: Rat, u: Rat, dt: Rat,
                 Lpsi: Rat, sqrt=None):
    """Returns dict(z, w, c, b, disc, x, psi_new) per the documentation."""
    sq = sqrt or T.sqrt_of
    I = Rat.I(T)
    Ut = T.unit_of(-(mu * dt))                      # exp(-i mu dt)
    z = gamma ** 2 / 2 * Ut * psi                    # :label: z
    w = z * a2 + Ut * (psi + (dt / u) * sq(1 + gamma ** 2 * a2) * ((eps - a2) * psi + Lpsi))  # :label: w
    c = z.real() * w.real() + z.imag() * w.imag()
    b = 2 * c + 1
    disc = b ** 2 - 4 * z.abs2() * w.abs2()          # discriminant of :label: quad-2
    x = 2 * w.abs2() / (b + sq(disc))                # :label: quad-root  ("+" root)
    psi_new = w - z * x                              # :label: psi-sol
    return dict(Ut=Ut, z=z, w=w, c=c, b=b, disc=disc, x=x, psi_new=psi_new)


EULER_LABELS = ["tdgl-num", "quad-1", "z", "w", "quad-2", "quad-root", "psi-sol"]
ADAPTIVE_LABELS = ["dt-tentative"]
SCREENING_LABELS = ["A-induced", "polyak"]
