"""Engine unit tests run by MANIFEST.setup_cmd (plain asserts, < 1 s)."""
from .alg import AtomTable, Rat, sign_of


def test_alg():
    T = AtomTable()
    w, z = T.cplx("w"), T.cplx("z")
    c = w.real() * z.real() + w.imag() * z.imag()
    b = 2 * c + 1
    w2 = w.abs2()
    disc = b ** 2 - 4 * z.abs2() * w2
    s = T.sqrt_of(disc)
    x = (2 * w2) / (b + s)
    psi = w - z * x
    assert (psi + z * x - w).is_zero()
    assert (psi.abs2() - x).is_zero()
    assert not ((w - z * x).abs2() - 2 * x).is_zero()
    U = T.unit("U")
    assert (U * U.conj() - 1).is_zero()
    g = T.real("g", "nonneg")
    assert sign_of(2 * g + 1) == "pos" and sign_of(g - 1) is None
    a, bb = T.real("a"), T.real("b")
    assert T.sqrt_of(a * a + bb) == T.sqrt_of(bb + a * a)
    assert (T.sqrt_of(a) ** 2 - a).is_zero()
    assert T.app("f", [a + bb]) == T.app("f", [bb + a])
    assert not (T.app("f", [a]) == T.app("f", [bb]))


def main():
    test_alg()
    from . import selfcheck_more
    selfcheck_more.main()
    print("pvs selfcheck ok")


if __name__ == "__main__":
    main()
