"""Flow-insensitive may-reach analysis inside one function (with nested defs and lambdas): which *sources* can influence which
*sinks*.  Used where a rule only needs "X takes part in Y" and must not depend on how the code is arranged.

A source is an expression pattern (callback -> label); labels propagate through assignments, augmented assignments, container
stores and mutator calls, calls (any tainted argument or receiver taints the result), comprehensions, loop variables, nested
function definitions (a call of a nested function is tainted by what its body reads) and closures.  The result is a fixpoint
over the names of the function."""
from __future__ import annotations

import ast
from typing import Callable, Dict, Optional, Set

MUTATORS = ("append", "extend", "insert", "add", "update", "setdefault", "__setitem__")


def reaching_labels(fn: ast.FunctionDef, source: Callable[[ast.AST], Optional[str]], const_iter_attr: bool = True) -> Dict[str, Set[str]]:
    """name -> labels that may influence the value bound to (or stored into) that name; the pseudo-name '<return>' collects what
    may influence a returned value."""
    lab: Dict[str, Set[str]] = {}
    # nested function name -> labels its body may read / return
    nested = {n.name: n for n in ast.walk(fn) if isinstance(n, (ast.FunctionDef,)) and n is not fn}
    lambdas: Dict[str, ast.Lambda] = {}
    for st in ast.walk(fn):
        if isinstance(st, ast.Assign) and isinstance(st.value, ast.Lambda):
            for t in st.targets:
                if isinstance(t, ast.Name):
                    lambdas[t.id] = st.value
    # loop variables ranging over literal tuples of strings: getattr(obj, var) stands for each attribute
    const_iters: Dict[str, list] = {}
    for n in ast.walk(fn):
        it = None
        if isinstance(n, ast.For) and isinstance(n.target, ast.Name):
            it = (n.target.id, n.iter)
        if isinstance(n, ast.comprehension) and isinstance(n.target, ast.Name):
            it = (n.target.id, n.iter)
        if it and isinstance(it[1], (ast.Tuple, ast.List)) and it[1].elts and all(isinstance(e, ast.Constant) and isinstance(e.value, str) for e in it[1].elts):
            const_iters[it[0]] = [e.value for e in it[1].elts]

    def of(e) -> Set[str]:
        out: Set[str] = set()
        if e is None:
            return out
        for x in ast.walk(e):
            s = source(x)
            if s:
                out.add(s)
            if isinstance(x, ast.Name) and isinstance(x.ctx, ast.Load):
                out |= lab.get(x.id, set())
                if x.id in nested:
                    out |= lab.get("<fn>" + x.id, set())
                if x.id in lambdas:
                    out |= lab.get("<fn>" + x.id, set())
            # getattr(obj, loopvar) with loopvar over constant names
            if const_iter_attr and isinstance(x, ast.Call) and getattr(x.func, "id", "") == "getattr" and len(x.args) >= 2 \
                    and isinstance(x.args[1], ast.Name) and x.args[1].id in const_iters:
                for nm in const_iters[x.args[1].id]:
                    fake = ast.Attribute(value=x.args[0], attr=nm, ctx=ast.Load())
                    s2 = source(fake)
                    if s2:
                        out.add(s2)
        return out

    def add(name: str, labels: Set[str]) -> bool:
        cur = lab.setdefault(name, set())
        if labels - cur:
            cur |= labels
            return True
        return False

    def targets(t):
        if isinstance(t, ast.Name):
            yield t.id
        elif isinstance(t, (ast.Tuple, ast.List)):
            for x in t.elts:
                yield from targets(x)
        elif isinstance(t, ast.Starred):
            yield from targets(t.value)
        elif isinstance(t, (ast.Subscript, ast.Attribute)):
            b = t
            while isinstance(b, (ast.Subscript, ast.Attribute)):
                b = b.value
            if isinstance(b, ast.Name):
                yield b.id

    changed = True
    rounds = 0
    while changed and rounds < 30:
        changed = False
        rounds += 1
        for n in ast.walk(fn):
            if isinstance(n, ast.Assign):
                ls = of(n.value)
                for t in n.targets:
                    for nm in targets(t):
                        changed |= add(nm, ls)
            elif isinstance(n, ast.AnnAssign) and n.value is not None:
                for nm in targets(n.target):
                    changed |= add(nm, of(n.value))
            elif isinstance(n, ast.AugAssign):
                for nm in targets(n.target):
                    changed |= add(nm, of(n.value))
            elif isinstance(n, (ast.For, ast.comprehension)):
                for nm in targets(n.target):
                    changed |= add(nm, of(n.iter))
            elif isinstance(n, ast.NamedExpr):
                changed |= add(n.target.id, of(n.value))
            elif isinstance(n, ast.With):
                for it in n.items:
                    if it.optional_vars is not None:
                        for nm in targets(it.optional_vars):
                            changed |= add(nm, of(it.context_expr))
            elif isinstance(n, ast.Call) and isinstance(n.func, ast.Attribute) and n.func.attr in MUTATORS:
                b = n.func.value
                while isinstance(b, (ast.Subscript, ast.Attribute)):
                    b = b.value
                if isinstance(b, ast.Name):
                    ls = set()
                    for a in n.args:
                        ls |= of(a)
                    for k in n.keywords:
                        ls |= of(k.value)
                    changed |= add(b.id, ls)
            elif isinstance(n, ast.Return) and n.value is not None:
                # returns of nested functions feed the function's pseudo-name; returns of fn itself feed '<return>'
                owner = _owner(fn, n, nested)
                changed |= add("<return>" if owner is None else "<fn>" + owner, of(n.value))
        # a nested function / lambda is also tainted by everything its body reads (closure variables)
        for nm, d in list(nested.items()):
            ls = set()
            for st in d.body:
                ls |= of(st) if isinstance(st, ast.expr) else set().union(*[of(x) for x in ast.walk(st) if isinstance(x, ast.expr)] or [set()])
            changed |= add("<fn>" + nm, ls)
        for nm, l_ in lambdas.items():
            changed |= add("<fn>" + nm, of(l_.body))
    return lab


def _owner(fn, ret, nested):
    for nm, d in nested.items():
        if any(x is ret for x in ast.walk(d)):
            return nm
    return None
