"""Predicates on the traces of the simulation loop (pvs/run_trace.py), shared by C05, C11, C12 and C15."""
from __future__ import annotations

from typing import Dict, List

from .run_trace import DT, DT0, run_traces, stage_traces
from .smallstep import render
from .src import AnalysisError


def _tag(sc):
    return ", ".join(f"{k}={v}" for k, v in sc.items() if v is not None and k not in ("pause",) or k == "interrupt")


_CACHE: Dict[int, dict] = {}


def loop_verdicts(repo) -> Dict[str, List[str]]:
    _cache = repo.__dict__.setdefault("_pvs_trace_cache", {})
    if "loop_verdicts" in _cache:
        return _cache["loop_verdicts"]
    V: Dict[str, List[str]] = {k: [] for k in ("label_content", "label_content_resume", "stop", "final_once", "save_flag", "cursor", "clear",
                                                 "first_frame_records", "cancel", "clock", "fresh_data", "update_args", "errors")}
    traces = stage_traces(repo)
    n_saves = 0
    for t in traces:
        sc = t.scenario
        tag = _tag(sc)
        k, N = sc["save_every"], sc["steps"]
        if sc.get("error"):
            # an error raised by the update function or the frame writer leaves the stage as that error, and nothing runs after it
            reached = bool(t.kinds("INTERRUPT"))
            if reached:
                idx_ = next(i for i, e in enumerate(t.events) if e.kind == "INTERRUPT")
                later = [e for e in t.events[idx_ + 1:] if e.kind == "UPDATE"]
                if t.outcome[0] != "raise" or sc["error"] not in str(t.outcome[1]):
                    V["errors"].append(f"[{tag}] a {sc['error']} raised during the {sc['interrupt'][0]} does not leave the stage: it ends with "
                                       f"{t.outcome[0]} {t.outcome[1]!r}")
                elif later:
                    V["errors"].append(f"[{tag}] {len(later)} update(s) run after the {sc['error']}")
            continue
        if t.outcome[0] != "return":
            periodic = len([i for i in range(0, N + 1) if i % k == 0])
            if sc["interrupt"] == ("save", periodic) and N % k != 0 and str(t.outcome[1]) == "KeyboardInterrupt":
                # Ctrl-C while the final frame is written after the loop: not caught by the stage (outside what C15 R15.4 claims)
                V.setdefault("_notes", []).append(f"[{tag}] an interrupt during the post-loop save propagates")
                continue
            V["cancel"].append(f"[{tag}] the stage raises {t.outcome[1]}")
            continue
        saves = t.kinds("SAVE")
        updates = t.kinds("UPDATE")
        resumed = sc["interrupt"] is not None and sc["pause"] and (sc["answer"] or "").lower().startswith("y")
        # --- label / content: a frame labelled step s holds the state after s updates, at time s * dt ---------------------------
        for e in saves:
            n_saves += 1
            ok = e.content == e.step and e.time == e.step * DT
            if not ok:
                (V["label_content_resume"] if resumed else V["label_content"]).append(
                    f"[{tag}] frame labelled step {e.step}, time {e.time} holds the state after {e.content} update(s)")
            if not e.fresh:
                V["fresh_data"].append(f"[{tag}] the frame of step {e.step} is handed to the writer as the runner's own container")
        for e in updates:
            if e.kwargs != ["mu", "psi"] or e.label is None:
                V["update_args"].append(f"[{tag}] the update is called with state label {e.label} and fields {e.kwargs}")
            if getattr(e, "dt_in", None) is not None and e.dt_in not in (render(DT0), render(DT)):
                V["update_args"].append(f"[{tag}] the update is handed dt = {e.dt_in}: neither the initial step nor the step the previous update returned")
        # --- the record buffer: cursor += 1 and clock advance once per update, before the next label -------------------------------
        evs = t.events
        for i, e in enumerate(evs):
            if e.kind == "UPDATE":
                seg = []
                for x in evs[i + 1:]:
                    if x.kind in ("LABEL", "UPDATE", "INTERRUPT"):
                        break
                    seg.append(x)
                cur = [x for x in seg if x.kind == "CURSOR"]
                adv = [x for x in seg if x.kind == "ADVANCE"]
                if len(cur) != 1 or cur[0].value != "+= 1":
                    V["cursor"].append(f"[{tag}] after update {e.version} the record cursor moves {[x.value for x in cur]}")
                if len(adv) != 1 or adv[0].by != DT:
                    V["clock"].append(f"[{tag}] after update {e.version} the clock moves by {[x.by for x in adv]}, the update returned dt = {DT}")
        if sc["interrupt"] is None:
            # --- stop at the first step whose time reaches the end time ------------------------------------------------------------
            if len(updates) != N or t.final_time != N * DT:
                V["stop"].append(f"[{tag}] {len(updates)} updates, final time {t.final_time}; the end time {N * DT} is reached after {N}")
            if not sc["save"]:
                if saves:
                    V["save_flag"].append(f"[{tag}] {len(saves)} frame(s) written although save=False")
            else:
                want = sorted({i for i in range(0, N + 1) if i % k == 0} | {N})
                got = [e.step for e in saves]
                if got != want:
                    V["final_once"].append(f"[{tag}] frames saved at steps {got}, expected {want}")
                # cleared exactly at the periodic save points, right after the save
                clears = 0
                for i, e in enumerate(evs):
                    if e.kind == "CLEAR":
                        clears += 1
                        prev = evs[i - 1] if i else None
                        if prev is None or prev.kind != "SAVE" or prev.step % k != 0:
                            V["clear"].append(f"[{tag}] the record buffer is cleared after {prev!r}, not right after a periodic save")
                want_clears = len([i for i in range(0, N + 1) if i % k == 0])
                if clears != want_clears:
                    V["clear"].append(f"[{tag}] the record buffer is cleared {clears} time(s), there are {want_clears} periodic saves")
                if saves and (saves[0].records is not None or any(e.records is None for e in saves[1:])):
                    V["first_frame_records"].append(f"[{tag}] records handed to the writer: {[e.records for e in saves]}")
            if t.outcome[1] is not True:
                V["cancel"].append(f"[{tag}] an uninterrupted stage returns {t.outcome[1]!r}")
        else:
            # --- cancellation / resume ------------------------------------------------------------------------------------------
            idx = next(i for i, e in enumerate(evs) if e.kind == "INTERRUPT") if t.kinds("INTERRUPT") else None
            if idx is None:
                continue            # the interrupted call was never reached in this scenario
            after = evs[idx + 1:]
            if sc["pause"] and not [e for e in after if e.kind == "PROMPT"]:
                V["cancel"].append(f"[{tag}] pause_on_interrupt is set but the user is not asked")
            if not sc["pause"] and [e for e in after if e.kind == "PROMPT"]:
                V["cancel"].append(f"[{tag}] the user is asked although pause_on_interrupt is off")
            if resumed:
                if t.outcome[1] is not True or not [e for e in after if e.kind == "UPDATE"]:
                    V["cancel"].append(f"[{tag}] the stage does not continue after the user asked to resume (returns {t.outcome[1]!r})")
            else:
                if t.outcome[1] is not False:
                    V["cancel"].append(f"[{tag}] a cancelled stage returns {t.outcome[1]!r}")
                if [e for e in after if e.kind == "UPDATE"]:
                    V["cancel"].append(f"[{tag}] updates continue after the cancellation")
                # the partial solution ends with the frame of the interrupted step (unless it was just saved / saving is off)
                last_label = [e for e in evs[:idx] if e.kind == "LABEL"][-1].step
                saved_steps = [e.step for e in t.kinds("SAVE")]
                want_n = (1,) if sc["interrupt"][0] == "update" else (0, 1)       # a frame whose own writing was interrupted may be missing
                if sc["save"] and saved_steps.count(last_label) not in want_n:
                    V["cancel"].append(f"[{tag}] cancelled at step {last_label}: frames saved at {saved_steps}")
    if n_saves < 100:
        raise AnalysisError(f"only {n_saves} frame saves in the traces of the simulation loop")
    V["_scenarios"] = [str(len(traces))]
    _cache["loop_verdicts"] = V
    return V


def run_verdicts(repo) -> Dict[str, List[str]]:
    _cache = repo.__dict__.setdefault("_pvs_trace_cache", {})
    if "run_verdicts" in _cache:
        return _cache["run_verdicts"]
    V: Dict[str, List[str]] = {k: [] for k in ("thermal_unsaved", "clock_reset", "buffer_reset", "result", "errors")}
    for t in run_traces(repo):
        sc = t.scenario
        tag = _tag(sc)
        evs = t.events
        skip_steps = int(round(sc["skip_time"] / DT))
        if sc.get("error"):
            idx_ = next((i for i, e in enumerate(evs) if e.kind == "INTERRUPT"), None)
            if idx_ is not None:
                later = [e for e in evs[idx_ + 1:] if e.kind == "UPDATE"]
                if t.outcome[0] != "raise" or sc["error"] not in str(t.outcome[1]) or later:
                    V["errors"].append(f"[{tag}] a {sc['error']} in update {sc['interrupt'][1]} does not end run(): {t.outcome[0]} {t.outcome[1]!r}, "
                                       f"{len(later)} update(s) afterwards")
            continue
        if t.outcome[0] != "return":
            V["result"].append(f"[{tag}] run() raises {t.outcome[1]}")
            continue
        saves = t.kinds("SAVE")
        if sc["interrupt"] is None:
            # thermalisation is never recorded; recorded labels and times restart at zero; content continues
            want = sorted({i for i in range(0, sc["steps"] + 1) if i % sc["save_every"] == 0} | {sc["steps"]})
            if [e.step for e in saves] != want:
                V["thermal_unsaved"].append(f"[{tag}] frames saved at steps {[e.step for e in saves]}, expected {want} (thermalisation: {skip_steps} steps)")
            for e in saves:
                if e.content != skip_steps + e.step or e.time != e.step * DT:
                    V["clock_reset"].append(f"[{tag}] frame (step {e.step}, time {e.time}) holds the state after {e.content} updates; "
                                            f"{skip_steps} of them were thermalisation")
            if skip_steps:
                # between the stages: the clock goes back to zero and the record buffer is emptied
                first_save = next((i for i, e in enumerate(evs) if e.kind == "SAVE"), len(evs))
                last_therm = max([i for i, e in enumerate(evs[:first_save]) if e.kind == "UPDATE"], default=-1)
                between = evs[last_therm + 1:first_save]
                if not [e for e in between if e.kind == "RESET" and e.time == 0]:
                    V["clock_reset"].append(f"[{tag}] the clock is not set back to zero between thermalisation and the recorded stage")
                if not [e for e in between if e.kind == "CLEAR"]:
                    V["buffer_reset"].append(f"[{tag}] the record buffer is not cleared between thermalisation and the recorded stage")
                if len([e for e in evs[:first_save] if e.kind == "UPDATE"]) != skip_steps:
                    V["thermal_unsaved"].append(f"[{tag}] {len([e for e in evs[:first_save] if e.kind == 'UPDATE'])} thermalisation updates, expected {skip_steps}")
            if t.outcome[1] is not True:
                V["result"].append(f"[{tag}] an uninterrupted run returns {t.outcome[1]!r}")
        else:
            j = sc["interrupt"][1]
            in_therm = j < skip_steps
            if in_therm:
                if t.outcome[1] is not False or saves:
                    V["result"].append(f"[{tag}] cancelled during thermalisation: run() returns {t.outcome[1]!r} with {len(saves)} frame(s)")
            else:
                if t.outcome[1] is not True:
                    V["result"].append(f"[{tag}] cancelled during the recorded stage: run() returns {t.outcome[1]!r}; the partial solution is lost")
    _cache["run_verdicts"] = V
    return V
