"""Exact algebra used by the value-numbering rules.

* ``GQ``   - Gaussian rationals  a + b*i  with Fraction parts.
* ``Poly`` - (Laurent) polynomials over named atoms with GQ coefficients.
* ``Rat``  - quotients of two ``Poly``; equality is decided by cross
             multiplication, so no gcd is ever needed.

Atoms are registered in an ``AtomTable``:

  real     self-conjugate symbol
  complex  symbol z with a partner  z~  (conj swaps them)
  unit     complex symbol of modulus one: conj(U) = U**-1; negative exponents
           are allowed on unit atoms (and only on them)
  sqrt     real symbol s with s**2 = radicand (a Poly); reduced on multiply
  func     real or complex uninterpreted application f(args); two applications
           with equal (cross-multiplied) arguments get the same atom

This is a normal-form calculator (what global value numbering does for
arithmetic), not a solver: no search, no path conditions.
"""
from __future__ import annotations

from fractions import Fraction as Fr
from typing import Dict, Iterable, List, Optional, Tuple


class AlgError(Exception):
    pass


class GQ:
    __slots__ = ("re", "im")

    def __init__(self, re=0, im=0):
        self.re = Fr(re)
        self.im = Fr(im)

    def __add__(self, o):
        return GQ(self.re + o.re, self.im + o.im)

    def __sub__(self, o):
        return GQ(self.re - o.re, self.im - o.im)

    def __neg__(self):
        return GQ(-self.re, -self.im)

    def __mul__(self, o):
        return GQ(self.re * o.re - self.im * o.im, self.re * o.im + self.im * o.re)

    def inv(self):
        n = self.re * self.re + self.im * self.im
        if n == 0:
            raise AlgError("division by zero coefficient")
        return GQ(self.re / n, -self.im / n)

    def conj(self):
        return GQ(self.re, -self.im)

    def is_zero(self):
        return self.re == 0 and self.im == 0

    def __eq__(self, o):
        return isinstance(o, GQ) and self.re == o.re and self.im == o.im

    def __hash__(self):
        return hash((self.re, self.im))

    def __repr__(self):
        if self.im == 0:
            return str(self.re)
        if self.re == 0:
            return f"{self.im}i"
        return f"({self.re}+{self.im}i)"


ONE = GQ(1)
ZERO = GQ(0)
Mono = Tuple[Tuple[str, int], ...]


class AtomInfo:
    __slots__ = ("name", "kind", "partner", "radicand", "sign", "fname", "args")

    def __init__(self, name, kind, partner=None, radicand=None, sign=None,
                 fname=None, args=None):
        self.name = name
        self.kind = kind          # real | complex | unit | sqrt
        self.partner = partner    # conj partner for complex atoms
        self.radicand = radicand  # Poly, for sqrt atoms
        self.sign = sign          # None | 'pos' | 'nonneg'   (real atoms)
        self.fname = fname
        self.args = args


class AtomTable:
    """Registry of atoms.  One table per analysis run."""

    def __init__(self):
        self.atoms: Dict[str, AtomInfo] = {}
        self._apps: List[Tuple[str, tuple, str]] = []
        self._sqrts: List[Tuple["Poly", str]] = []
        self._units: List[Tuple["Rat", str]] = []
        self._sqrt_vals: List[Tuple["Rat", "Rat"]] = []

    # -- declaration -----------------------------------------------------
    def real(self, name, sign=None) -> "Rat":
        if name not in self.atoms:
            self.atoms[name] = AtomInfo(name, "real", sign=sign)
        elif sign is not None and self.atoms[name].sign is None:
            self.atoms[name].sign = sign
        return Rat.atom(self, name)

    def cplx(self, name) -> "Rat":
        if name not in self.atoms:
            self.atoms[name] = AtomInfo(name, "complex", partner=name + "~")
            self.atoms[name + "~"] = AtomInfo(name + "~", "complex", partner=name)
        return Rat.atom(self, name)

    def unit(self, name) -> "Rat":
        if name not in self.atoms:
            self.atoms[name] = AtomInfo(name, "unit")
        return Rat.atom(self, name)

    def unit_of(self, theta: "Rat") -> "Rat":
        """exp(i*theta) for a real term theta."""
        if theta.is_zero():
            return Rat.const(self, 1)
        for th, nm in self._units:
            if th == theta:
                return Rat.atom(self, nm)
            if th == -theta:
                return Rat.atom(self, nm) ** -1
        nm = f"E{len(self._units)}<{theta}>"
        self._units.append((theta, nm))
        self.atoms[nm] = AtomInfo(nm, "unit", fname="expi", args=(theta,))
        return Rat.atom(self, nm)

    def sqrt_of(self, rad: "Rat") -> "Rat":
        """Principal sqrt of a real term.  Equal radicands (as rational
        functions) give the same value whatever their representation."""
        for r0, v0 in self._sqrt_vals:
            if r0 == rad:
                return v0
        if rad.den.is_const():
            c = rad.den.const_value()
            p = rad.num.scale(c.inv())
            den_root = None
        else:
            # sqrt(n/d) = sqrt(n*d)/d  needs d > 0
            if _sign_poly(rad.den) != "pos":
                raise AlgError(f"sqrt of a quotient whose denominator has unknown sign: {rad.den}")
            p = rad.num * rad.den
            den_root = rad.den
        out = None
        if p.is_const():
            c = p.const_value()
            if c.im == 0 and c.re >= 0:
                r = _fr_sqrt(c.re)
                if r is not None:
                    out = Rat.const(self, r)
        if out is None:
            for q, nm in self._sqrts:
                if q == p:
                    out = Rat.atom(self, nm)
                    break
        if out is None:
            nm = f"sqrt{len(self._sqrts)}<{p}>"
            self._sqrts.append((p, nm))
            self.atoms[nm] = AtomInfo(nm, "sqrt", radicand=p, sign="nonneg")
            out = Rat.atom(self, nm)
        if den_root is not None:
            out = out / Rat(self, den_root)
        self._sqrt_vals.append((rad, out))
        return out

    def app(self, fname: str, args: Iterable["Rat"], kind="real", sign=None) -> "Rat":
        args = tuple(args)
        for fn, aa, nm in self._apps:
            if fn == fname and len(aa) == len(args) and all(
                _arg_eq(x, y) for x, y in zip(aa, args)
            ):
                if sign is not None and self.atoms[nm].sign is None:
                    self.atoms[nm].sign = sign
                return Rat.atom(self, nm)
        nm = f"{fname}#{len(self._apps)}({', '.join(str(a) for a in args)})"
        self._apps.append((fname, args, nm))
        if kind == "complex":
            self.atoms[nm] = AtomInfo(nm, "complex", partner=nm + "~", fname=fname, args=args)
            self.atoms[nm + "~"] = AtomInfo(nm + "~", "complex", partner=nm, fname=fname, args=args)
        else:
            self.atoms[nm] = AtomInfo(nm, "real", sign=sign, fname=fname, args=args)
        return Rat.atom(self, nm)

    def info(self, name) -> AtomInfo:
        return self.atoms[name]


def _arg_eq(x, y):
    if isinstance(x, Rat) and isinstance(y, Rat):
        return x == y
    return x == y


def _fr_sqrt(q: Fr) -> Optional[Fr]:
    import math

    n, d = q.numerator, q.denominator
    rn, rd = math.isqrt(n), math.isqrt(d)
    if rn * rn == n and rd * rd == d:
        return Fr(rn, rd)
    return None


class Poly:
    __slots__ = ("T", "terms")

    def __init__(self, T: AtomTable, terms: Optional[Dict[Mono, GQ]] = None):
        self.T = T
        self.terms: Dict[Mono, GQ] = {}
        if terms:
            for m, c in terms.items():
                if not c.is_zero():
                    self.terms[m] = c

    # -- constructors ------------------------------------------------------
    @staticmethod
    def const(T, c) -> "Poly":
        if not isinstance(c, GQ):
            c = GQ(c)
        return Poly(T, {(): c})

    @staticmethod
    def atom(T, name, exp=1) -> "Poly":
        return Poly(T, {((name, exp),): ONE})

    # -- queries -------------------------------------------------------------
    def is_zero(self):
        return not self.terms

    def is_const(self):
        return all(m == () for m in self.terms)

    def const_value(self) -> GQ:
        return self.terms.get((), ZERO)

    def atoms(self):
        s = set()
        for m in self.terms:
            for a, _ in m:
                s.add(a)
        return s

    def is_monomial(self):
        return len(self.terms) == 1

    # -- arithmetic ----------------------------------------------------------
    def __add__(self, o: "Poly") -> "Poly":
        t = dict(self.terms)
        for m, c in o.terms.items():
            if m in t:
                s = t[m] + c
                if s.is_zero():
                    del t[m]
                else:
                    t[m] = s
            else:
                t[m] = c
        return Poly(self.T, t)

    def __neg__(self):
        return Poly(self.T, {m: -c for m, c in self.terms.items()})

    def __sub__(self, o):
        return self + (-o)

    def scale(self, c: GQ) -> "Poly":
        return Poly(self.T, {m: v * c for m, v in self.terms.items()})

    def __mul__(self, o: "Poly") -> "Poly":
        t: Dict[Mono, GQ] = {}
        for m1, c1 in self.terms.items():
            for m2, c2 in o.terms.items():
                m = _mono_mul(m1, m2)
                c = c1 * c2
                if m in t:
                    s = t[m] + c
                    if s.is_zero():
                        del t[m]
                    else:
                        t[m] = s
                else:
                    t[m] = c
        return Poly(self.T, t)._reduce()

    def __pow__(self, n: int) -> "Poly":
        if n < 0:
            raise AlgError("negative power of a polynomial")
        r = Poly.const(self.T, 1)
        b = self
        while n:
            if n & 1:
                r = r * b
            b = b * b if n > 1 else b
            n >>= 1
        return r

    def _reduce(self) -> "Poly":
        """Apply s**2 -> radicand for sqrt atoms; check exponent discipline."""
        T = self.T
        again = True
        p = self
        guard = 0
        while again:
            guard += 1
            if guard > 200:
                raise AlgError("sqrt reduction did not terminate")
            again = False
            out = Poly(T)
            for m, c in p.terms.items():
                hit = None
                for a, e in m:
                    info = T.atoms.get(a)
                    if info is None:
                        raise AlgError(f"unregistered atom {a}")
                    if e < 0 and info.kind != "unit":
                        raise AlgError(f"negative exponent on non-unit atom {a}")
                    if info.kind == "sqrt" and e >= 2 and hit is None:
                        hit = (a, e, info)
                if hit is None:
                    out = out + Poly(T, {m: c})
                else:
                    a, e, info = hit
                    rest = tuple((x, k) for x, k in m if x != a)
                    if e % 2:
                        rest = _mono_mul(rest, ((a, 1),))
                    base = Poly(T, {rest: c})
                    q = info.radicand
                    acc = base
                    for _ in range(e // 2):
                        acc = _raw_mul(acc, q)
                    out = out + acc
                    again = True
            p = out
        return p

    def conj(self) -> "Poly":
        T = self.T
        t: Dict[Mono, GQ] = {}
        for m, c in self.terms.items():
            mm = []
            for a, e in m:
                info = T.atoms[a]
                if info.kind == "complex":
                    mm.append((info.partner, e))
                elif info.kind == "unit":
                    mm.append((a, -e))
                else:
                    mm.append((a, e))
            key = tuple(sorted(mm))
            cc = c.conj()
            if key in t:
                s = t[key] + cc
                if s.is_zero():
                    del t[key]
                else:
                    t[key] = s
            else:
                t[key] = cc
        return Poly(T, t)

    def subst(self, mapping: Dict[str, "Rat"]) -> "Rat":
        """Substitute atoms by rational terms (conj partners are derived)."""
        T = self.T
        full = dict(mapping)
        for a, r in list(mapping.items()):
            info = T.atoms.get(a)
            if info is not None and info.kind == "complex" and info.partner not in full:
                full[info.partner] = r.conj()
        total = Rat.const(T, 0)
        for m, c in self.terms.items():
            term = Rat(T, Poly.const(T, c))
            for a, e in m:
                if a in full:
                    term = term * (full[a] ** e)
                else:
                    info = T.atoms[a]
                    if info.kind == "sqrt" and (info.radicand.atoms() & set(full)):
                        nr = info.radicand.subst(full)
                        term = term * (T.sqrt_of(nr) ** e)
                    elif info.fname is not None and info.args and any(
                        isinstance(x, Rat) and (x.atoms() & set(full)) for x in info.args
                    ):
                        nargs = tuple(
                            x.subst(full) if isinstance(x, Rat) else x for x in info.args
                        )
                        if info.fname == "expi":
                            base = T.unit_of(nargs[0])
                        else:
                            base = T.app(info.fname, nargs, kind=info.kind, sign=info.sign)
                            if info.kind == "complex" and a.endswith("~"):
                                base = base.conj()
                        term = term * (base ** e)
                    else:
                        term = term * (Rat.atom(T, a) ** e)
            total = total + term
        return total

    def degree_in(self, names: Iterable[str]) -> Tuple[int, int]:
        """(min, max) total degree in the given atoms over all terms."""
        names = set(names)
        degs = [sum(e for a, e in m if a in names) for m in self.terms]
        if not degs:
            return (0, 0)
        return (min(degs), max(degs))

    def __eq__(self, o):
        return isinstance(o, Poly) and self.terms == o.terms

    def __hash__(self):
        return hash(frozenset(self.terms.items()))

    def __repr__(self):
        if not self.terms:
            return "0"
        parts = []
        for m in sorted(self.terms, key=lambda m: (len(m), m)):
            c = self.terms[m]
            ms = "*".join(a if e == 1 else f"{a}^{e}" for a, e in m)
            if not ms:
                parts.append(repr(c))
            elif c == ONE:
                parts.append(ms)
            elif c == GQ(-1):
                parts.append("-" + ms)
            else:
                parts.append(f"{c!r}*{ms}")
        return " + ".join(parts).replace("+ -", "- ")


def _mono_mul(m1: Mono, m2: Mono) -> Mono:
    if not m1:
        return m2
    if not m2:
        return m1
    d = dict(m1)
    for a, e in m2:
        d[a] = d.get(a, 0) + e
    return tuple(sorted((a, e) for a, e in d.items() if e != 0))


def _raw_mul(p: Poly, q: Poly) -> Poly:
    t: Dict[Mono, GQ] = {}
    for m1, c1 in p.terms.items():
        for m2, c2 in q.terms.items():
            m = _mono_mul(m1, m2)
            c = c1 * c2
            if m in t:
                s = t[m] + c
                if s.is_zero():
                    del t[m]
                else:
                    t[m] = s
            else:
                t[m] = c
    return Poly(p.T, t)


class Rat:
    """num/den with Poly parts.  den is never the zero polynomial."""

    __slots__ = ("T", "num", "den")

    def __init__(self, T: AtomTable, num: Poly, den: Optional[Poly] = None):
        self.T = T
        self.num = num
        self.den = den if den is not None else Poly.const(T, 1)
        if self.den.is_zero():
            raise AlgError("zero denominator")
        # light normalisation: constant denominators are folded in, unit-atom
        # monomial denominators are moved up (negative exponents are legal there)
        if self.den.is_monomial():
            (m, c), = self.den.terms.items()
            if all(T.atoms[a].kind == "unit" for a, _ in m):
                inv = Poly(T, {tuple(sorted((a, -e) for a, e in m)): c.inv()})
                self.num = self.num * inv
                self.den = Poly.const(T, 1)
        if self.num.is_zero():
            self.den = Poly.const(T, 1)
        elif not self.den.is_const():
            self._cancel_monomial()

    def _cancel_monomial(self):
        """Divide numerator and denominator by their common monomial factor."""
        common = None
        for poly in (self.num, self.den):
            for m in poly.terms:
                d = dict(m)
                if common is None:
                    common = d
                else:
                    for a in list(common):
                        e = min(common[a], d.get(a, 0)) if common[a] > 0 else 0
                        if e <= 0:
                            del common[a]
                        else:
                            common[a] = e
                if not common:
                    return
        if not common:
            return
        def div(poly):
            t = {}
            for m, c in poly.terms.items():
                d = dict(m)
                for a, e in common.items():
                    d[a] = d.get(a, 0) - e
                t[tuple(sorted((a, e) for a, e in d.items() if e != 0))] = c
            return Poly(self.T, t)
        self.num = div(self.num)
        self.den = div(self.den)

    @staticmethod
    def const(T, c) -> "Rat":
        return Rat(T, Poly.const(T, c))

    @staticmethod
    def atom(T, name) -> "Rat":
        return Rat(T, Poly.atom(T, name))

    @staticmethod
    def I(T) -> "Rat":
        return Rat(T, Poly.const(T, GQ(0, 1)))

    def is_zero(self):
        return self.num.is_zero()

    def is_const(self):
        return self.num.is_const() and self.den.is_const()

    def const_value(self) -> GQ:
        return self.num.const_value() * self.den.const_value().inv()

    def atoms(self):
        return self.num.atoms() | self.den.atoms()

    def _coerce(self, o) -> "Rat":
        if isinstance(o, Rat):
            return o
        if isinstance(o, (int, Fr)):
            return Rat.const(self.T, o)
        if isinstance(o, GQ):
            return Rat.const(self.T, o)
        raise AlgError(f"cannot coerce {o!r}")

    def __add__(self, o):
        o = self._coerce(o)
        if self.den == o.den:
            return Rat(self.T, self.num + o.num, self.den)
        return Rat(self.T, self.num * o.den + o.num * self.den, self.den * o.den)

    __radd__ = __add__

    def __neg__(self):
        return Rat(self.T, -self.num, self.den)

    def __sub__(self, o):
        return self + (-self._coerce(o))

    def __rsub__(self, o):
        return self._coerce(o) - self

    def __mul__(self, o):
        o = self._coerce(o)
        return Rat(self.T, self.num * o.num, self.den * o.den)

    __rmul__ = __mul__

    def inv(self):
        if self.num.is_zero():
            raise AlgError("division by the zero term")
        return Rat(self.T, self.den, self.num)

    def __truediv__(self, o):
        return self * self._coerce(o).inv()

    def __rtruediv__(self, o):
        return self._coerce(o) * self.inv()

    def __pow__(self, n):
        if isinstance(n, Rat):
            if not n.is_const():
                raise AlgError("symbolic exponent")
            c = n.const_value()
            if c.im != 0:
                raise AlgError("complex exponent")
            n = c.re
        n = Fr(n)
        if n.denominator == 1:
            k = int(n)
            if k >= 0:
                return Rat(self.T, self.num ** k, self.den ** k)
            if self.num.is_zero():
                raise AlgError("negative power of the zero term")
            return Rat(self.T, self.den ** (-k), self.num ** (-k))
        if n.denominator == 2:
            s = self.T.sqrt_of(self)
            return s ** int(n.numerator)
        raise AlgError(f"unsupported exponent {n}")

    def conj(self):
        return Rat(self.T, self.num.conj(), self.den.conj())

    def real(self):
        return (self + self.conj()) * Rat.const(self.T, Fr(1, 2))

    def imag(self):
        return (self - self.conj()) * Rat.const(self.T, GQ(0, Fr(-1, 2)))

    def abs2(self):
        return self * self.conj()

    def is_real(self):
        return self == self.conj()

    def subst(self, mapping) -> "Rat":
        return self.num.subst(mapping) / self.den.subst(mapping)

    def __eq__(self, o):
        if not isinstance(o, Rat):
            try:
                o = self._coerce(o)
            except AlgError:
                return False
        if self.den == o.den:
            return self.num == o.num
        return self.num * o.den == o.num * self.den

    def __hash__(self):  # Rats are compared by ==, never used as dict keys
        return 0

    def __repr__(self):
        if self.den.is_const() and self.den.const_value() == ONE:
            return repr(self.num)
        return f"({self.num!r})/({self.den!r})"


# ---------------------------------------------------------------------------
# sign reasoning (tiny, syntactic): used for "is this term positive"
# ---------------------------------------------------------------------------

def sign_of(r: Rat) -> Optional[str]:
    """'pos', 'nonneg', 'zero' or None (unknown), from atom sign declarations.

    Sound but incomplete: a polynomial whose coefficients are all positive
    reals and whose atoms are all declared nonneg/pos is nonneg (pos if it has
    a positive constant term or every atom is pos and there is a term)."""
    if r.is_zero():
        return "zero"
    sn = _sign_poly(r.num)
    sd = _sign_poly(r.den)
    if sn is None or sd is None or sd != "pos":
        return None
    return sn


def _sign_poly(p: Poly) -> Optional[str]:
    T = p.T
    if p.is_zero():
        return "zero"
    strict = False
    for m, c in p.terms.items():
        if c.im != 0 or c.re < 0:
            return None
        term_pos = True
        for a, e in m:
            s = T.atoms[a].sign
            if s is None:
                if e % 2 == 0 and T.atoms[a].kind in ("real", "sqrt"):
                    term_pos = False
                    continue
                return None
            if s != "pos":
                term_pos = False
        if term_pos:
            strict = True
    return "pos" if strict else "nonneg"
