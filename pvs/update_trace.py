"""Traces of TDGLSolver.update(): the statements of update() are followed (pvs/smallstep.py) for every combination of

    dynamic vector potential {off, on and changed, on and unchanged} x dynamic epsilon x probes x adaptive {off, warm-up, on}
    x screening {off, converges at evaluation 1 / 2 / 3, never converges within the bound}

and the sequence of what it *does* is recorded: calls on self / the operators / the record buffer with their (symbolic)
arguments, stores to attributes of self, and what is returned or raised.  Rules about update() are predicates on these traces,
so they do not depend on how the method is arranged (for/while, helpers, hoisting, conditional expressions ...).  Everything
update() merely computes is an opaque symbol; a branch on such a symbol that the scenario does not decide is an AnalysisError.
"""
from __future__ import annotations

import ast
import itertools
import re
from typing import Any, Dict, List, Optional, Tuple

from .smallstep import Closure, Machine, Opaque, Raised, Undecidable, module_constants, render
from .src import AnalysisError

SOLVER = "tdgl.solver.solver"
MAX_ITER = 2            # the iteration bound of the scenarios
WINDOW = 10


class Event:
    def __init__(self, kind, name, args=(), kwargs=None, value=None, node=None):
        self.kind, self.name, self.args, self.kwargs, self.value, self.node = kind, name, list(args), dict(kwargs or {}), value, node

    def __repr__(self):
        if self.kind == "call":
            a = [render(x)[:60] for x in self.args] + [f"{k}={render(v)[:40]}" for k, v in self.kwargs.items()]
            return f"{self.name}({', '.join(a)})"
        if self.kind == "store":
            return f"{self.name} = {render(self.value)[:70]}"
        if self.kind == "elemstore":
            return f"{self.name}[{render(self.args[0])[:40]}] = {render(self.value)[:60]}"
        return f"{self.kind} {render(self.value)[:200]}"


class Trace:
    def __init__(self, scenario):
        self.scenario = scenario
        self.events: List[Event] = []
        self.outcome: Tuple[str, Any] = ("?", None)

    def calls(self, suffix):
        return [e for e in self.events if e.kind == "call" and (e.name == suffix or e.name.endswith("." + suffix))]

    def stores(self, attr):
        return [e for e in self.events if e.kind == "store" and e.name == f"self.{attr}"]

    def index(self, ev):
        return self.events.index(ev)

    def text(self):
        return [repr(e) for e in self.events] + [f"{self.outcome[0]} {render(self.outcome[1])[:300]}"]


class _UpdateMachine(Machine):
    """self.<attr> reads see the stores made earlier in the same call; comparisons of the screening error are decided by the scenario"""

    def _ev0(self, e):
        if isinstance(e, ast.Attribute) and isinstance(e.value, ast.Name) and e.value.id == "self" and self.env.get("self") == Opaque("self") \
                and e.attr in self.self_state and isinstance(e.ctx, ast.Load):
            return self.self_state[e.attr]
        return super().ev(e)

    def assign(self, t, v):
        if isinstance(t, ast.Attribute):
            base = self.ev(t.value)
            if base == Opaque("self"):
                self.self_state[t.attr] = v
                self.trace.events.append(Event("store", f"self.{t.attr}", value=v, node=t))
                return
        if isinstance(t, ast.Subscript):
            base = self.ev(t.value)
            if isinstance(base, Opaque):          # element store into an array: psi[idx] = ...
                idx = None if isinstance(t.slice, ast.Slice) else self.ev(t.slice)
                self.trace.events.append(Event("elemstore", base.text, args=[idx], value=v, node=t))
                return
        super().assign(t, v)

    def ev(self, e):
        # an elementwise (in)equality of the new applied potential and the remembered one: decided by `.any()` / `.all()` on it
        if isinstance(e, ast.Compare) and len(e.ops) == 1 and isinstance(e.ops[0], (ast.Eq, ast.NotEq)):
            a, b = self._ev0(e.left), self._ev0(e.comparators[0])
            if isinstance(a, Opaque) and isinstance(b, Opaque) and {a.text, b.text} == {"A_new", "self.current_A_applied"}:
                return Opaque(f"({a.text} {'==' if isinstance(e.ops[0], ast.Eq) else '!='} {b.text})", ("cmp", "eq" if isinstance(e.ops[0], ast.Eq) else "ne", a, b))
        return self._ev0(e)

    def compare(self, op, a, b, node):
        def err_index(x):
            if isinstance(x, Opaque):
                if x.text in ("np.inf", "numpy.inf", "math.inf", "inf", "float('inf')", "xp.inf"):
                    return -1
                m = re.fullmatch(r"err#(\d+)", x.text)
                if m:
                    return int(m.group(1))
            return None
        is_tol = lambda x: isinstance(x, Opaque) and x.text.endswith("screening_tolerance")
        if isinstance(op, (ast.Lt, ast.LtE, ast.Gt, ast.GtE)):
            for x, y, flip in ((a, b, False), (b, a, True)):
                k = err_index(x)
                if k is not None and is_tol(y):
                    below = k >= 0 and self.scenario["converges_at"] is not None and k + 1 >= self.scenario["converges_at"]
                    # x ? y with x the error, y the tolerance (flip: operands were the other way round)
                    less = isinstance(op, (ast.Lt, ast.LtE)) != flip
                    return below if less else not below
        return super().compare(op, a, b, node)


def scenarios():
    out = []
    for dyn_a, dyn_e, probes, adaptive, scr in itertools.product(("off", "changed", "unchanged"), (False, True), (False, True),
                                                                 ("off", "warmup", "on"), ("off", 1, 2, 3, "never")):
        out.append({"dynamic_A": dyn_a, "dynamic_epsilon": dyn_e, "probes": probes, "adaptive": adaptive,
                    "screening": scr != "off", "converges_at": scr if isinstance(scr, int) else None,
                    "max_iterations": MAX_ITER if scr == "never" else 10})
    return out


def trace_update(repo, sc) -> Trace:
    f = repo.func(SOLVER, "TDGLSolver.update")
    tr = Trace(sc)
    step = 5 if sc["adaptive"] == "warmup" else 20
    counter = {"evals": 0, "solves": 0}

    def attrs(text):
        last = text.split(".")[-1]
        if text == "self.dynamic_vector_potential":
            return sc["dynamic_A"] != "off"
        if text == "self.dynamic_epsilon":
            return sc["dynamic_epsilon"]
        if text == "self.probe_points":
            return Opaque("self.probe_points") if sc["probes"] else None
        if text == "self.use_cupy":
            return False
        if text == "running_state.step":
            return 3                          # the cursor of the record buffer: restarts at every save, unrelated to the solve step
        if text.endswith("options.include_screening"):
            return sc["screening"]
        if text.endswith("options.adaptive"):
            return sc["adaptive"] != "off"
        if text.endswith("options.adaptive_window"):
            return WINDOW
        if text.endswith("options.max_iterations_per_step"):
            return sc["max_iterations"]
        return NotImplemented

    def call(m, node, name, args, kwargs):
        short = name.split(".")[-1]
        recv = m.callee(node.func)[1]
        root = recv
        while isinstance(root, Opaque) and root.parts and root.parts[0] in ("attr", "index"):
            root = root.parts[1]
        interesting = isinstance(root, Opaque) and (root.text in ("self", "running_state") or root.text.startswith("self.operators"))
        if interesting or short in ("set_link_exponents",):
            tr.events.append(Event("call", name, args, kwargs, node=node))
        if short == "array_equal" and len(args) == 2:
            return sc["dynamic_A"] == "unchanged"
        # (A_new != baseline).any() / np.any(A_new != baseline) / (A_new == baseline).all()
        cmpv = recv if isinstance(recv, Opaque) and recv.parts and recv.parts[0] == "cmp" else (
            args[0] if args and isinstance(args[0], Opaque) and args[0].parts and args[0].parts[0] == "cmp" else None)
        if cmpv is not None and short in ("any", "all"):
            tr.events.append(Event("call", "array_equal", list(cmpv.parts[2:4]), {}, node=node))     # an exact comparison, like array_equal
            changed = sc["dynamic_A"] != "unchanged"
            if cmpv.parts[1] == "ne":
                return changed if short == "any" else changed
            return (not changed) if short == "all" else (not changed)
        if short in ("allclose", "array_equiv") and len(args) >= 2:
            tr.events.append(Event("call", name, args, kwargs, node=node))
            return sc["dynamic_A"] == "unchanged"
        if short == "adaptive_euler_step":
            k = counter["solves"]
            counter["solves"] += 1
            return (Opaque(f"psi#{k}"), Opaque(f"sq#{k}"), Opaque(f"dt#{k}"))
        if short == "solve_for_observables":
            k = counter["solves"] - 1
            return (Opaque(f"mu#{k}"), Opaque(f"Js#{k}"), Opaque(f"Jn#{k}"))
        if short == "get_induced_vector_potential":
            k = counter["evals"]
            counter["evals"] += 1
            return (Opaque(f"A#{k}"), Opaque(f"err#{k}"))
        if short == "update_applied_vector_potential":
            return Opaque("A_new")
        if short == "update_epsilon":
            return Opaque("eps_new")
        return NotImplemented
    a = f.node.args
    params = [p.arg for p in a.args + a.kwonlyargs]
    env = dict(module_constants(f.module.tree))
    env.update({p: Opaque(p) for p in params})
    env["state"] = {"step": step, "time": Opaque("time"), "dt": Opaque("state_dt")}
    env["dt"] = Opaque("dt_in")
    if "applied_vector_potential" in params:
        env["applied_vector_potential"] = Opaque("A_prev") if sc["dynamic_A"] != "off" else None
    if "epsilon" in params:
        env["epsilon"] = Opaque("eps_prev") if sc["dynamic_epsilon"] else None
    from .smallstep import follow_private_methods
    mach = _UpdateMachine(env, attrs, follow_private_methods(repo.cls(SOLVER, "TDGLSolver"), call), fuel=32, undecided=None)
    mach.self_state = {}
    mach.trace = tr
    mach.scenario = sc
    tr.outcome = mach.run_function(f.node)
    tr.counter = counter
    tr.env = mach.env                   # the locals of update() when it returned
    return tr


_CACHE: Dict[int, List[Trace]] = {}


def all_traces(repo) -> List[Trace]:
    cache = repo.__dict__.setdefault("_pvs_trace_cache", {})
    if "update" not in cache:
        cache["update"] = [trace_update(repo, sc) for sc in scenarios()]
    return cache["update"]


def result_fields(val) -> Optional[List[Any]]:
    """The values of the SolverResult an update returned, in field order (SolverResult is a NamedTuple: a Record of the model; or an
    opaque constructor call when the class is not known)."""
    from .smallstep import Record
    if isinstance(val, Record):
        return list(val.values.values())
    if isinstance(val, Opaque) and val.parts and val.parts[0] == "call" and val.parts[1].split(".")[-1] == "SolverResult":
        return list(val.parts[2]) + list(val.parts[3].values())
    return None
