"""Abstract interpreter for the straight-line numerical code of py-tdgl.

It evaluates function bodies *symbolically over array shapes that are never
instantiated*: a per-edge array is one ``Rat`` term (implicitly indexed by the
edge number k), a gather ``areas[edges0]`` is the atom ``areas@e0``, a COO
assembly is a list of blocks ``(row index, column index, value term, mask)``.
Branches are taken only when their test is decided by the abstract values
(``x is None``, a bool attribute, an enum identity); anything else is an
``Unsupported`` analysis error - the interpreter never guesses and never
enumerates paths.
"""
from __future__ import annotations

import ast
from fractions import Fraction as Fr
from typing import Any, Callable, Dict, List, Optional, Tuple

from .alg import GQ, AlgError, AtomTable, Poly, Rat
from .src import AnalysisError, ClassInfo, FuncInfo, ModuleInfo, Repo


class Unsupported(AnalysisError):
    pass


# ---------------------------------------------------------------------------
# abstract values
# ---------------------------------------------------------------------------

class Sym:
    """Symbolic non-negative integer: linear combination of size symbols."""

    def __init__(self, coeffs: Optional[Dict[str, int]] = None, const: int = 0):
        self.coeffs = {k: v for k, v in (coeffs or {}).items() if v}
        self.const = const

    def __add__(self, o):
        o = _sym(o)
        d = dict(self.coeffs)
        for k, v in o.coeffs.items():
            d[k] = d.get(k, 0) + v
        return Sym(d, self.const + o.const)

    __radd__ = __add__

    def __mul__(self, o):
        if isinstance(o, int):
            return Sym({k: v * o for k, v in self.coeffs.items()}, self.const * o)
        raise Unsupported("product of symbolic sizes")

    __rmul__ = __mul__

    def __eq__(self, o):
        o = _sym(o)
        return self.coeffs == o.coeffs and self.const == o.const

    def __hash__(self):
        return hash((tuple(sorted(self.coeffs.items())), self.const))

    def __repr__(self):
        parts = [f"{v}*{k}" if v != 1 else k for k, v in sorted(self.coeffs.items())]
        if self.const or not parts:
            parts.append(str(self.const))
        return "+".join(parts)


def _sym(x):
    if isinstance(x, Sym):
        return x
    if isinstance(x, int):
        return Sym({}, x)
    raise Unsupported(f"not a size: {x!r}")


class Idx:
    """Index array.  domain: the space it is indexed over (edge / bedge / fixed);
    target: the space it points into (site / edge / bedge); identity: arange."""

    def __init__(self, name, domain, target, identity=False, length=None):
        self.name = name
        self.domain = domain
        self.target = target
        self.identity = identity
        self.length = length if length is not None else Sym({f"n_{domain}": 1})

    def __repr__(self):
        return f"Idx({self.name})"

    def __eq__(self, o):
        return isinstance(o, Idx) and o.name == self.name

    def __hash__(self):
        return hash(self.name)


class Field:
    """A named array over a space; gathered through an Idx it yields atoms."""

    def __init__(self, name, space, kind="real", comps=1, sign=None):
        self.name = name
        self.space = space
        self.kind = kind          # real | complex | index
        self.comps = comps
        self.sign = sign

    def __repr__(self):
        return f"Field({self.name}:{self.space})"


class Vec2:
    def __init__(self, x: Rat, y: Rat):
        self.x = x
        self.y = y

    def __repr__(self):
        return f"Vec2({self.x}, {self.y})"


class Cols:
    """(n, k) array given column by column (each column a per-row term)."""

    def __init__(self, cols):
        self.cols = list(cols)

    def __repr__(self):
        return f"Cols({self.cols})"


class Pair:
    """sites[edges]: the two endpoint vectors of every edge, shape (m,2,2)."""

    def __init__(self, p0: "Vec2", p1: "Vec2"):
        self.p0 = p0
        self.p1 = p1


class Index2:
    """(n,2) index array such as edges / boundary edges."""

    def __init__(self, c0: Idx, c1: Idx):
        self.c0 = c0
        self.c1 = c1


class MaskPart:
    def __init__(self, kind, idx: Optional[Idx] = None, setname: str = "", length=None):
        self.kind = kind  # 'all' | 'notin'
        self.idx = idx
        self.setname = setname
        self.length = length

    def key(self):
        if self.kind == "all":
            return None
        return (self.kind, self.idx.name, self.setname)

    def __repr__(self):
        return "all" if self.kind == "all" else f"{self.idx.name}∉{self.setname}"


class Mask:
    def __init__(self, parts: List[MaskPart]):
        self.parts = parts


class Masked:
    def __init__(self, value, part: MaskPart):
        self.value = value
        self.part = part


class Concat:
    def __init__(self, parts: List[Any]):
        flat = []
        for p in parts:
            if isinstance(p, Concat):
                flat.extend(p.parts)
            elif isinstance(p, EmptyArr):
                continue
            else:
                flat.append(p)
        self.parts = flat

    def __repr__(self):
        return f"Concat({self.parts})"


class EmptyArr:
    def __repr__(self):
        return "EmptyArr"


class Block:
    __slots__ = ("row", "col", "val", "mask")

    def __init__(self, row: Idx, col: Idx, val: Rat, mask=None):
        self.row = row
        self.col = col
        self.val = val
        self.mask = mask  # None or ('notin', idxname, setname)

    def key(self):
        return (self.row.name, self.col.name, self.mask)

    def __repr__(self):
        m = f" if {self.mask[1]}∉{self.mask[2]}" if self.mask else ""
        return f"[{self.row.name},{self.col.name}] += {self.val}{m}"


class SparseM:
    def __init__(self, blocks: List[Block], shape=None, fmt="csr"):
        self.blocks = blocks
        self.shape = shape
        self.fmt = fmt
        self.sets: List[str] = []   # log of in-place stores

    def merged(self) -> Dict[tuple, Rat]:
        d: Dict[tuple, Rat] = {}
        for b in self.blocks:
            k = b.key()
            d[k] = d[k] + b.val if k in d else b.val
        return {k: v for k, v in d.items() if not v.is_zero()}

    def copy(self):
        m = SparseM([Block(b.row, b.col, b.val, b.mask) for b in self.blocks], self.shape, self.fmt)
        return m

    def __repr__(self):
        return "SparseM{" + "; ".join(map(repr, self.blocks)) + "}"


class Scatter:
    """Site-space vector given as scatter-add contributions."""

    def __init__(self, parts: List[Tuple[Idx, Rat]]):
        self.parts = parts


class Obj:
    def __init__(self, cls: Optional[ClassInfo], attrs=None, label=""):
        self.cls = cls
        self.attrs: Dict[str, Any] = dict(attrs or {})
        self.label = label or (cls.name if cls else "obj")

    def __repr__(self):
        return f"<Obj {self.label}>"


class EnumVal:
    def __init__(self, name):
        self.name = name

    def __eq__(self, o):
        return isinstance(o, EnumVal) and o.name == self.name

    def __hash__(self):
        return hash(self.name)


class ModRef:
    def __init__(self, dotted):
        self.dotted = dotted

    def __eq__(self, o):
        return isinstance(o, ModRef) and o.dotted == self.dotted

    def __hash__(self):
        return hash(self.dotted)

    def __repr__(self):
        return f"<module {self.dotted}>"


class ExtFunc:
    def __init__(self, dotted):
        self.dotted = dotted


class BoundMethod:
    def __init__(self, recv, name):
        self.recv = recv
        self.name = name


class LinOp:
    """An opaque linear operator; ``op @ x`` is either a fresh complex atom or
    whatever the ``apply`` callback returns."""

    def __init__(self, name, apply=None):
        self.name = name
        self.apply = apply

    def __repr__(self):
        return f"<linop {self.name}>"


class ListTail:
    """lst[-n:] for a python list with symbolic n."""

    def __init__(self, lst, n):
        self.lst = lst
        self.n = n


class ListWindow:
    """lst[lo:hi] for a python list with symbolic bounds that are not the tail idiom: an uninterpreted window."""

    def __init__(self, lst, lo, hi, text):
        self.lst, self.lo, self.hi, self.text = lst, lo, hi, text


class PyFunc:
    """A callable supplied by the rule (models a user callback)."""

    def __init__(self, fn, name="pyfunc"):
        self.fn = fn
        self.name = name


class StoreLog:
    """An array whose subscript stores are recorded: [(index value, stored value)]."""

    def __init__(self, name):
        self.name = name
        self.stores = []

    def __repr__(self):
        return f"<array {self.name}>"


class Opaque:
    def __init__(self, desc=""):
        self.desc = desc

    def __repr__(self):
        return f"<opaque {self.desc}>"


class _Return(Exception):
    def __init__(self, value):
        self.value = value


class _Break(Exception):
    pass


class _Continue(Exception):
    pass


class Frame:
    def __init__(self, fi: Optional[FuncInfo], module: ModuleInfo, env=None, parent=None):
        self.fi = fi
        self.module = module
        self.env: Dict[str, Any] = dict(env or {})
        self.parent = parent  # lexical parent frame (closures)

    def lookup(self, name):
        f = self
        while f is not None:
            if name in f.env:
                return True, f.env[name]
            f = f.parent
        return False, None


NUMPY_ALIASES = ("numpy", "cupy")


class Interp:
    def __init__(self, repo: Repo, T: AtomTable):
        self.repo = repo
        self.T = T
        self.sqrt_witnesses: List[Rat] = []
        self.call_log: List[Tuple[str, tuple, dict]] = []
        self.max_depth = 12
        self._depth = 0
        self.ext_overrides: Dict[str, Callable] = {}
        self.func_overrides: Dict[str, Callable] = {}
        self.branch_policy: Optional[Callable] = None
        self.frames: Dict[str, Frame] = {}
        self.branch_log: List[str] = []
        self.site_fields: Dict[str, Field] = {}
        self.on_setattr: Optional[Callable] = None

    # -- helpers ---------------------------------------------------------------------
    def const(self, c) -> Rat:
        return Rat.const(self.T, c)

    def as_term(self, v) -> Rat:
        if isinstance(v, Rat):
            return v
        if isinstance(v, bool):
            raise Unsupported("bool used as number")
        if isinstance(v, (int, Fr)):
            return self.const(v)
        if isinstance(v, Sym):
            raise Unsupported("symbolic size used as number")
        if isinstance(v, Field) and v.comps == 1 and v.kind != "index":
            if v.kind == "complex":
                if v.name.endswith("~"):
                    return self.T.cplx(v.name[:-1]).conj()
                return self.T.cplx(v.name)
            return self.T.real(v.name, v.sign)
        raise Unsupported(f"not a scalar term: {v!r}")

    def as_vec(self, v) -> Vec2:
        if isinstance(v, Vec2):
            return v
        if isinstance(v, Field) and v.comps == 2 and v.kind == "real":
            return Vec2(self.T.real(v.name + ".x"), self.T.real(v.name + ".y"))
        raise Unsupported(f"not a 2-vector: {v!r}")

    def gather(self, f, idx: Idx):
        if isinstance(f, Field):
            if idx.identity and idx.target == f.space:
                if f.kind == "index":
                    raise Unsupported("identity gather of an index field")
                return self.as_vec(f) if f.comps == 2 else self.as_term(f)
            if idx.target != f.space:
                raise Unsupported(f"gather {f.name}[{idx.name}]: {idx.name} points into {idx.target}, "
                                  f"{f.name} lives on {f.space}")
            nm = f"{f.name}@{idx.name}"
            if f.kind == "index":
                if f.comps == 2:
                    return Index2(Idx(nm + ".0", idx.domain, "site", length=idx.length),
                                  Idx(nm + ".1", idx.domain, "site", length=idx.length))
                return Idx(nm, idx.domain, "site", length=idx.length)
            if f.comps == 2:
                return Vec2(self.T.real(nm + ".x"), self.T.real(nm + ".y"))
            if f.kind == "complex":
                if f.name.endswith("~"):
                    return self.T.cplx(f"{f.name[:-1]}@{idx.name}").conj()
                return self.T.cplx(nm)
            return self.T.real(nm, f.sign)
        if isinstance(f, Rat):
            # a per-site expression gathered by an index: substitute field atoms
            # name -> name@idx  (only atoms that are plain site fields)
            raise Unsupported("gather of a computed term")
        raise Unsupported(f"gather of {f!r}")

    def length(self, v):
        if isinstance(v, Idx):
            return v.length
        if isinstance(v, Concat):
            tot = Sym()
            for p in v.parts:
                tot = tot + self.length(p)
            return tot
        if isinstance(v, Masked):
            raise Unsupported("length of a masked array")
        if isinstance(v, Field):
            return Sym({f"n_{v.space}": 1})
        if isinstance(v, Index2):
            return v.c0.length
        if isinstance(v, EmptyArr):
            return Sym()
        if isinstance(v, (list, tuple)):
            return len(v)
        if isinstance(v, Rat):
            return Sym({"n_edge": 1})
        if isinstance(v, Vec2):
            return Sym({"n_edge": 1})
        if isinstance(v, Opaque):
            return Sym({f"len({v.desc})": 1})
        raise Unsupported(f"len of {v!r}")

    # -- arithmetic --------------------------------------------------------------------
    def binop(self, op, a, b):
        if isinstance(a, Sym) or isinstance(b, Sym):
            if isinstance(op, ast.Add):
                return _sym(a) + _sym(b)
            if isinstance(op, ast.Mult) and (isinstance(a, int) or isinstance(b, int)):
                return a * b if isinstance(a, Sym) else b * a
            raise Unsupported("arithmetic on symbolic sizes")
        if isinstance(op, ast.MatMult):
            return self.matmul(a, b)
        if isinstance(a, (set, frozenset)) and isinstance(b, (set, frozenset)):
            if isinstance(op, ast.Sub):
                return a - b
            if isinstance(op, ast.BitOr):
                return a | b
            if isinstance(op, ast.BitAnd):
                return a & b
            if isinstance(op, ast.BitXor):
                return a ^ b
        if isinstance(a, EmptyArr) or isinstance(b, EmptyArr):
            return EmptyArr()
        if isinstance(a, Cols) or isinstance(b, Cols):
            if isinstance(a, Vec2):
                a = Cols([a.x, a.y])
            if isinstance(b, Vec2):
                b = Cols([b.x, b.y])
            if isinstance(a, Cols) and isinstance(b, Cols):
                if len(a.cols) != len(b.cols):
                    raise Unsupported("column count mismatch")
                return Cols([self.binop(op, x, y) for x, y in zip(a.cols, b.cols)])
            if isinstance(a, Cols):
                return Cols([self.binop(op, x, b) for x in a.cols])
            return Cols([self.binop(op, a, y) for y in b.cols])
        if isinstance(a, Vec2) or isinstance(b, Vec2) or (
            isinstance(a, Field) and a.comps == 2) or (isinstance(b, Field) and b.comps == 2):
            return self._vec_binop(op, a, b)
        if isinstance(a, (int, Fr)) and isinstance(b, (int, Fr)) and not isinstance(a, bool) and not isinstance(b, bool):
            if isinstance(op, ast.Add):
                return a + b
            if isinstance(op, ast.Sub):
                return a - b
            if isinstance(op, ast.Mult):
                return a * b
            if isinstance(op, ast.Div):
                return Fr(a) / Fr(b)
            if isinstance(op, ast.Pow) and isinstance(b, int):
                return Fr(a) ** b
            if isinstance(op, ast.Mod) and isinstance(a, int) and isinstance(b, int):
                return a % b
            if isinstance(op, ast.FloorDiv):
                return a // b
        if isinstance(a, Concat) or isinstance(b, Concat):
            # elementwise op distributes over aligned concatenations
            if isinstance(a, Concat) and isinstance(b, Concat) and len(a.parts) == len(b.parts):
                return Concat([self.binop(op, x, y) for x, y in zip(a.parts, b.parts)])
            if isinstance(a, Concat):
                return Concat([self.binop(op, x, b) for x in a.parts])
            return Concat([self.binop(op, a, y) for y in b.parts])
        if isinstance(a, Scatter) or isinstance(b, Scatter):
            return self._scatter_binop(op, a, b)
        x, y = self.as_term(a), self.as_term(b)
        try:
            if isinstance(op, ast.Add):
                return x + y
            if isinstance(op, ast.Sub):
                return x - y
            if isinstance(op, ast.Mult):
                return x * y
            if isinstance(op, ast.Div):
                return x / y
            if isinstance(op, ast.Pow):
                return x ** y
        except AlgError as e:
            raise Unsupported(f"algebra: {e}")
        raise Unsupported(f"operator {type(op).__name__}")

    def _vec_binop(self, op, a, b):
        def comp(v, i):
            if isinstance(v, Vec2):
                return v.x if i == 0 else v.y
            if isinstance(v, Field) and v.comps == 2:
                vv = self.as_vec(v)
                return vv.x if i == 0 else vv.y
            return v
        return Vec2(self.binop(op, comp(a, 0), comp(b, 0)), self.binop(op, comp(a, 1), comp(b, 1)))

    def _scatter_binop(self, op, a, b):
        if isinstance(op, (ast.Add, ast.Sub)) and isinstance(a, Scatter) and isinstance(b, Scatter):
            sign = 1 if isinstance(op, ast.Add) else -1
            return Scatter(a.parts + [(i, v * sign) for i, v in b.parts])
        if isinstance(op, ast.Mult):
            if isinstance(a, Scatter):
                t = self.as_term(b)
                return Scatter([(i, v * t) for i, v in a.parts])
            t = self.as_term(a)
            return Scatter([(i, v * t) for i, v in b.parts])
        raise Unsupported("scatter arithmetic")

    def matmul(self, a, b):
        if isinstance(a, SparseM) and isinstance(b, SparseM):
            out = []
            for x in a.blocks:
                if not x.col.identity:
                    raise Unsupported("sparse product: left factor not indexed by the shared space")
                for y in b.blocks:
                    if not y.row.identity or y.row.name != x.col.name:
                        raise Unsupported("sparse product: right factor rows differ from left columns")
                    if x.mask or y.mask:
                        raise Unsupported("sparse product with masked blocks")
                    out.append(Block(x.row, y.col, x.val * y.val))
            return SparseM(out, None, "csr")
        if isinstance(a, SparseM):
            return self.matvec(a, b)
        if isinstance(a, LinOp):
            if a.apply is not None:
                return a.apply(self, b)
            return self.T.app(f"apply[{a.name}]", [self.as_term(b)], kind="complex")
        raise Unsupported(f"matmul of {a!r} and {b!r}")

    def matvec(self, m: SparseM, v):
        contrib = []
        for b in m.blocks:
            if b.mask:
                raise Unsupported("matvec with masked blocks")
            if isinstance(v, Field):
                x = self.gather(v, b.col)
            elif isinstance(v, Rat):
                if not b.col.identity:
                    raise Unsupported("matvec: computed vector against gathered columns")
                x = v
            else:
                raise Unsupported(f"matvec with {v!r}")
            contrib.append((b.row, b.val * x))
        if all(r.identity for r, _ in contrib):
            tot = self.const(0)
            for _, t in contrib:
                tot = tot + t
            return tot
        return Scatter(contrib)

    # -- expression evaluation ------------------------------------------------------------
    def eval(self, node: ast.expr, fr: Frame):
        meth = getattr(self, "e_" + type(node).__name__, None)
        if meth is None:
            raise Unsupported(f"expression kind {type(node).__name__}: {ast.unparse(node)}")
        return meth(node, fr)

    def e_Constant(self, node, fr):
        v = node.value
        if v is None or isinstance(v, (bool, str)):
            return v
        if isinstance(v, int):
            return v
        if isinstance(v, float):
            return Fr(repr(v)) if v == v and abs(v) != float("inf") else Opaque(repr(v))
        if isinstance(v, complex):
            return Rat.const(self.T, GQ(Fr(repr(v.real)), Fr(repr(v.imag))))
        if v is Ellipsis:
            return Ellipsis
        raise Unsupported(f"constant {v!r}")

    def e_Name(self, node, fr):
        ok, v = fr.lookup(node.id)
        if ok:
            return v
        m = fr.module
        if node.id in m.functions:
            return m.functions[node.id]
        if node.id in m.classes:
            return m.classes[node.id]
        if node.id in m.imports:
            dotted = m.imports[node.id]
            r = self.repo.resolve_dotted(dotted)
            if r is not None:
                return r
            mod, _, nm = dotted.rpartition(".")
            src_mod = self.repo.modules.get(mod)
            if src_mod is not None and nm in src_mod.assigns:
                return self.eval(src_mod.assigns[nm], Frame(None, src_mod))
            return ModRef(dotted)
        if node.id in m.assigns:
            return self.eval(m.assigns[node.id], Frame(None, m))
        if node.id in ("len", "sum", "abs", "float", "int", "isinstance", "max", "min",
                       "dict", "list", "tuple", "zip", "range", "str", "callable", "bool",
                       "getattr", "hasattr", "set", "sorted", "enumerate", "any", "all", "next", "map", "filter", "reversed", "setattr"):
            return ExtFunc("builtins." + node.id)
        raise Unsupported(f"unbound name {node.id}")

    def _elements(self, node, fr):
        out = []
        for e in node.elts:
            if isinstance(e, ast.Starred):              # [*parts, last]
                v = self.eval(e.value, fr)
                if not isinstance(v, (list, tuple)):
                    raise Unsupported(f"*{ast.unparse(e.value)} is not a finite sequence in the model")
                out.extend(v)
            else:
                out.append(self.eval(e, fr))
        return out

    def e_Tuple(self, node, fr):
        return tuple(self._elements(node, fr))

    def e_List(self, node, fr):
        return self._elements(node, fr)

    def e_Set(self, node, fr):
        return set(self.eval(e, fr) for e in node.elts)

    def e_Dict(self, node, fr):
        return {self.eval(k, fr): self.eval(v, fr) for k, v in zip(node.keys, node.values)}

    def e_UnaryOp(self, node, fr):
        v = self.eval(node.operand, fr)
        if isinstance(node.op, ast.Not):
            return not self.truth(v)
        if isinstance(node.op, ast.USub):
            if isinstance(v, (int, Fr)) and not isinstance(v, bool):
                return -v
            if isinstance(v, Vec2):
                return Vec2(-v.x, -v.y)
            if isinstance(v, Scatter):
                return Scatter([(i, -t) for i, t in v.parts])
            if isinstance(v, Concat):
                return Concat([self.binop(ast.Mult(), -1, p) for p in v.parts])
            return -self.as_term(v)
        if isinstance(node.op, ast.UAdd):
            return v
        if isinstance(node.op, ast.Invert):
            if isinstance(v, bool):
                return not v
            raise Unsupported("bitwise invert")
        raise Unsupported("unary op")

    def e_BinOp(self, node, fr):
        return self.binop(node.op, self.eval(node.left, fr), self.eval(node.right, fr))

    def e_BoolOp(self, node, fr):
        if isinstance(node.op, ast.And):
            v = True
            for e in node.values:
                v = self.eval(e, fr)
                if not self.truth(v):
                    return v
            return v
        v = False
        for e in node.values:
            v = self.eval(e, fr)
            if self.truth(v):
                return v
        return v

    def e_IfExp(self, node, fr):
        return self.eval(node.body if self.truth(self.eval(node.test, fr)) else node.orelse, fr)

    def e_Compare(self, node, fr):
        if len(node.ops) != 1:
            raise Unsupported("chained comparison")
        a = self.eval(node.left, fr)
        b = self.eval(node.comparators[0], fr)
        op = node.ops[0]
        if isinstance(op, (ast.Is, ast.IsNot)):
            if a is None or b is None:
                r = (a is None) and (b is None)
            elif isinstance(a, EnumVal) or isinstance(b, EnumVal):
                r = a == b
            elif isinstance(a, bool) and isinstance(b, bool):
                r = a is b
            else:
                r = a is b
            return r if isinstance(op, ast.Is) else not r
        if isinstance(op, (ast.Eq, ast.NotEq)):
            if isinstance(a, (str, int, bool, Fr, EnumVal, Sym)) and isinstance(b, (str, int, bool, Fr, EnumVal, Sym)):
                r = a == b
                return r if isinstance(op, ast.Eq) else not r
            if isinstance(a, Rat) and isinstance(b, Rat) and a.is_const() and b.is_const():
                r = a == b
                return r if isinstance(op, ast.Eq) else not r
        if isinstance(op, (ast.Eq, ast.NotEq)) and isinstance(a, dict) and isinstance(b, dict):
            r = a == b
            return r if isinstance(op, ast.Eq) else not r
        if isinstance(op, (ast.In, ast.NotIn)) and isinstance(b, (list, tuple, dict, set)):
            r = a in b
            return r if isinstance(op, ast.In) else not r
        if isinstance(op, (ast.Lt, ast.LtE, ast.Gt, ast.GtE)):
            if isinstance(a, (int, Fr)) and isinstance(b, (int, Fr)):
                return {ast.Lt: a < b, ast.LtE: a <= b, ast.Gt: a > b, ast.GtE: a >= b}[type(op)]
        pol = getattr(self, "compare_policy", None)
        if pol is not None:
            r = pol(node, a, b)
            if r is not None:
                return r
        raise Unsupported(f"undecidable comparison {ast.unparse(node)}")

    def truth(self, v) -> bool:
        if v is None or isinstance(v, (bool, int, str, Fr)):
            return bool(v)
        if isinstance(v, (list, tuple, dict)):
            return bool(v)
        if isinstance(v, (Obj, FuncInfo, ClassInfo, SparseM)):
            return True
        raise Unsupported(f"undecidable truth value of {v!r}")

    def e_Attribute(self, node, fr):
        base = self.eval(node.value, fr)
        return self.getattr(base, node.attr, node)

    def getattr(self, base, attr, node=None):
        if isinstance(base, ExtFunc) and base.dotted == "builtins.dict" and attr == "fromkeys":
            return ExtFunc("builtins.dict_fromkeys")
        if isinstance(base, Obj):
            if attr in base.attrs:
                return base.attrs[attr]
            if base.cls is not None:
                m = self.repo.method(base.cls, attr)
                if m is not None:
                    if _is_property(m.node):
                        return self.call_function(m, [base], {})
                    return BoundMethod(base, attr)
                for k in self.repo.mro(base.cls):
                    for st in k.node.body:
                        if isinstance(st, ast.Assign) and any(isinstance(t, ast.Name) and t.id == attr for t in st.targets):
                            return self.eval(st.value, Frame(None, k.module))
            raise Unsupported(f"attribute {base.label}.{attr} is not modelled")
        if isinstance(base, ModRef):
            dotted = f"{base.dotted}.{attr}"
            r = self.repo.resolve_dotted(dotted)
            if r is not None:
                return r
            if attr in ("pi",) and base.dotted in NUMPY_ALIASES + ("math",):
                return self.T.real("pi", "pos")
            if attr == "inf":
                return Opaque("inf")
            if attr == "newaxis":
                return None
            return ModRef(dotted)
        if isinstance(base, ModuleInfo):
            r = self.repo.resolve_dotted(f"{base.name}.{attr}")
            if r is not None:
                return r
            if attr in base.assigns:
                return self.eval(base.assigns[attr], Frame(None, base))
            raise Unsupported(f"{base.name}.{attr}")
        if isinstance(base, ClassInfo):
            # enum member or class attribute
            for st in base.node.body:
                if isinstance(st, (ast.Assign, ast.AnnAssign)):
                    tg = st.targets[0] if isinstance(st, ast.Assign) else st.target
                    if isinstance(tg, ast.Name) and tg.id == attr:
                        if any("Enum" in b for b in base.bases):
                            return EnumVal(f"{base.name}.{attr}")
                        return self.eval(st.value, Frame(None, base.module))
            m = self.repo.method(base, attr)
            if m is not None:
                return m
            raise Unsupported(f"{base.name}.{attr}")
        if isinstance(base, Rat):
            if attr == "real":
                return base.real()
            if attr == "imag":
                return base.imag()
            if attr == "T":
                return base
            if attr == "ndim":
                return 1
            if attr in ("conjugate", "conj", "squeeze", "copy", "astype", "max", "min", "sum", "mean"):
                return BoundMethod(base, attr)
        if isinstance(base, Cols) and attr == "T":
            return base
        if isinstance(base, (Field, Vec2, Concat, Idx, SparseM, Scatter, Index2, EmptyArr, Opaque, Masked, Pair, Cols)):
            if attr == "shape" and isinstance(base, Field):
                return (Sym({f"n_{base.space}": 1}),) + ((base.comps,) if base.comps > 1 else ())
            if attr == "T":
                if isinstance(base, SparseM):
                    # transposition swaps the roles of the row and column index of every block
                    m = SparseM([Block(b.col, b.row, b.val, b.mask) for b in base.blocks], base.shape, base.fmt)
                    return m
                return base
            return BoundMethod(base, attr)
        if isinstance(base, EnumVal) and attr == "value":
            return base.name
        if isinstance(base, dict) and attr in ("items", "values", "keys", "get", "copy", "update"):
            return BoundMethod(base, attr)
        if isinstance(base, list) and attr in ("append", "extend"):
            return BoundMethod(base, attr)
        raise Unsupported(f"attribute .{attr} of {base!r}")

    def e_Subscript(self, node, fr):
        base = self.eval(node.value, fr)
        sl = node.slice
        # x[:, c]
        if isinstance(sl, ast.Tuple) and len(sl.elts) == 2 and _is_full_slice(sl.elts[0]):
            c = self.eval(sl.elts[1], fr) if not isinstance(sl.elts[1], ast.Slice) else None
            if isinstance(sl.elts[1], ast.Slice):
                s = sl.elts[1]
                if s.lower is None and s.step is None and s.upper is not None:
                    n = self.eval(s.upper, fr)
                    if isinstance(base, (Field, Vec2)) and n == 2:
                        return base
                    if isinstance(base, Cols) and isinstance(n, int) and n <= len(base.cols):
                        return Cols(base.cols[:n])
                raise Unsupported(f"column slice {ast.unparse(node)}")
            if c is None:   # x[:, np.newaxis]
                return base
            if isinstance(base, Cols) and isinstance(c, int) and 0 <= c < len(base.cols):
                return base.cols[c]
            if isinstance(base, Index2) and c in (0, 1):
                return base.c0 if c == 0 else base.c1
            if isinstance(base, Field) and base.kind == "index" and isinstance(c, int) and 0 <= c < base.comps:
                return Idx(f"{base.name}{c}", base.space, "site")
            if isinstance(base, (Vec2,)) and c in (0, 1):
                return base.x if c == 0 else base.y
            if isinstance(base, Field) and base.comps == 2 and c in (0, 1):
                v = self.as_vec(base)
                return v.x if c == 0 else v.y
            raise Unsupported(f"column index {ast.unparse(node)}")
        if isinstance(sl, ast.Slice) and isinstance(base, list) and sl.upper is None and sl.step is None \
                and isinstance(sl.lower, ast.UnaryOp) and isinstance(sl.lower.op, ast.USub):
            return ListTail(base, self.eval(sl.lower.operand, fr))
        if isinstance(sl, ast.Slice):
            if isinstance(base, (tuple, list)):           # a Python sequence of the program: ordinary slicing with constant bounds
                lo, hi, st = (None if x is None else self.eval(x, fr) for x in (sl.lower, sl.upper, sl.step))
                if all(x is None or (isinstance(x, int) and not isinstance(x, bool)) for x in (lo, hi, st)):
                    return base[lo:hi:st]
            if sl.lower is None and sl.step is None and sl.upper is not None:
                n = self.eval(sl.upper, fr)
                return self.prefix(base, n)
            if sl.lower is None and sl.upper is None and sl.step is None:
                return base
            if isinstance(base, list) and sl.step is None:
                # a window of a python list with symbolic bounds: `lst[len(lst) - n:]` is the tail, anything else stays uninterpreted
                lo_t, hi_t = (ast.unparse(x) if x is not None else None for x in (sl.lower, sl.upper))
                base_t = ast.unparse(node.value)
                if hi_t in (None, f"len({base_t})") and isinstance(sl.lower, ast.BinOp) and isinstance(sl.lower.op, ast.Sub) \
                        and ast.unparse(sl.lower.left) == f"len({base_t})":
                    return ListTail(base, self.eval(sl.lower.right, fr))
                return ListWindow(base, lo_t, hi_t, ast.unparse(node))
            raise Unsupported(f"slice {ast.unparse(node)}")
        idx = self.eval(sl, fr)
        return self.index(base, idx, node)

    def index(self, base, idx, node=None):
        if isinstance(idx, Concat) and not isinstance(base, (list, tuple, dict)):
            # a[concatenate([i, j])] == concatenate([a[i], a[j]])
            return Concat([self.index(base, p, node) for p in idx.parts])
        if isinstance(idx, Idx):
            if isinstance(base, (Field,)):
                return self.gather(base, idx)
            if isinstance(base, Idx):
                # composition base[idx]
                if base.domain != idx.target:
                    raise Unsupported("index composition across spaces")
                return Idx(f"{base.name}@{idx.name}", idx.domain, base.target, length=idx.length)
            if isinstance(base, Rat):
                return self.gather_term(base, idx)
            raise Unsupported(f"gather {base!r}[{idx!r}]")
        if isinstance(idx, Mask):
            return self.apply_mask(base, idx)
        if isinstance(idx, (Field, Index2)) and isinstance(base, Field) and base.comps == 2 \
                and base.kind == "real":
            if isinstance(idx, Field):
                if not (idx.kind == "index" and idx.comps == 2):
                    raise Unsupported("gather by a non-index field")
                i0 = Idx(f"{idx.name}0", idx.space, "site")
                i1 = Idx(f"{idx.name}1", idx.space, "site")
            else:
                i0, i1 = idx.c0, idx.c1
            return Pair(self.gather(base, i0), self.gather(base, i1))
        if isinstance(idx, int) and isinstance(base, (list, tuple)):
            return base[idx]
        if isinstance(base, dict):
            return base[idx]
        if isinstance(idx, str) and isinstance(base, Opaque):
            return Opaque(f"{base.desc}[{idx}]")
        raise Unsupported(f"subscript {ast.unparse(node) if node else ''} of {base!r} by {idx!r}")

    def gather_term(self, t: Rat, idx: Idx) -> Rat:
        """(per-site term)[idx]: rename site-field atoms name -> name@idx.
        Only valid when every atom of t is a registered site field."""
        mp = {}
        for a in t.atoms():
            base = a[:-1] if a.endswith("~") else a
            if base not in getattr(self, "site_fields", {}):
                raise Unsupported(f"gather of a term with non-site atom {a}")
            f = self.site_fields[base]
            g = self.gather(f, idx)
            mp[base] = g
        return t.subst(mp)

    def prefix(self, base, n):
        if isinstance(base, Mask):
            tot = Sym()
            out = []
            for p in base.parts:
                if tot == _sym(n):
                    break
                out.append(p)
                tot = tot + p.length
            if not (tot == _sym(n)):
                raise Unsupported(f"mask prefix of length {n} does not end on a block boundary")
            return Mask(out)
        raise Unsupported(f"prefix slice of {base!r}")

    def apply_mask(self, base, mask: Mask):
        if isinstance(base, Concat):
            parts = base.parts
        else:
            parts = [base]
        if len(parts) != len(mask.parts):
            raise Unsupported("mask and array have different block structure")
        out = []
        for p, mp in zip(parts, mask.parts):
            if not (self.length(p) == mp.length):
                raise Unsupported("mask block length differs from array block length")
            out.append(p if mp.kind == "all" else Masked(p, mp))
        return Concat(out)

    # -- calls ---------------------------------------------------------------------------
    def e_Call(self, node, fr):
        f = self.eval(node.func, fr)
        args = []
        for a in node.args:
            if isinstance(a, ast.Starred):
                v = self.eval(a.value, fr)
                args.extend(list(v))
            else:
                args.append(self.eval(a, fr))
        kwargs = {}
        for k in node.keywords:
            if k.arg is None:
                d = self.eval(k.value, fr)
                kwargs.update(d)
            else:
                kwargs[k.arg] = self.eval(k.value, fr)
        return self.call(f, args, kwargs, node, fr)

    def call(self, f, args, kwargs, node=None, fr=None):
        if isinstance(f, FuncInfo):
            return self.call_function(f, args, kwargs)
        if isinstance(f, ClassInfo):
            return self.construct(f, args, kwargs)
        if isinstance(f, BoundMethod):
            return self.call_method(f.recv, f.name, args, kwargs, node)
        if isinstance(f, ModRef):
            return self.call_ext(f.dotted, args, kwargs, node)
        if isinstance(f, ExtFunc):
            return self.call_ext(f.dotted, args, kwargs, node)
        if isinstance(f, PyFunc):
            return f.fn(*args, **kwargs)
        if isinstance(f, Obj) and f.cls is not None and self.repo.method(f.cls, "__call__") is not None:
            return self.call_method(f, "__call__", args, kwargs, node)
        raise Unsupported(f"call of {f!r}" + (f" in {ast.unparse(node)}" if node else ""))

    def construct(self, c: ClassInfo, args, kwargs):
        if any("NamedTuple" in b for b in c.bases):
            fields = [s.target.id for s in c.node.body if isinstance(s, ast.AnnAssign)]
            o = Obj(c)
            for n, v in zip(fields, args):
                o.attrs[n] = v
            o.attrs.update(kwargs)
            return o
        o = Obj(c)
        init = self.repo.method(c, "__init__")
        if init is not None:
            self.call_function(init, [o] + list(args), kwargs)
        return o

    def call_function(self, fi: FuncInfo, args, kwargs, closure: Optional[Frame] = None):
        self.call_log.append((fi.fq, tuple(args), dict(kwargs)))
        if fi.fq in self.func_overrides:
            return self.func_overrides[fi.fq](self, args, kwargs)
        self._depth += 1
        if self._depth > self.max_depth:
            self._depth -= 1
            raise Unsupported(f"call depth exceeded at {fi.fq}")
        try:
            a = fi.node.args
            env: Dict[str, Any] = {}
            params = [p.arg for p in a.posonlyargs + a.args]
            if len(args) > len(params) and a.vararg is None:
                raise Unsupported(f"too many positional args for {fi.fq}")
            for p, v in zip(params, args):
                env[p] = v
            if a.vararg is not None:
                env[a.vararg.arg] = tuple(args[len(params):])
            mfr = Frame(None, fi.module)
            defaults = a.defaults
            for p, d in zip(params[len(params) - len(defaults):], defaults):
                if p not in env and p not in kwargs:
                    env[p] = self.eval(d, mfr)
            for p, d in zip(a.kwonlyargs, a.kw_defaults):
                if p.arg not in kwargs and d is not None:
                    env[p.arg] = self.eval(d, mfr)
            allnames = set(params) | {p.arg for p in a.kwonlyargs}
            extra = {}
            for k, v in kwargs.items():
                if k in allnames:
                    env[k] = v
                elif a.kwarg is not None:
                    extra[k] = v
                else:
                    raise Unsupported(f"unexpected keyword {k} for {fi.fq}")
            if a.kwarg is not None:
                env[a.kwarg.arg] = extra
            for p in allnames:
                if p not in env:
                    raise Unsupported(f"missing argument {p} for {fi.fq}")
            fr = Frame(fi, fi.module, env, parent=closure)
            self.frames[fi.fq] = fr
            try:
                self.exec_block(fi.node.body, fr)
            except _Return as r:
                return r.value
            return None
        finally:
            self._depth -= 1

    def call_method(self, recv, name, args, kwargs, node=None):
        if isinstance(recv, Obj):
            m = self.repo.method(recv.cls, name) if recv.cls is not None else None
            if m is None:
                raise Unsupported(f"method {recv.label}.{name}")
            return self.call_function(m, [recv] + list(args), kwargs)
        if isinstance(recv, Rat):
            if name in ("conjugate", "conj"):
                return recv.conj()
            if name in ("squeeze", "copy"):
                return recv
            if name == "astype":
                return recv
            if name in ("max", "min", "sum", "mean"):
                return self.T.app(name, [recv])
        if isinstance(recv, Field):
            if name in ("conjugate", "conj"):
                if recv.kind == "complex":
                    return Field(recv.name + "~", recv.space, "complex", recv.comps)
                return recv
            if name in ("squeeze", "copy"):
                return recv
            if name == "mean" and kwargs.get("axis", args[0] if args else None) == 1:
                raise Unsupported("mean over axis of a field")
        if isinstance(recv, (Vec2, Cols)) and name in ("squeeze", "copy"):
            return recv
        if name in ("ravel", "flatten") and kwargs.get("order", args[0] if args else "C") == "F":
            # column-major flattening of an (n, 2) index array: first column, then second column
            if isinstance(recv, Index2):
                return Concat([recv.c0, recv.c1])
            if isinstance(recv, Field) and recv.kind == "index" and recv.comps == 2:
                return Concat([Idx(f"{recv.name}0", recv.space, "site"), Idx(f"{recv.name}1", recv.space, "site")])
        if isinstance(recv, Vec2) and name == "sum" and kwargs.get("axis") == 1:
            return recv.x + recv.y
        if isinstance(recv, Pair) and name == "mean" and kwargs.get("axis") == 1:
            half = Rat.const(self.T, Fr(1, 2))
            return Vec2((recv.p0.x + recv.p1.x) * half, (recv.p0.y + recv.p1.y) * half)
        if isinstance(recv, SparseM):
            if name in ("tocsr", "tocsc", "tolil", "copy"):
                m = recv.copy()
                m.fmt = {"tocsr": "csr", "tocsc": "csc", "tolil": "lil"}.get(name, recv.fmt)
                return m
        if isinstance(recv, Concat) and name in ("conjugate", "conj"):
            return Concat([self.call_method(p, name, [], {}) if not isinstance(p, (int, Fr)) else p
                           for p in recv.parts])
        if isinstance(recv, dict):
            if name == "get":
                return recv.get(args[0], args[1] if len(args) > 1 else None)
            if name == "items":
                return list(recv.items())
            if name == "values":
                return list(recv.values())
            if name == "keys":
                return set(recv.keys())
            if name == "copy":
                return dict(recv)
            if name == "update":
                recv.update(*args, **kwargs)
                return None
        if isinstance(recv, list) and name == "append":
            recv.append(args[0])
            return None
        if isinstance(recv, Opaque):
            return Opaque(f"{recv.desc}.{name}()")
        raise Unsupported(f"method .{name} of {recv!r}")

    # numpy / scipy / builtins --------------------------------------------------------------
    def call_ext(self, dotted, args, kwargs, node=None):
        for pre in NUMPY_ALIASES:
            if dotted.startswith(pre + "."):
                dotted = "numpy." + dotted[len(pre) + 1:]
                break
        if dotted in self.ext_overrides:
            return self.ext_overrides[dotted](self, args, kwargs)
        h = getattr(self, "x_" + dotted.replace(".", "_"), None)
        if h is None:
            raise Unsupported(f"external function {dotted} has no semantic entry"
                              + (f" ({ast.unparse(node)})" if node else ""))
        return h(args, kwargs)

    def x_builtins_next(self, a, k):
        # next(<generator evaluated to a list>, default): the first item, or the default
        seq = a[0]
        if isinstance(seq, (list, tuple)):
            if seq:
                return seq[0]
            if len(a) > 1:
                return a[1]
            raise Unsupported("next() of an empty sequence without a default")
        raise Unsupported("next() of a value that is not a finite sequence in the model")

    def x_builtins_len(self, a, k):
        return self.length(a[0])

    def x_builtins_float(self, a, k):
        return a[0]

    def x_builtins_int(self, a, k):
        return a[0]

    def x_builtins_abs(self, a, k):
        return self.x_numpy_absolute(a, k)

    def x_builtins_isinstance(self, a, k):
        v, c = a
        if isinstance(c, ModRef) and c.dotted in ("numpy.ndarray", "cupy.ndarray"):
            return c.dotted == "numpy.ndarray" and isinstance(v, (Rat, Field, Vec2, Concat, Idx, Cols))
        if isinstance(c, tuple):
            return any(self.x_builtins_isinstance([v, cc], {}) for cc in c)
        if isinstance(c, ExtFunc) and c.dotted in ("builtins.str", "builtins.float", "builtins.int"):
            if c.dotted == "builtins.str":
                return isinstance(v, str)
            return isinstance(v, (int, Fr)) and not isinstance(v, bool)
        if isinstance(c, ClassInfo) and isinstance(v, Obj) and v.cls is not None:
            return c in self.repo.mro(v.cls)
        if isinstance(v, Obj):
            return False
        if isinstance(c, ClassInfo) and isinstance(v, (int, float, complex, str, Fr)) and not isinstance(v, bool):
            return False          # a plain Python number / string is not an instance of a class of the repository
        raise Unsupported("isinstance on a non-object value")

    def x_builtins_sum(self, a, k):
        tot = self.const(0)
        for v in a[0]:
            tot = tot + self.as_term(v)
        return tot

    def x_builtins_dict(self, a, k):
        d = dict(a[0]) if a else {}
        d.update(k)
        return d

    def x_builtins_list(self, a, k):
        return list(a[0]) if a else []

    def x_builtins_tuple(self, a, k):
        return tuple(a[0]) if a else ()

    def x_builtins_zip(self, a, k):
        return list(zip(*a))

    def x_builtins_map(self, a, k):
        fn, seqs = a[0], [list(x) for x in a[1:]]
        return [self.call(fn, list(items), {}) for items in zip(*seqs)]

    def x_builtins_filter(self, a, k):
        fn, seq = a[0], list(a[1])
        return [x for x in seq if (x if fn is None else self.call(fn, [x], {}))]

    def x_builtins_setattr(self, a, k):
        obj, name, value = a
        if isinstance(obj, Obj) and isinstance(name, str):
            obj.attrs[name] = value
            return None
        raise Unsupported(f"setattr on {obj!r}")

    def x_builtins_reversed(self, a, k):
        return list(reversed(list(a[0])))

    def x_operator_methodcaller(self, a, k):
        name, rest = a[0], list(a[1:])
        return PyFunc(lambda obj, _n=name, _r=rest, _k=dict(k): self.call_method(obj, _n, list(_r), dict(_k)), f"methodcaller({name!r})")

    def x_operator_attrgetter(self, a, k):
        def get(obj, names=tuple(a)):
            vals = []
            for dotted in names:
                v = obj
                for part in dotted.split("."):
                    v = self.getattr(v, part)
                vals.append(v)
            return vals[0] if len(vals) == 1 else tuple(vals)
        return PyFunc(get, f"attrgetter{tuple(a)!r}")

    def x_operator_itemgetter(self, a, k):
        def get(obj, keys=tuple(a)):
            vals = [obj[k_] for k_ in keys]
            return vals[0] if len(vals) == 1 else tuple(vals)
        return PyFunc(get, f"itemgetter{tuple(a)!r}")

    def x_functools_partial(self, a, k):
        fn, pre, prek = a[0], list(a[1:]), dict(k)
        return PyFunc(lambda *args, **kw: self.call(fn, pre + list(args), {**prek, **kw}), "partial")

    def x_builtins_dict_fromkeys(self, a, k):
        return dict.fromkeys(list(a[0]), a[1] if len(a) > 1 else None)

    def x_builtins_max(self, a, k):
        vals = a if len(a) > 1 else list(a[0])
        if all(isinstance(v, (int, Fr)) for v in vals):
            return max(vals)
        return self.T.app("max", [self.as_term(v) for v in vals])

    def x_numpy_concatenate(self, a, k):
        seq = a[0]
        if not isinstance(seq, (list, tuple)):
            raise Unsupported("concatenate of a non-literal sequence")
        return Concat(list(seq))

    def x_numpy_tile(self, a, k):
        reps = a[1] if len(a) > 1 else k.get("reps")
        if isinstance(reps, int) and not isinstance(reps, bool) and reps >= 1 and not isinstance(a[0], (Field,)) or \
                (isinstance(reps, int) and isinstance(a[0], Field) and a[0].comps == 1):
            return Concat([a[0]] * reps) if reps > 1 else a[0]
        raise Unsupported("np.tile outside the 1-d repetition idiom")

    def x_numpy_hstack(self, a, k):
        return self.x_numpy_concatenate(a, k)

    def x_numpy_column_stack(self, a, k):
        return self.x_numpy_concatenate(a, k)

    def x_numpy_ones(self, a, k):
        if a and isinstance(a[0], Sym) and a[0] == Sym():
            return EmptyArr()
        return self.const(1)

    def x_numpy_ones_like(self, a, k):
        return self.const(1)

    def x_numpy_zeros(self, a, k):
        if a and isinstance(a[0], Sym) and a[0] == Sym():
            return EmptyArr()
        return self.const(0)

    def x_numpy_diff(self, a, k):
        v = a[0]
        if isinstance(v, Pair) and k.get("axis") == 1:
            return Vec2(v.p1.x - v.p0.x, v.p1.y - v.p0.y)
        raise Unsupported("np.diff outside the sites[edges] idiom")

    def x_numpy_linalg_norm(self, a, k):
        v = a[0]
        if isinstance(v, (Vec2, Field)) and k.get("axis") == 1:
            v = self.as_vec(v)
            return self.T.sqrt_of(v.x * v.x + v.y * v.y)
        if isinstance(v, Cols) and k.get("axis") == 1:
            tot = self.const(0)
            for c in v.cols:
                c = self.as_term(c)
                tot = tot + c * c
            return self.T.sqrt_of(tot)
        if isinstance(v, Rat) and k.get("axis") == 1:
            return self.T.app("rownorm", [v], sign="nonneg")
        raise Unsupported("np.linalg.norm outside the (n,2) axis=1 idiom")

    def x_numpy_mean(self, a, k):
        v = a[0]
        if isinstance(v, ListWindow):
            last = v.lst[-1] if v.lst else self.const(0)
            return self.T.app(f"mean_window[{v.lo}:{v.hi}]", [self.as_term(last)], sign="nonneg")
        if isinstance(v, ListTail):
            last = v.lst[-1] if v.lst else self.const(0)
            return self.T.app("mean_tail", [self.as_term(v.n), self.as_term(last)], sign="nonneg")
        return self.T.app("mean", [self.as_term(v)])

    def x_numpy_clip(self, a, k):
        return self.T.app("clip", [self.as_term(x) for x in a[:3]])

    def x_numpy_minimum(self, a, k):
        return self.T.app("min", [self.as_term(x) for x in a[:2]])

    def x_numpy_maximum(self, a, k):
        return self.T.app("max", [self.as_term(x) for x in a[:2]])

    def x_numpy_max(self, a, k):
        return self.T.app("max", [self.as_term(a[0])])

    def x_builtins_min(self, a, k):
        vals = a if len(a) > 1 else list(a[0])
        if all(isinstance(v, (int, Fr)) for v in vals):
            return min(vals)
        return self.T.app("min", [self.as_term(v) for v in vals])

    def _fn1(name):
        def h(self, a, k):
            return self.T.app(name, [self.as_term(a[0])])
        return h

    x_numpy_arccos = _fn1("arccos")
    x_numpy_sin = _fn1("sin")
    x_numpy_cos = _fn1("cos")
    x_scipy_special_ellipk = _fn1("ellipk")
    x_scipy_special_ellipe = _fn1("ellipe")

    def x_numpy_arctan2(self, a, k):
        return self.T.app("arctan2", [self.as_term(a[0]), self.as_term(a[1])])

    def x_numpy_where(self, a, k):
        return (Opaque("where"),)

    def x_numpy_flatnonzero(self, a, k):
        return self.x_numpy_where(a, k)[0]              # np.flatnonzero(mask) == np.where(mask)[0] for a 1-d mask

    def x_numpy_zeros_like(self, a, k):
        return self.const(0)

    def x_numpy_arange(self, a, k):
        n = a[0]
        if isinstance(n, Sym) and len(n.coeffs) == 1 and n.const == 0:
            (nm, c), = n.coeffs.items()
            if c == 1 and nm.startswith("n_"):
                sp_ = nm[2:]
                return Idx({"edge": "k", "bedge": "bk", "site": "i"}.get(sp_, "i_" + sp_), sp_, sp_,
                           identity=True, length=n)
        raise Unsupported(f"arange({n!r})")

    def x_numpy_array(self, a, k):
        v = a[0]
        if isinstance(v, list) and not v:
            return EmptyArr()
        if isinstance(v, list) and v and all(isinstance(x, (Rat, int, Fr)) for x in v):
            return Cols([self.as_term(x) for x in v])
        return v

    def x_numpy_stack(self, a, k):
        v = a[0]
        if isinstance(v, list) and k.get("axis") == 1:
            return Cols(list(v))
        raise Unsupported("np.stack outside the column idiom")

    def x_numpy_atleast_2d(self, a, k):
        return a[0] if len(a) == 1 else tuple(a)

    def x_numpy_atleast_1d(self, a, k):
        return a[0] if len(a) == 1 else tuple(a)

    def x_numpy_asarray(self, a, k):
        return a[0]

    def x_numpy_exp(self, a, k):
        t = self.as_term(a[0])
        # exp(i*theta) with theta real
        theta = t * Rat.const(self.T, GQ(0, -1))
        if theta.is_real():
            return self.T.unit_of(theta)
        return self.T.app("exp", [t], kind="complex")

    def x_numpy_sqrt(self, a, k):
        t = self.as_term(a[0])
        for w in self.sqrt_witnesses:
            if w * w == t:
                return w
        return self.T.sqrt_of(t)

    def x_numpy_absolute(self, a, k):
        v = a[0]
        if isinstance(v, (int, Fr)):
            return abs(v)
        t = self.as_term(v)
        if t.is_real():
            from .alg import sign_of
            s = sign_of(t)
            if s in ("pos", "nonneg", "zero"):
                return t
            return self.T.sqrt_of(t * t) if False else self.T.app("abs", [t], sign="nonneg")
        return self.T.sqrt_of(t.abs2())

    x_numpy_abs = x_numpy_absolute

    def x_numpy_einsum(self, a, k):
        spec = a[0].replace(" ", "")
        if spec == "ij,ij->i":
            x, y = self.as_vec(a[1]), self.as_vec(a[2])
            return x.x * y.x + x.y * y.y
        raise Unsupported(f"einsum {spec}")

    def x_numpy_isin(self, a, k):
        arr, st = a[0], a[1]
        invert = k.get("invert", False)
        if not invert:
            raise Unsupported("isin without invert")
        parts = arr.parts if isinstance(arr, Concat) else [arr]
        out = []
        for p in parts:
            if not isinstance(p, Idx):
                raise Unsupported("isin over a non-index array")
            if isinstance(st, EmptyArr):
                out.append(MaskPart("all", length=p.length))
            elif isinstance(st, Idx):
                out.append(MaskPart("notin", p, st.name, length=p.length))
            else:
                raise Unsupported(f"isin against {st!r}")
        return Mask(out)

    def _sparse(self, a, k, fmt):
        data = a[0]
        if isinstance(data, SparseM):
            m = data.copy()
            m.fmt = fmt
            return m
        if not (isinstance(data, tuple) and len(data) == 2 and isinstance(data[1], tuple)):
            raise Unsupported("sparse constructor outside the (values,(rows,cols)) idiom")
        values, (rows, cols) = data
        vp = values.parts if isinstance(values, Concat) else [values]
        rp = rows.parts if isinstance(rows, Concat) else [rows]
        cp = cols.parts if isinstance(cols, Concat) else [cols]
        if not (len(vp) == len(rp) == len(cp)):
            raise Unsupported(f"COO assembly with {len(vp)} value blocks, {len(rp)} row blocks, "
                              f"{len(cp)} column blocks")
        blocks = []
        for v, r, c in zip(vp, rp, cp):
            mk = []
            for x in (v, r, c):
                if isinstance(x, Masked):
                    mk.append(x.part.key())
                else:
                    mk.append(None)
            if not (mk[0] == mk[1] == mk[2]):
                raise Unsupported("values/rows/cols filtered by different masks")
            v, r, c = [x.value if isinstance(x, Masked) else x for x in (v, r, c)]
            if not isinstance(r, Idx) or not isinstance(c, Idx):
                raise Unsupported(f"COO rows/cols are not index arrays: {r!r}, {c!r}")
            blocks.append(Block(r, c, self.as_term(v), mk[0]))
        return SparseM(blocks, k.get("shape"), fmt)

    def x_scipy_sparse_csr_array(self, a, k):
        return self._sparse(a, k, "csr")

    def x_scipy_sparse_csc_array(self, a, k):
        return self._sparse(a, k, "csc")

    x_scipy_sparse_csr_matrix = x_scipy_sparse_csr_array
    x_scipy_sparse_csc_matrix = x_scipy_sparse_csc_array
    x_scipy_sparse_coo_array = x_scipy_sparse_csr_array
    x_scipy_sparse_coo_matrix = x_scipy_sparse_csr_array

    def x_scipy_sparse_issparse(self, a, k):
        return isinstance(a[0], SparseM)

    def x_scipy_sparse_linalg_use_solver(self, a, k):
        return None

    def x_scipy_sparse_linalg_factorized(self, a, k):
        return Obj(None, {"of": a[0]}, label="factorized")

    def x_numpy_errstate(self, a, k):
        return Opaque("errstate")

    def x_warnings_catch_warnings(self, a, k):
        return Opaque("catch_warnings")

    def x_warnings_filterwarnings(self, a, k):
        return None

    # -- statements -------------------------------------------------------------------------
    def exec_block(self, stmts, fr: Frame):
        for s in stmts:
            meth = getattr(self, "s_" + type(s).__name__, None)
            if meth is None:
                raise Unsupported(f"statement kind {type(s).__name__} at "
                                  f"{fr.module.rel}:{s.lineno}")
            meth(s, fr)

    def s_Expr(self, s, fr):
        if isinstance(s.value, ast.Constant):
            return
        self.eval(s.value, fr)

    def s_Pass(self, s, fr):
        pass

    def s_Assert(self, s, fr):
        pass

    def s_Import(self, s, fr):
        pass

    s_ImportFrom = s_Import

    def s_Return(self, s, fr):
        raise _Return(self.eval(s.value, fr) if s.value is not None else None)

    def s_If(self, s, fr):
        try:
            t = self.truth(self.eval(s.test, fr))
        except Unsupported:
            t = self.branch_policy(s.test, fr) if self.branch_policy else None
            if t is None:
                raise
            self.branch_log.append(f"{ast.unparse(s.test)} := {t}")
        self.exec_block(s.body if t else s.orelse, fr)

    def s_Try(self, s, fr):
        # normal path only: exceptional paths are the CFG rules' business
        self.exec_block(s.body, fr)
        self.exec_block(s.orelse, fr)
        self.exec_block(s.finalbody, fr)

    def s_With(self, s, fr):
        for it in s.items:
            v = self.eval(it.context_expr, fr)
            if it.optional_vars is not None:
                self.assign(it.optional_vars, v, fr)
        self.exec_block(s.body, fr)

    def s_Delete(self, s, fr):
        for t in s.targets:
            if isinstance(t, ast.Subscript) and isinstance(self.eval(t.value, fr), list):
                lst = self.eval(t.value, fr)
                sl = t.slice

                def const(e):
                    if e is None:
                        return True, None
                    if isinstance(e, ast.Constant) and isinstance(e.value, int):
                        return True, e.value
                    if isinstance(e, ast.UnaryOp) and isinstance(e.op, ast.USub) and isinstance(e.operand, ast.Constant) and isinstance(e.operand.value, int):
                        return True, -e.operand.value
                    return False, None
                if isinstance(sl, ast.Slice):
                    (ok1, lo), (ok2, hi), (ok3, st) = const(sl.lower), const(sl.upper), const(sl.step)
                    if ok1 and ok2 and ok3:
                        del lst[slice(lo, hi, st)]     # trimming of a history list with constant bounds: performed
                continue      # otherwise: no effect on the values still referenced
            raise Unsupported(f"del {ast.unparse(t)}")

    def s_For(self, s, fr):
        it = self.eval(s.iter, fr)
        if isinstance(it, (set, frozenset)):
            it = sorted(it, key=repr)
        if not isinstance(it, (list, tuple)):
            raise Unsupported(f"for loop over {it!r}")
        broke = False
        for v in it:
            self.assign(s.target, v, fr)
            try:
                self.exec_block(s.body, fr)
            except _Continue:
                continue
            except _Break:
                broke = True
                break
        if not broke:
            self.exec_block(s.orelse, fr)

    def s_Break(self, s, fr):
        raise _Break()

    def s_Continue(self, s, fr):
        raise _Continue()

    def _comp(self, node, fr, elt_fn):
        out = []

        def rec(i, frame):
            if i == len(node.generators):
                out.append(elt_fn(frame))
                return
            g = node.generators[i]
            it = self.eval(g.iter, frame)
            if isinstance(it, (set, frozenset)):
                it = sorted(it, key=repr)
            if not isinstance(it, (list, tuple)):
                raise Unsupported(f"comprehension over {it!r}")
            for v in it:
                f2 = Frame(frame.fi, frame.module, {}, parent=frame)
                self.assign(g.target, v, f2)
                if all(self.truth(self.eval(c, f2)) for c in g.ifs):
                    rec(i + 1, f2)
        rec(0, fr)
        return out

    def e_GeneratorExp(self, node, fr):
        return self._comp(node, fr, lambda f: self.eval(node.elt, f))

    e_ListComp = e_GeneratorExp

    def e_DictComp(self, node, fr):
        return dict(self._comp(node, fr, lambda f: (self.eval(node.key, f), self.eval(node.value, f))))

    def e_Lambda(self, node, fr):
        def call(*args, **kwargs):
            env = {}
            for p, v in zip(node.args.args, args):
                env[p.arg] = v
            env.update(kwargs)
            return self.eval(node.body, Frame(fr.fi, fr.module, env, parent=fr))
        return PyFunc(call, "lambda")

    def s_FunctionDef(self, s, fr):
        q = f"{fr.fi.qual}.{s.name}" if fr.fi else s.name
        fr.env[s.name] = fr.module.functions.get(q) or Opaque("nested def")

    def s_Assign(self, s, fr):
        v = self.eval(s.value, fr)
        for t in s.targets:
            self.assign(t, v, fr)

    def s_AnnAssign(self, s, fr):
        if s.value is not None:
            self.assign(s.target, self.eval(s.value, fr), fr)

    def s_AugAssign(self, s, fr):
        cur = self.eval(_load(s.target), fr)
        v = self.binop(s.op, cur, self.eval(s.value, fr))
        self.assign(s.target, v, fr)

    def assign(self, t, v, fr: Frame):
        if isinstance(t, ast.Name):
            fr.env[t.id] = v
        elif isinstance(t, (ast.Tuple, ast.List)):
            vals = list(v) if isinstance(v, (tuple, list)) else None
            if isinstance(v, Obj) and v.cls is not None and any("NamedTuple" in b_ for b_ in v.cls.bases):
                vals = [v.attrs[s_.target.id] for s_ in v.cls.node.body if isinstance(s_, ast.AnnAssign) and s_.target.id in v.attrs]
            if vals is None or len(vals) != len(t.elts):
                raise Unsupported(f"cannot unpack {v!r} into {ast.unparse(t)}")
            for tt, vv in zip(t.elts, vals):
                self.assign(tt, vv, fr)
        elif isinstance(t, ast.Attribute):
            base = self.eval(t.value, fr)
            if not isinstance(base, Obj):
                raise Unsupported(f"attribute store on {base!r}")
            base.attrs[t.attr] = v
            if self.on_setattr:
                self.on_setattr(base, t.attr, v, fr)
        elif isinstance(t, ast.Subscript):
            base = self.eval(t.value, fr)
            self.store_subscript(base, t, v, fr)
        else:
            raise Unsupported(f"assignment target {ast.unparse(t)}")

    def store_subscript(self, base, t: ast.Subscript, v, fr):
        if isinstance(base, SparseM):
            sl = t.slice
            if not (isinstance(sl, ast.Tuple) and len(sl.elts) == 2):
                raise Unsupported("sparse store with a non-pair index")
            rows = self.eval(sl.elts[0], fr)
            cols = self.eval(sl.elts[1], fr)
            self.sparse_set(base, rows, cols, v)
            return
        if isinstance(base, dict):
            base[self.eval(t.slice, fr)] = v
            return
        if isinstance(base, StoreLog):
            base.stores.append((self.eval(t.slice, fr), v))
            return
        raise Unsupported(f"subscript store on {base!r}")

    def is_complex_term(self, t) -> bool:
        """Static dtype of a term: complex when it mentions a complex/unit atom or an imaginary coefficient."""
        if any(self.T.atoms[a].kind in ("unit", "cplx", "complex") for a in t.atoms()):
            return True
        return not t.is_real()

    def sparse_set(self, m: SparseM, rows, cols, vals):
        rp = rows.parts if isinstance(rows, Concat) else [rows]
        cp = cols.parts if isinstance(cols, Concat) else [cols]
        vp = vals.parts if isinstance(vals, Concat) else [vals]
        if not (len(rp) == len(cp) == len(vp)):
            raise Unsupported("sparse store: rows/cols/values have different block structure")
        for r, c, v in zip(rp, cp, vp):
            mk = [x.part.key() if isinstance(x, Masked) else None for x in (r, c, v)]
            if not (mk[0] == mk[1] == mk[2]):
                raise Unsupported("sparse store: rows/cols/values filtered by different masks")
            r, c, v = [x.value if isinstance(x, Masked) else x for x in (r, c, v)]
            if not isinstance(r, Idx) or not isinstance(c, Idx):
                raise Unsupported("sparse store: rows/cols are not index arrays")
            v = self.as_term(v)
            key = (r.name, c.name)
            # static dtype: a matrix assembled from real entries only has a real dtype, and scipy/numpy cast a complex
            # value stored into it to real (ComplexWarning), dropping the phase
            if getattr(m, "built_real", None) is None:
                m.built_real = not any(self.is_complex_term(b.val) for b in m.blocks)
            if m.built_real and self.is_complex_term(v):
                m.sets.append(f"!complex-into-real {key}: the matrix was assembled from real entries only (real dtype); "
                              f"the complex value stored here is cast to real")
            m.sets.append(f"{key} mask={mk[0]}")
            hits = [b for b in m.blocks if (b.row.name, b.col.name) == key]
            exact = [b for b in hits if b.mask == mk[0]]
            if len(exact) > 1:
                raise Unsupported(f"sparse store on duplicated position {key}")
            if exact:
                exact[0].val = v
            elif hits:
                # the store is restricted by a different mask than the pattern was built with
                m.sets.append(f"!mask-mismatch {key}: built {[b.mask for b in hits]}, stored {mk[0]}")
                m.blocks.append(Block(r, c, v, mk[0]))
            else:
                m.blocks.append(Block(r, c, v, mk[0]))
                m.sets.append(f"!new-position {key}")


def _is_full_slice(n):
    return isinstance(n, ast.Slice) and n.lower is None and n.upper is None and n.step is None


def _is_property(fn: ast.FunctionDef):
    return any(isinstance(d, ast.Name) and d.id == "property" for d in fn.decorator_list)


def _load(t):
    import copy
    n = copy.deepcopy(t)
    for x in ast.walk(n):
        if hasattr(x, "ctx"):
            x.ctx = ast.Load()
    return n
