"""Reading extracted helpers at their call sites.

"Extract function / extract method" is the most common behaviour-preserving refactoring, and it moves the statements a rule
is anchored on into a function the rule has never heard of.  The rules are anchored on the functions of the tree they were
written for (`known_helpers.json`: the private and nested functions that existed then).  Every *other* private helper -
module function, method called on self/cls, nested def - is read as if its body stood at the call site:

    dt, mu = _load_running_state(h5file, a, b)      ==>      <body of the helper, parameters bound, returns -> result>; dt, mu = result

Only helpers whose returns can be made a single exit (straight-line code, if/else ladders and guard clauses) and that are not
recursive, generators or decorated are expanded; calls nested inside larger expressions are expanded only for one-expression
helpers.  Nothing is executed; the expansion exists in the analyser's view of the module only.
"""
from __future__ import annotations

import ast
import copy
import json
from pathlib import Path
from typing import Dict, List, Optional

_KNOWN = None


def known_helpers() -> set:
    global _KNOWN
    if _KNOWN is None:
        p = Path(__file__).with_name("known_helpers.json")
        _KNOWN = set(json.loads(p.read_text())) if p.exists() else set()
    return _KNOWN


def _has(node, kinds) -> bool:
    return any(isinstance(x, kinds) for x in ast.walk(node))


def _contains_return(stmts) -> bool:
    for st in stmts:
        for x in ast.walk(st):
            if isinstance(x, (ast.FunctionDef, ast.Lambda)):
                continue
            if isinstance(x, ast.Return):
                return True
    return False


def _always_exits(stmts) -> bool:
    if not stmts:
        return False
    last = stmts[-1]
    if isinstance(last, (ast.Return, ast.Raise)):
        return True
    if isinstance(last, ast.If) and last.orelse:
        return _always_exits(last.body) and _always_exits(last.orelse)
    return False


def single_exit(stmts: List[ast.stmt], retvar: str) -> Optional[List[ast.stmt]]:
    """Rewrite a body so that every `return e` becomes `retvar = e` and control falls off the end, or None."""
    out: List[ast.stmt] = []
    for i, st in enumerate(stmts):
        if isinstance(st, ast.Return):
            val = st.value if st.value is not None else ast.Constant(value=None)
            out.append(ast.copy_location(ast.Assign(targets=[ast.Name(id=retvar, ctx=ast.Store())], value=val), st))
            return out
        if isinstance(st, ast.If) and _contains_return([st]):
            rest = stmts[i + 1:]
            if _always_exits(st.body):
                b = single_exit(st.body, retvar)
                o = single_exit(st.orelse + rest, retvar)
            elif st.orelse and _always_exits(st.orelse):
                b = single_exit(st.body + rest, retvar)
                o = single_exit(st.orelse, retvar)
            else:
                return None
            if b is None or o is None:
                return None
            new = ast.copy_location(ast.If(test=st.test, body=b or [ast.Pass()], orelse=o), st)
            out.append(new)
            return out
        if isinstance(st, (ast.With, ast.AsyncWith)) and _contains_return([st]) and (i == len(stmts) - 1 or _always_exits(st.body)):
            # `with cm: ...; return e` as the last statement: the block is left normally with the result set
            b = single_exit(st.body, retvar)
            if b is None:
                return None
            new = ast.copy_location(ast.With(items=st.items, body=b), st)
            out.append(new)
            return out
        if _contains_return([st]):
            return None              # return inside a loop / try
        out.append(st)
    out.append(ast.Assign(targets=[ast.Name(id=retvar, ctx=ast.Store())], value=ast.Constant(value=None)))
    return out


class _Rename(ast.NodeTransformer):
    def __init__(self, mapping: Dict[str, ast.expr], names: Dict[str, str]):
        self.mapping, self.names = mapping, names

    def visit_Name(self, node):
        if node.id in self.mapping and isinstance(node.ctx, ast.Load):
            return copy.deepcopy(self.mapping[node.id])
        if node.id in self.names:
            return ast.copy_location(ast.Name(id=self.names[node.id], ctx=node.ctx), node)
        return node


def _simple(e) -> bool:
    if isinstance(e, ast.Tuple):
        return all(_simple(x) for x in e.elts)
    if isinstance(e, ast.Dict):
        return all(k is not None and _simple(k) for k in e.keys) and all(_simple(v) for v in e.values)
    while isinstance(e, ast.Attribute):
        e = e.value
    return isinstance(e, (ast.Name, ast.Constant))


def _bind(fn: ast.FunctionDef, call: ast.Call, skip_first: bool):
    """parameter -> argument expression, or None.  `*args` is bound to the tuple of the surplus positional arguments and `**kwargs`
    to the dict of the surplus keywords (both substituted as literals, so that `f(*args, **kwargs)` in the body reads `f(a, k=v)`)."""
    a = fn.args
    if a.posonlyargs:
        return None
    params = [p.arg for p in a.args][(1 if skip_first else 0):]
    defaults = dict(zip([p.arg for p in a.args][len(a.args) - len(a.defaults):], a.defaults))
    for p, d in zip(a.kwonlyargs, a.kw_defaults):
        if d is not None:
            defaults[p.arg] = d
    allp = params + [p.arg for p in a.kwonlyargs]
    if any(isinstance(x, ast.Starred) for x in call.args) or any(k.arg is None for k in call.keywords):
        return None
    if len(call.args) > len(params) and not a.vararg:
        return None
    m = {}
    for p, v in zip(params, call.args):
        m[p] = v
    extra_kw = []
    for k in call.keywords:
        if k.arg in m:
            return None
        if k.arg not in allp:
            if not a.kwarg:
                return None
            extra_kw.append(k)
            continue
        m[k.arg] = k.value
    for p in allp:
        if p not in m:
            if p not in defaults:
                return None
            m[p] = defaults[p]
    if a.vararg:
        m[a.vararg.arg] = ast.Tuple(elts=list(call.args[len(params):]), ctx=ast.Load())
    if a.kwarg:
        m[a.kwarg.arg] = ast.Dict(keys=[ast.Constant(value=k.arg) for k in extra_kw], values=[k.value for k in extra_kw])
    return m


def _eligible(fn: ast.FunctionDef) -> bool:
    if any(not (isinstance(d, ast.Name) and d.id in ("staticmethod", "classmethod")) for d in fn.decorator_list):
        return False
    body_nodes = [x for st in fn.body for x in ast.walk(st)]
    if any(isinstance(x, (ast.Yield, ast.YieldFrom, ast.Await, ast.Global, ast.Nonlocal)) for x in body_nodes):
        return False
    # recursion
    if any(isinstance(x, ast.Call) and (getattr(x.func, "id", None) == fn.name or (getattr(x.func, "attr", None) == fn.name and isinstance(
            x.func.value, ast.Name) and x.func.value.id in ("self", "cls"))) for x in body_nodes):
        return False
    return True


def expand_module(tree: ast.Module, modname: str) -> int:
    """Inline calls to helpers that are not in the frozen list.  Returns the number of expansions."""
    known = known_helpers()
    counter = [0]

    mod_helpers = {f.name: f for f in tree.body if isinstance(f, ast.FunctionDef) and f.name.startswith("_") and not f.name.startswith("__")
                   and f"{modname}:{f.name}" not in known and _eligible(f)}

    def expand_function(fn: ast.FunctionDef, qual: str, cls_helpers: Dict[str, ast.FunctionDef], cls_name: str = ""):
        # nested defs of this function that are new
        nested = {}
        for st in fn.body:
            if isinstance(st, ast.FunctionDef) and f"{modname}:{qual}.{st.name}" not in known and _eligible(st):
                nested[st.name] = st
        caller_names = {x.id for x in ast.walk(fn) if isinstance(x, ast.Name)} | {a.arg for a in fn.args.args + fn.args.kwonlyargs}

        def resolve(call: ast.Call):
            f = call.func
            if isinstance(f, ast.Name):
                if f.id in nested:
                    return nested[f.id], False
                if f.id in mod_helpers and f.id != fn.name:
                    return mod_helpers[f.id], False
            if isinstance(f, ast.Attribute) and isinstance(f.value, ast.Name) and f.value.id in ("self", "cls", cls_name) and f.attr in cls_helpers \
                    and f.attr != fn.name:
                h = cls_helpers[f.attr]
                static = any(isinstance(d, ast.Name) and d.id == "staticmethod" for d in h.decorator_list)
                clsm = any(isinstance(d, ast.Name) and d.id == "classmethod" for d in h.decorator_list)
                if static:
                    return h, False
                if f.value.id == cls_name:
                    return None, False          # Class.method(obj, ...) / Class.classmethod(...): not read at the call site
                if clsm != (f.value.id == "cls"):
                    return None, False          # a classmethod reached through self (cls would be type(self)), or a method through cls
                if h.args.args and h.args.args[0].arg == f.value.id:
                    return h, True
            return None, False

        def inline_call(call: ast.Call):
            h, skip = resolve(call)
            if h is None:
                return None
            m = _bind(h, call, skip)
            if m is None:
                return None
            counter[0] += 1
            k = counter[0]
            retvar = f"_ret__h{k}"
            body = [s for s in copy.deepcopy(h.body) if not (isinstance(s, ast.Expr) and isinstance(s.value, ast.Constant))]
            body = single_exit(body, retvar)
            if body is None:
                counter[0] -= 1
                return None
            stored = {x.id for st in body for x in ast.walk(st) if isinstance(x, ast.Name) and isinstance(x.ctx, ast.Store)}
            pre = []
            mapping = {}
            names = {}
            for p, v in m.items():
                if _simple(v) and p not in stored:
                    mapping[p] = v
                else:
                    nm = f"{p}__h{k}"
                    names[p] = nm
                    pre.append(ast.Assign(targets=[ast.Name(id=nm, ctx=ast.Store())], value=copy.deepcopy(v)))
            is_nested = h.name in nested and nested[h.name] is h
            for loc_ in sorted(stored - set(m) - {retvar}):
                if loc_ in caller_names and not is_nested:
                    names[loc_] = f"{loc_}__h{k}"
            rn = _Rename(mapping, names)
            body = [rn.visit(st) for st in body]
            for st in pre + body:
                ast.copy_location(st, call)
                ast.fix_missing_locations(st)
            return pre + body, retvar

        def hoist_from(expr, st, top_call):
            hoisted = []

            class _Hoist(ast.NodeTransformer):
                def _skip(self, node):
                    return node
                visit_Lambda = visit_ListComp = visit_SetComp = visit_DictComp = visit_GeneratorExp = _skip
                visit_IfExp = _skip

                def visit_BoolOp(self, node):
                    # only the first operand of and/or is evaluated unconditionally
                    node.values[0] = self.visit(node.values[0])
                    return node

                def visit_Call(self, node):
                    self.generic_visit(node)
                    if node is top_call:
                        return node
                    h, skip_ = resolve(node)
                    if h is None or _bind(h, node, skip_) is None:
                        return node
                    body_ = [s_ for s_ in h.body if not (isinstance(s_, ast.Expr) and isinstance(s_.value, ast.Constant))]
                    if single_exit(copy.deepcopy(body_), "_probe") is None:
                        return node
                    counter[0] += 1
                    nm = f"_arg__h{counter[0]}"
                    a_ = ast.Assign(targets=[ast.Name(id=nm, ctx=ast.Store())], value=node)
                    ast.copy_location(a_, st)
                    ast.fix_missing_locations(a_)
                    hoisted.append(a_)
                    return ast.copy_location(ast.Name(id=nm, ctx=ast.Load()), node)
            expr = _Hoist().visit(expr)
            pre = []
            for a_ in hoisted:
                r = inline_call(a_.value)
                if r is not None:
                    stmts_, retvar = r
                    pre.extend(stmts_)
                    a_.value = ast.copy_location(ast.Name(id=retvar, ctx=ast.Load()), a_)
                pre.append(a_)
            return expr, pre

        def block(stmts):
            out = []
            for st in stmts:
                # recurse into compound statements first
                for fld in ("body", "orelse", "finalbody"):
                    v = getattr(st, fld, None)
                    if isinstance(v, list) and v and isinstance(v[0], ast.stmt) and not isinstance(st, (ast.FunctionDef, ast.ClassDef)):
                        setattr(st, fld, block(v))
                if isinstance(st, ast.Try):
                    for hd in st.handlers:
                        hd.body = block(hd.body)
                call = None
                if isinstance(st, (ast.Assign, ast.AnnAssign, ast.AugAssign, ast.Return, ast.Expr)) and isinstance(getattr(st, "value", None), ast.Call):
                    call = st.value
                # helper calls that are unconditionally evaluated operands of the statement's value (or of an `if` test),
                # `F(a=h(p), b=h(q))`, are read as `_arg1 = h(p); _arg2 = h(q); F(a=_arg1, b=_arg2)`
                if isinstance(st, (ast.Assign, ast.AnnAssign, ast.AugAssign, ast.Return, ast.Expr)) and getattr(st, "value", None) is not None:
                    st.value, pre_ = hoist_from(st.value, st, call)
                    out.extend(pre_)
                elif isinstance(st, ast.If):
                    st.test, pre_ = hoist_from(st.test, st, None)
                    out.extend(pre_)
                if call is not None:
                    r = inline_call(call)
                    if r is not None:
                        stmts_, retvar = r
                        out.extend(stmts_)
                        if isinstance(st, ast.Expr):
                            continue
                        st.value = ast.copy_location(ast.Name(id=retvar, ctx=ast.Load()), call)
                        out.append(st)
                        continue
                out.append(st)
            return out

        for _ in range(3):
            before = counter[0]
            fn.body = block(fn.body)
            if counter[0] == before:
                break

        # a new nested `def f(args): return E` that is still there (it is passed around, not called here) reads `f = lambda args: E`
        def lambdify(stmts):
            for i, st in enumerate(stmts):
                if isinstance(st, ast.FunctionDef):
                    body = [s for s in st.body if not (isinstance(s, ast.Expr) and isinstance(s.value, ast.Constant))]
                    if f"{modname}:{qual}.{st.name}" not in known and not st.decorator_list and len(body) == 1 \
                            and isinstance(body[0], ast.Return) and body[0].value is not None and _eligible(st):
                        args = copy.deepcopy(st.args)
                        for a in args.posonlyargs + args.args + args.kwonlyargs + [x for x in (args.vararg, args.kwarg) if x is not None]:
                            a.annotation = None
                        lam = ast.Lambda(args=args, body=body[0].value)
                        new = ast.Assign(targets=[ast.Name(id=st.name, ctx=ast.Store())], value=lam)
                        ast.copy_location(new, st)
                        ast.copy_location(lam, st)
                        ast.fix_missing_locations(new)
                        stmts[i] = new
                        counter[0] += 1
                    continue
                if isinstance(st, ast.ClassDef):
                    continue
                for fld in ("body", "orelse", "finalbody"):
                    v = getattr(st, fld, None)
                    if isinstance(v, list) and v and isinstance(v[0], ast.stmt):
                        lambdify(v)
                if isinstance(st, ast.Try):
                    for hd in st.handlers:
                        lambdify(hd.body)
        lambdify(fn.body)

    def walk(body, prefix, cls_helpers, cls_name=""):
        for n in body:
            if isinstance(n, ast.FunctionDef):
                expand_function(n, prefix + n.name, cls_helpers, cls_name)
            elif isinstance(n, ast.ClassDef):
                ch = {}
                for f in n.body:
                    if isinstance(f, ast.FunctionDef) and f.name.startswith("_") and not f.name.startswith("__") \
                            and f"{modname}:{prefix}{n.name}.{f.name}" not in known and _eligible_method(f):
                        ch[f.name] = f
                walk(n.body, prefix + n.name + ".", ch, n.name)
    for _ in range(3):          # helpers may use helpers
        before = counter[0]
        walk(tree.body, "", {})
        if counter[0] == before:
            break
    if counter[0]:
        # a helper all of whose uses were expanded is analysed at its call sites only: hide its definition
        cands = []
        for n in ast.walk(tree):
            if isinstance(n, ast.FunctionDef) and n.name.startswith("_") and not n.name.startswith("__"):
                cands.append(n)
            if isinstance(n, ast.FunctionDef):
                for st in ast.walk(n):
                    if st is not n and isinstance(st, ast.FunctionDef) and st not in cands:
                        cands.append(st)
        for h in cands:
            inside = {id(x) for x in ast.walk(h)}
            refs = 0
            for x in ast.walk(tree):
                if id(x) in inside:
                    continue
                if (isinstance(x, ast.Name) and x.id == h.name) or (isinstance(x, ast.Attribute) and x.attr == h.name):
                    refs += 1
            qual_known = any(k.endswith(":" + h.name) or k.endswith("." + h.name) for k in known if k.startswith(modname + ":"))
            if refs == 0 and not qual_known:
                h._inlined_away = True
        # nested definitions that were read at all their call sites are dropped from the enclosing body
        for n in ast.walk(tree):
            if isinstance(n, ast.FunctionDef):
                for holder in ast.walk(n):
                    if holder is not n and isinstance(holder, (ast.FunctionDef, ast.ClassDef)):
                        continue
                    for fld in ("body", "orelse", "finalbody"):
                        v = getattr(holder, fld, None)
                        if isinstance(v, list) and any(isinstance(x, ast.FunctionDef) and getattr(x, "_inlined_away", False) for x in v):
                            v[:] = [x for x in v if not (isinstance(x, ast.FunctionDef) and getattr(x, "_inlined_away", False))] or [ast.Pass()]
    return counter[0]


def _eligible_method(fn: ast.FunctionDef) -> bool:
    if any(not (isinstance(d, ast.Name) and d.id in ("staticmethod", "classmethod")) for d in fn.decorator_list):
        return False
    return _eligible(fn)
