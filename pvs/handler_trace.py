"""Traces of the output-file protocol of DataHandler: `_create_output_file`, `close` and `__exit__` are followed (pvs/smallstep.py)
against a model file system - which names exist, which open fails - and every open / close / remove is recorded in order."""
from __future__ import annotations

import ast
from typing import Any, Dict, List, Tuple

from .run_trace import _RunMachine, RunTrace, Ev
from .smallstep import Closure, Opaque, Raised, module_constants, render
from .src import AnalysisError

RUNNER = "tdgl.solver.runner"


def _machine(repo, tr, existing, self_state, entry):
    C = repo.cls(RUNNER, "DataHandler")
    handles = {}
    dirs = {"CWD", "TMPDIR"} | {p_.rsplit("/", 1)[0] for p_ in existing if "/" in p_}       # directories of the model file system

    def attrs(text):
        if text.endswith("tempdir.name"):
            return "TMPDIR"
        return NotImplemented

    def call(m, node, name, args, kwargs):
        short = name.split(".")[-1]
        recv = m.callee(node.func)[1]
        if name in ("h5py.File", "File"):
            path = args[0] if args else kwargs.get("name")
            mode = args[1] if len(args) > 1 else kwargs.get("mode", "r")
            ok = not (isinstance(path, str) and path in existing and mode in ("x", "w-"))
            no_dir = isinstance(path, str) and "/" in path and path.rsplit("/", 1)[0] not in dirs
            tr.events.append(Ev("OPEN", path=path if isinstance(path, str) else render(path), mode=mode, ok=ok and not no_dir))
            if no_dir:
                raise Raised("FileNotFoundError")       # h5py: OSError "unable to create file", no such directory
            if not ok:
                raise Raised("FileExistsError")
            h = Opaque(f"<file {path}>")
            handles[h.text] = path
            existing.add(path)
            return h
        if isinstance(recv, Opaque) and recv.text.startswith("<file ") and short in ("close", "flush"):
            tr.events.append(Ev(short.upper(), path=handles.get(recv.text)))
            return None
        if isinstance(recv, Opaque) and recv.text in ("OUT", "TMP") and short in ("close", "flush"):
            tr.events.append(Ev(short.upper(), path=recv.text))
            return None
        if name in ("os.remove", "os.unlink") and args:
            tr.events.append(Ev("REMOVE", path=args[0] if isinstance(args[0], str) else render(args[0])))
            existing.discard(args[0])
            return None
        if name == "os.path.join" and all(isinstance(a, str) for a in args):
            return "/".join(a for a in args if a != "")
        if name in ("os.path.splitext", "os.path.split", "os.path.basename", "os.path.dirname") and len(args) == 1 and isinstance(args[0], str):
            import posixpath
            r_ = getattr(posixpath, short)(args[0])
            return list(r_) if isinstance(r_, tuple) else r_
        if short == "mkdir" and isinstance(recv, Opaque):
            # Path(output).parent.mkdir(...): the directory of the requested path exists from here on
            chain = recv
            if chain.parts and chain.parts[0] == "attr" and chain.parts[2] == "parent" and isinstance(chain.parts[1], Opaque) \
                    and chain.parts[1].parts and chain.parts[1].parts[0] == "call" and chain.parts[1].parts[2] and isinstance(chain.parts[1].parts[2][0], str):
                target = chain.parts[1].parts[2][0]
                dirs.add("CWD/" + target.rsplit("/", 1)[0] if "/" in target else "CWD")
                tr.events.append(Ev("MKDIR", path="CWD/" + target.rsplit("/", 1)[0] if "/" in target else "CWD"))
                return None
        if name == "os.getcwd":
            return "CWD"
        if short == "cleanup":
            tr.events.append(Ev("CLEANUP", what=render(recv)))
            return None
        if name.endswith("TemporaryDirectory"):
            tr.events.append(Ev("TEMPDIR"))
            return Opaque("TEMPDIR")
        if name in ("itertools.chain", "chain"):
            out = []
            for a in args:
                if isinstance(a, tuple) and len(a) == 2 and a[0] == "count" and isinstance(a[1], int):
                    out.extend(range(a[1], a[1] + 8))
                elif isinstance(a, (list, tuple)):
                    out.extend(a)
                else:
                    return NotImplemented
            return out
        if name.startswith("self.") and name.count(".") == 1 and short in C.methods and short != entry:
            h = C.methods[short].node
            decos = {getattr(d, "id", "") for d in h.decorator_list}
            if "staticmethod" in decos:
                return m.invoke(Closure(h, None), list(args), kwargs)
            return m.invoke(Closure(h, None), [Opaque("self")] + list(args), kwargs)
        if name.startswith("DataHandler.") and short in C.methods:
            return m.invoke(Closure(C.methods[short].node, None), list(args), kwargs)
        return NotImplemented
    env = dict(module_constants(repo.module(RUNNER).tree))
    env["self"] = Opaque("self")
    mach = _RunMachine(env, attrs, call, fuel=24, undecided=lambda t: None)
    mach.self_state = dict(self_state)
    mach.trace = tr
    return mach


def create_scenarios():
    base = "CWD/run/out"
    return [
        {"name": "nothing exists", "output": "run/out.h5", "existing": [], "want": (f"{base}.h5", f"{base}.h5.tmp")},
        {"name": "the requested name exists", "output": "run/out.h5", "existing": [f"{base}.h5"], "want": (f"{base}-1.h5", f"{base}-1.h5.tmp")},
        {"name": "the requested name and -1 exist", "output": "run/out.h5", "existing": [f"{base}.h5", f"{base}-1.h5"],
         "want": (f"{base}-2.h5", f"{base}-2.h5.tmp")},
        {"name": "a stale tmp file of the requested name exists", "output": "run/out.h5", "existing": [f"{base}.h5.tmp"],
         "want": (f"{base}-1.h5", f"{base}-1.h5.tmp")},
        {"name": "a stale tmp file and -1 exist", "output": "run/out.h5", "existing": [f"{base}.h5.tmp", f"{base}-1.h5"],
         "want": (f"{base}-2.h5", f"{base}-2.h5.tmp")},
        {"name": "no output file requested", "output": None, "existing": [], "want": ("TMPDIR/output.h5", "TMPDIR/output.h5.tmp")},
        # the serial number belongs to the file name: a dot in a directory name must not attract it
        {"name": "a dot in the directory name, nothing exists", "output": "run.v2/out.h5", "existing": [],
         "want": ("CWD/run.v2/out.h5", "CWD/run.v2/out.h5.tmp")},
        {"name": "a dot in the directory name, the requested name exists", "output": "run.v2/out.h5", "existing": ["CWD/run.v2/out.h5"],
         "want": ("CWD/run.v2/out-1.h5", "CWD/run.v2/out-1.h5.tmp")},
        {"name": "a dot in the directory name only, the requested name exists", "output": "run.v2/out", "existing": ["CWD/run.v2/out"],
         "want": ("CWD/run.v2/out-1", "CWD/run.v2/out-1.tmp")},
    ]


def trace_create(repo, sc) -> RunTrace:
    f = repo.func(RUNNER, "DataHandler._create_output_file")
    tr = RunTrace(sc)
    existing = set(sc["existing"])
    tr.preexisting = set(sc["existing"])
    mach = _machine(repo, tr, existing, {"logger": Opaque("logger"), "tempdir": None}, "_create_output_file")
    params = [a.arg for a in f.node.args.args]
    if params[:2] != ["self", "output"] or len(params) != 2:
        raise AnalysisError(f"DataHandler._create_output_file has the parameters {params}")
    mach.env.update({"self": Opaque("self"), "output": sc["output"]})
    from .smallstep import Undecidable
    try:
        tr.outcome = mach.run_function(f.node)
    except Undecidable as e:
        if "does not terminate" not in str(e):
            raise
        tr.outcome = ("diverges", [e_.path for e_ in tr.kinds("OPEN")][-3:])
    tr.existing_after = existing
    return tr


def trace_close(repo, sc) -> RunTrace:
    """sc: {"tmp": bool, "tempdir": bool, "method": "close" | "__exit__", "exc": bool}"""
    f = repo.func(RUNNER, f"DataHandler.{sc['method']}")
    tr = RunTrace(sc)
    state = {"output_file": Opaque("OUT"), "tmp_file": Opaque("TMP") if sc["tmp"] else None, "tmp_path": "p.h5.tmp" if sc["tmp"] else None,
             "tempdir": Opaque("TEMPDIR") if sc["tempdir"] else None, "logger": Opaque("logger"), "output_path": "p.h5"}
    # what the handler has recorded so far: the frame group of the model output file (a missing frame is a KeyError, as in h5py)
    frames = sc.get("frames", 2)
    state["save_number"] = frames
    state["time_step_group"] = {str(k): Opaque(f"FRAME{k}") for k in range(frames)}
    mach = _machine(repo, tr, set(), state, sc["method"])
    params = [a.arg for a in f.node.args.args]
    mach.env["self"] = Opaque("self")
    for p in params[1:]:
        mach.env[p] = (Opaque(p) if sc.get("exc") else None)
    tr.outcome = mach.run_function(f.node)
    return tr
