def main():
    pass
