"""C10 - refreshing link variables in place equals rebuilding the operators."""
from __future__ import annotations

import ast

from ..cfg import guards_of, parent_map
from ..interp import EmptyArr, EnumVal, Field, Idx
from ..model import mesh_model, new_interp
from ..ops import has_atom_kind, mat_diff
from ..src import AnalysisError, loc, norm, own_nodes

OPS = "tdgl.finite_volume.operators"
SOLVER = "tdgl.solver.solver"
TECH = ("sibling agreement builder vs in-place refresh by abstract interpretation on symbolic vector potentials (exact COO block algebra); "
        "refresh discipline of TDGLSolver.update as predicates on 180 followed traces of the method; static dtype of refreshed operators; "
        "who-may-call audit of set_link_exponents")

EXACT_CMP = {"array_equal", "array_equiv"}
TOLERANT_CMP = {"allclose", "isclose"}


def run_sequence(repo, fixed, fix_psi, names):
    """Interpret MeshOperators(...).build_operators(); set_link_exponents(A) for A in names."""
    T, ip = new_interp(repo)
    mesh = mesh_model(repo, ip)
    mo_cls = repo.cls(OPS, "MeshOperators")
    fs = Idx("F", "fixed", "site") if fixed == "F" else (EmptyArr() if fixed == "empty" else None)
    mo = ip.construct(mo_cls, [mesh, EnumVal("SparseSolver.SUPERLU")], {"fixed_sites": fs, "fix_psi": fix_psi})
    ip.call_method(mo, "build_operators", [], {})
    for nm in names:
        ip.call_method(mo, "set_link_exponents", [Field(nm, "edge", comps=2)], {})
    return T, ip, mo


def same_atoms_diff(repo, fixed, fix_psi, seq, zero_first=False, zero_at=None, close=False):
    """Compare refreshed operators with freshly built ones *in one atom table*.

    zero_first: the first potential of the sequence is identically zero.  Only matters if the builders test the *values*
    of the potential (np.any / count_nonzero ...): such a test is answered "all zero" while the first potential is in force."""
    T, ip = new_interp(repo)
    mesh = mesh_model(repo, ip)
    mo_cls = repo.cls(OPS, "MeshOperators")
    state = {"nonzero": True, "asked": 0}

    def any_(ip_, a, k):
        state["asked"] += 1
        return state["nonzero"]
    ip.ext_overrides["numpy.any"] = any_
    # comparisons of two potentials inside the operators: exact ones are decided by identity of the symbolic arrays; tolerant
    # ones (allclose / isclose) hold for identical arrays and - in the `close` scenario - also for two different potentials
    # that lie within the tolerance of each other
    state["tolerant_asked"] = 0

    def exact_(ip_, a, k):
        return repr(a[0]) == repr(a[1])

    def tolerant_(ip_, a, k):
        state["tolerant_asked"] += 1
        return True if close else repr(a[0]) == repr(a[1])
    ip.ext_overrides["numpy.array_equal"] = exact_
    ip.ext_overrides["numpy.array_equiv"] = exact_
    ip.ext_overrides["numpy.allclose"] = tolerant_
    ip.ext_overrides["numpy.count_nonzero"] = lambda ip_, a, k: any_(ip_, a, k)

    def mk():
        fs = Idx("F", "fixed", "site") if fixed == "F" else (EmptyArr() if fixed == "empty" else None)
        mo = ip.construct(mo_cls, [mesh, EnumVal("SparseSolver.SUPERLU")], {"fixed_sites": fs, "fix_psi": fix_psi})
        ip.call_method(mo, "build_operators", [], {})
        return mo
    a = mk()
    for i, nm in enumerate(seq):
        state["nonzero"] = not ((zero_first and i == 0) or (zero_at is not None and i in zero_at))
        ip.call_method(a, "set_link_exponents", [Field(nm, "edge", comps=2)], {})
    state["nonzero"] = True
    b = mk()
    last = len(seq) - 1
    state["nonzero"] = not ((zero_first and last == 0) or (zero_at is not None and last in zero_at))
    ip.call_method(b, "set_link_exponents", [Field(seq[-1], "edge", comps=2)], {})
    state["nonzero"] = True
    ip.value_tests_asked = state["asked"]
    ip.tolerant_tests_asked = state["tolerant_asked"]
    out = {}
    for attr in ("psi_gradient", "psi_laplacian"):
        d = mat_diff(a.attrs[attr], b.attrs[attr])
        d += [s for s in a.attrs[attr].sets if s.startswith("!")]
        out[attr] = d
    le_ok = repr(a.attrs.get("link_exponents")) == repr(b.attrs.get("link_exponents"))
    return ip, a, b, out, le_ok


def check(ctx):
    repo = ctx.repo
    ctx.rule("R10.9", "the refresh is never skipped because the new link exponents compare equal to the remembered ones, unless the remembered "
                      "value is a private copy (a view of the caller's array compares equal to itself after an in-place change)", 1)
    ctx.rule("R10.8", "the remembered potential self.current_A_applied is written by __init__ and update() only (where the refresh guard lives)", 2)
    ctx.rule("R10.1", "after any sequence of set_link_exponents calls, psi_gradient/psi_laplacian equal a fresh build "
                      "for the last potential (merged COO blocks, masks included; no store outside the built pattern)", 12)
    ctx.rule("R10.2", "every block of the fresh operators that carries a link variable is rewritten by the refresh", 3)
    ctx.rule("R10.5", "a refresh guarded by a comparison with a remembered baseline is exact, or the baseline "
                      "is reassigned only where the refresh runs; screening refreshes are unconditional", 2)
    ctx.rule("R10.6", "with screening on, every definition of the induced potential reaches the psi update only through a refresh "
                      "with applied + induced potential (predicate on the 180 traces of update())", 1)
    ctx.rule("R10.7", "no caller builds the order-parameter operators without link variables (None) when a later refresh "
                      "would store complex link variables into the real-dtype matrices", 3)
    f_set = repo.func(OPS, "MeshOperators.set_link_exponents")
    configs = [("F", True, "terminals pinned"), ("F", False, "pinning disabled"), ("empty", True, "no terminals")]
    seqs = [["A1", "A2"], ["A1", "A2", "A3"], ["A1", "A1"]]
    for fixed, fix_psi, desc0 in configs:
        plan = [(s_, False, None) for s_ in seqs] + [(["A1", "A2"], True, None), (["A1", "A2", "A3"], True, None)]
        if ctx.tier == "thorough":
            # longer histories, returns to an earlier potential, and an identically-zero potential at every position
            plan += [(s_, False, None) for s_ in (["A1", "A2", "A1"], ["A1", "A2", "A3", "A1"], ["A1", "A1", "A2", "A2"], ["A1", "A2", "A3", "A4"])]
            plan += [(["A1", "A2", "A3"], False, (1,)), (["A1", "A2", "A3"], False, (2,)), (["A1", "A2", "A3", "A4"], False, (0, 2))]
        plan = [p_ + (False,) for p_ in plan] + [(["A1", "A2"], False, None, True), (["A1", "A2", "A3"], False, None, True)]
        for seq, zero_first, zero_at, close in plan:
            desc = desc0 + (", first potential identically zero" if zero_first else "") + (f", potentials {zero_at} identically zero" if zero_at else "") \
                + (", consecutive potentials within rtol=1e-5 of each other" if close else "")
            ip, a, b, diffs, le_ok = same_atoms_diff(repo, fixed, fix_psi, seq, zero_first, zero_at, close)
            if close and not ip.tolerant_tests_asked:
                ctx.ob("R10.1", f"the refresh does not compare potentials with a tolerance ({desc0}, {'->'.join(seq)})", True,
                       detail={"tolerant_tests": 0}, where=f_set.fq, construct=f"tolerance tests in the refresh ({desc0})")
                continue
            zero_first = zero_first or bool(zero_at)
            if zero_first and not ip.value_tests_asked:
                # the builders never look at the values of the potential: a zero potential is not a special case
                ctx.ob("R10.1", f"operators do not branch on the values of the potential ({desc0}, {'->'.join(seq)})", True,
                       detail={"value_tests": 0}, where=f_set.fq, construct=f"value tests in the builders ({desc0})")
                continue
            for attr, d in diffs.items():
                ctx.ob("R10.1", f"{attr}: {desc}, sequence {'->'.join(seq)}", not d,
                       detail={"diff": d, "stores": a.attrs[attr].sets, "refreshed": repr(a.attrs[attr])[:600]},
                       nontrivial=(seq[0] != seq[-1]) or len(seq) > 2,
                       where=f_set.fq, construct=f"{attr} refresh ({desc})", loc=loc(f_set, f_set.node),
                       message=f"in-place refresh of {attr} differs from a rebuild ({desc}, {'->'.join(seq)}): "
                               + "; ".join(d[:2]),
                       consequence="after the second vector-potential update the operator in use is stale or "
                                   "partially updated on the named block")
        # R10.2: unit-carrying blocks of the fresh build == positions written by the refresh
        desc = desc0
        ip, a, b, _, _ = same_atoms_diff(repo, fixed, fix_psi, ["A1", "A2"])
        for attr in ("psi_gradient", "psi_laplacian"):
            fresh_u = {k[:2] for k, v in b.attrs[attr].merged().items() if has_atom_kind(ip, v, "unit")}
            stored = set()
            for s_ in a.attrs[attr].sets:
                if s_.startswith("("):
                    stored.add(tuple(ast.literal_eval(s_.split(" mask=")[0])))
            if attr == "psi_laplacian" or fixed == "F":
                pass
            ctx.ob("R10.2", f"{attr}: link-variable blocks == refreshed blocks ({desc})", fresh_u == stored,
                   detail={"link_blocks": sorted(fresh_u), "refreshed": sorted(stored)},
                   where=f_set.fq, construct=f"{attr} refreshed positions ({desc})", loc=loc(f_set, f_set.node),
                   message=f"{attr}: blocks carrying the link variable {sorted(fresh_u)} != blocks refreshed {sorted(stored)}",
                   consequence="a link-variable entry is never refreshed (stale) or a link-free entry is overwritten")
    check_triggers(ctx)
    link_callers(ctx)
    no_skipped_refresh(ctx)
    baseline_writers(ctx)
    ctx.assume("scipy's sparse __setitem__ overwrites existing entries (R10.1 shows every refreshed position exists in the pattern)")
    ctx.decline("cupy branch of _spmatrix_set_many (GPU only); numerical equality in floating point")


# ---------------------------------------------------------------------------
# R10.5 refresh triggers in TDGLSolver.update
# ---------------------------------------------------------------------------

def update_roles(fn):
    """Locals of TDGLSolver.update identified by role (not by name): the induced potential is what get_induced_vector_potential
    returns first; the applied potential is what is remembered in self.current_A_applied."""
    induced = applied = None
    for n in own_nodes(fn):
        if isinstance(n, ast.Assign) and isinstance(n.value, ast.Call) and norm(n.value.func) == "self.get_induced_vector_potential":
            t = n.targets[0]
            if isinstance(t, ast.Tuple) and t.elts and isinstance(t.elts[0], ast.Name):
                induced = t.elts[0].id
        if isinstance(n, ast.Assign) and isinstance(n.value, ast.Name) and any(
                isinstance(t, ast.Attribute) and norm(t) == "self.current_A_applied" for t in n.targets):
            applied = n.value.id
    if induced is None or applied is None:
        raise AnalysisError("TDGLSolver.update: cannot identify the induced / applied potential locals by their roles")
    return induced, applied


def check_triggers(ctx):
    """R10.5 / R10.6 as predicates on the traces of update() (pvs/update_trace.py, 180 scenarios): at every psi update the link
    variables last handed to the operators are those of the vector potential of that moment, and the remembered applied potential
    is the one of this step - however update() is arranged."""
    from ..update_trace import all_traces
    from ..smallstep import Opaque as SO, render
    repo = ctx.repo
    fu = repo.func(SOLVER, "TDGLSolver.update")
    traces = all_traces(repo)
    ctx.note("update_trace_scenarios", len(traces))

    def terms(v):
        """the summands of a symbolic sum"""
        if isinstance(v, SO) and v.parts and v.parts[0] == "Add":
            return terms(v.parts[1]) + terms(v.parts[2])
        return [render(v)]
    stale, stale6, base_bad, tol_bad, early_bad = [], [], [], [], []
    n_refresh = 0
    for t in traces:
        sc = t.scenario
        tag = ", ".join(f"{k}={v}" for k, v in sc.items() if k != "max_iterations")
        applied_now = "A_new" if sc["dynamic_A"] != "off" else "self.current_A_applied"
        eulers = t.calls("adaptive_euler_step")
        if not eulers:
            raise AnalysisError(f"update() performs no psi update in scenario [{tag}]")
        for k, ev in enumerate(eulers):
            before = [e for e in t.events[:t.index(ev)] if e.kind == "call" and e.name.endswith("set_link_exponents")]
            n_refresh += len(before)
            last = sorted(terms(before[-1].args[0])) if before and before[-1].args else None
            induced_now = "induced_vector_potential" if k == 0 else f"A#{k - 1}"
            if sc["screening"]:
                if last != sorted([applied_now, induced_now]):
                    stale6.append(f"[{tag}] psi update #{k} runs after set_link_exponents({last}); the potential is {applied_now} + {induced_now}")
            elif sc["dynamic_A"] == "changed":
                if last is None or applied_now not in last or any(x.startswith("A#") for x in last):
                    stale.append(f"[{tag}] psi update #{k} runs after set_link_exponents({last}) although the applied potential changed to {applied_now}")
        # the remembered applied potential
        if sc["dynamic_A"] != "off" and t.outcome[0] == "return":
            tolerant = [e for e in t.events if e.kind == "call" and e.name.split(".")[-1] in ("allclose", "isclose", "array_equiv")]
            final = [e.value for e in t.stores("current_A_applied")]
            kept = bool(final) and render(final[-1]) == "A_new"
            if tolerant:
                # a tolerance test: the baseline may only move when the operators are refreshed
                refreshed = any("A_new" in " ".join(terms(e.args[0])) for e in t.calls("set_link_exponents") if e.args)
                if kept and not refreshed:
                    tol_bad.append(f"[{tag}] the baseline is overwritten although the refresh was skipped by a tolerance test")
            elif kept and sc["dynamic_A"] == "changed":
                # the reference may move only once the operators hold the new potential: the refresh can be interrupted (Ctrl-C, resumed
                # with 'y' - the step is retried) and the retry must still see the change
                st_ev = [e for e in t.stores("current_A_applied") if render(e.value) == "A_new"]
                rf_ev = [e for e in t.calls("set_link_exponents") if e.args and "A_new" in terms(e.args[0])]
                if st_ev and rf_ev and t.index(st_ev[0]) < t.index(rf_ev[0]):
                    early_bad.append(f"[{tag}] self.current_A_applied is set to the new potential before set_link_exponents runs with it")
            if not tolerant and not kept:
                base_bad.append(f"[{tag}] self.current_A_applied ends as {render(final[-1]) if final else 'the old value'}, not the potential of this step")
    if n_refresh < 2:
        raise AnalysisError("update() never hands a vector potential to the operators in any scenario")
    ctx.ob("R10.5", "a changed applied potential reaches the operators before the psi update", not stale, detail=stale[:4], where=fu.fq,
           construct="refresh for a time-dependent applied potential", loc=loc(fu, fu.node), message=f"{stale[:1]}",
           consequence="operators are never refreshed for one kind of vector-potential change")
    ctx.ob("R10.5", "exactly-guarded refresh keeps its baseline current: self.current_A_applied ends as the potential of this step, refreshed or not",
           not base_bad, detail=base_bad[:4], where=fu.fq, construct="baseline of the change test [baseline update]", loc=loc(fu, fu.node),
           message=f"{base_bad[:1]}",
           consequence="a vector potential that changes and later returns to the stale reference value (pulse 0 -> B -> 0) "
                       "is taken for unchanged and the operators of the previous value stay in use")
    ctx.ob("R10.5", "the reference of the change test moves only after the operators were refreshed with the new potential", not early_bad,
           detail=early_bad[:4], where=fu.fq, construct="order of baseline update and refresh", loc=loc(fu, fu.node), message=f"{early_bad[:1]}",
           consequence="a Ctrl-C inside the refresh that is answered with 'y' (pause_on_interrupt) retries the step: the retry finds the potential "
                       "equal to the already advanced reference, skips the refresh and runs with half-refreshed link variables from then on")
    ctx.ob("R10.5", "a tolerance-guarded refresh keeps its baseline: the reference moves only when the operators are refreshed", not tol_bad,
           detail=tol_bad[:4], where=fu.fq, construct="tolerance-guarded refresh", loc=loc(fu, fu.node), message=f"{tol_bad[:1]}",
           consequence="a vector potential ramped by less than rtol=1e-5 per step never refreshes the "
                       "link variables (e.g. LinearRamp over 20000 steps: 0 refreshes, stale operators)")
    ctx.ob("R10.6", "with screening on, every psi update runs right after a refresh with (applied + latest induced) potential", not stale6,
           detail=stale6[:4], where=fu.fq, construct="A_induced reaches the psi update through a refresh", loc=loc(fu, fu.node),
           message=f"the order-parameter update can run with link variables that do not include the latest induced vector potential: {stale6[:1]}",
           consequence="with screening on, a step (or a screening iteration) uses stale covariant operators")


# ---------------------------------------------------------------------------
# R10.7 operators built without link variables and refreshed later
# ---------------------------------------------------------------------------

def none_then_array_unsafe(repo):
    """Is set_link_exponents(None) followed by set_link_exponents(A) different from a fresh build for A?  (derived, not assumed)"""
    T, ip = new_interp(repo)
    mesh = mesh_model(repo, ip)
    mo_cls = repo.cls(OPS, "MeshOperators")
    mo = ip.construct(mo_cls, [mesh, EnumVal("SparseSolver.SUPERLU")], {"fixed_sites": Idx("F", "fixed", "site"), "fix_psi": True})
    ip.call_method(mo, "build_operators", [], {})
    try:
        ip.call_method(mo, "set_link_exponents", [None], {})
        ip.call_method(mo, "set_link_exponents", [Field("A2", "edge", comps=2)], {})
    except AnalysisError as e:
        return [f"not analysable: {e}"]
    return [s for attr in ("psi_gradient", "psi_laplacian") for s in mo.attrs[attr].sets if s.startswith("!")]


def _can_be_none(e) -> bool:
    """the value of the expression itself can be None (a None buried in the arguments of a call is not the value)"""
    if isinstance(e, ast.Constant):
        return e.value is None
    if isinstance(e, ast.IfExp):
        return _can_be_none(e.body) or _can_be_none(e.orelse)
    if isinstance(e, ast.BoolOp):
        return any(_can_be_none(v) for v in e.values)
    if isinstance(e, ast.NamedExpr):
        return _can_be_none(e.value)
    if isinstance(e, (ast.Name, ast.Attribute)):
        return False            # parameters and attributes: judged at their definitions (reaching values are expanded by the caller)
    return False


def link_callers(ctx, rule="R10.7"):
    from ..dataflow import expand
    repo = ctx.repo
    unsafe = none_then_array_unsafe(repo)
    ctx.note("none_then_array", unsafe[:2])
    sites = 0
    for fi in repo.all_functions():
        if fi.module.name.startswith("tdgl.test") or fi.fq.startswith(f"{OPS}:MeshOperators."):
            continue
        for n in own_nodes(fi.node):
            if isinstance(n, ast.Call) and isinstance(n.func, ast.Attribute) and n.func.attr == "set_link_exponents":
                sites += 1
                arg = n.args[0] if n.args else next((k.value for k in n.keywords if k.arg == "link_exponents"), None)
                ex = expand(fi.node, arg) if arg is not None else None
                cands = [ex]
                if isinstance(ex, ast.Name) and ex.id not in {a.arg for a in fi.node.args.args + fi.node.args.kwonlyargs}:
                    # several definitions: every one that reaches the call
                    from ..cfg import parent_map
                    from ..dataflow import reaching_values, stmt_of
                    vals = reaching_values(fi.node, ex.id, stmt_of(n, parent_map(fi.node)))
                    cands = [expand(fi.node, v) if v is not None else None for v in vals] or [ex]
                    ex = next((c for c in cands if c is not None and _can_be_none(c)), ex)
                may_none = any(c is None or _can_be_none(c) for c in cands)
                ctx.ob(rule, f"{fi.qual} L{n.lineno}: {norm(n)} passes a vector potential, never None", not (may_none and unsafe),
                       detail={"argument": ast.unparse(ex) if ex is not None else None, "none_then_array": unsafe[:2]},
                       where=fi.fq, construct=f"set_link_exponents argument may be None in {fi.qual}", loc=loc(fi, n),
                       message=f"{norm(n)} can build the operators without link variables (argument `{ast.unparse(ex) if ex is not None else None}`): "
                               f"they are real-valued, and a later set_link_exponents(A) stores complex link variables into them: {unsafe[:1]}",
                       consequence="a run that starts with zero vector potential and later receives a non-zero one (time-dependent field, "
                                   "screening) keeps only the real part of the link variables: the refreshed operators differ from a rebuild")
    if sites < 3:
        raise AnalysisError(f"expected >=3 set_link_exponents call sites outside MeshOperators, found {sites}")


def baseline_writers(ctx):
    """R10.8: without screening the operators belong to `self.current_A_applied`; that pairing is established by __init__
    (build + store) and maintained by update() (guarded refresh + store).  Any other writer moves the reference without the operators."""
    repo = ctx.repo
    cls = repo.cls(SOLVER, "TDGLSolver")
    writers = {}
    for name, f in cls.methods.items():
        for n in own_nodes(f.node):
            if isinstance(n, ast.Attribute) and isinstance(n.ctx, (ast.Store, ast.Del)) and n.attr == "current_A_applied" and norm(n.value) == "self":
                writers.setdefault(name, []).append(n)
            if isinstance(n, ast.Call) and getattr(n.func, "id", "") == "setattr" and len(n.args) >= 2 and isinstance(n.args[1], ast.Constant) \
                    and n.args[1].value == "current_A_applied":
                writers.setdefault(name, []).append(n)
    for name, nodes in sorted(writers.items()):
        ok = name in ("__init__", "update")
        f = cls.methods[name]
        ctx.ob("R10.8", f"TDGLSolver.{name} writes self.current_A_applied", ok, where=f.fq, construct=f"self.current_A_applied written in {name}",
               loc=loc(f, nodes[0]), message=f"TDGLSolver.{name} moves the reference potential `self.current_A_applied` (L{nodes[0].lineno}) without "
                                             f"being the place where the operators are refreshed",
               consequence="the 'has A changed?' guard of update() compares with a value the operators were not built for: when solve() is called "
                           "again on the same solver the link variables of the previous run stay in use until A(t) first departs from A(0)")
    if set(writers) & {"__init__", "update"} != {"__init__", "update"}:
        raise AnalysisError(f"expected __init__ and update to write self.current_A_applied, found {sorted(writers)}")


def no_skipped_refresh(ctx, rule="R10.9"):
    """In MeshOperators.set_link_exponents: an exit (or a skipped refresh) that depends on a comparison with self.link_exponents is only
    sound when self.link_exponents never shares storage with the caller's array."""
    from ..alias import VIEW_FUNCS
    from ..dataflow import conditions_at
    repo = ctx.repo
    f = repo.func(OPS, "MeshOperators.set_link_exponents")
    fn = f.node
    pm = parent_map(fn)
    params = [a.arg for a in fn.args.args[1:]]
    # how the remembered value is stored
    stores = [n for n in own_nodes(fn) if isinstance(n, ast.Assign) and any(norm(t) == "self.link_exponents" for t in n.targets)]
    if not stores:
        raise AnalysisError("set_link_exponents no longer remembers self.link_exponents")

    def shares(e):
        """may the stored value be (a view of) the caller's array?"""
        if isinstance(e, ast.Name):
            return e.id in params
        if isinstance(e, ast.Call):
            nm = norm(e.func).split(".")[-1]
            if nm in VIEW_FUNCS:
                return any(shares(a) for a in e.args) or (isinstance(e.func, ast.Attribute) and shares(e.func.value))
            return False                # array(), copy(), arithmetic ... give fresh storage
        if isinstance(e, (ast.Subscript, ast.Attribute)):
            return shares(e.value)
        if isinstance(e, ast.IfExp):
            return shares(e.body) or shares(e.orelse)
        return False
    view = any(shares(st.value) for st in stores)
    # exits and refresh statements that depend on a comparison with the remembered value
    dependent = []
    for n in own_nodes(fn):
        if isinstance(n, (ast.Return, ast.Assign, ast.Expr, ast.AugAssign)):
            for c in conditions_at(fn, n, pm):
                if "self.link_exponents" in norm(c) and not norm(c).replace("not ", "").strip("()") in ("self.link_exponents is None", "self.link_exponents is not None"):
                    dependent.append(f"L{n.lineno}: `{norm(n)[:50]}` under `{norm(c)[:80]}`")
                    break
    ok = not (dependent and view)
    ctx.ob(rule, "no refresh of the link variables is skipped on a comparison with a remembered view of the caller's array", ok,
           detail={"remembered_as": [norm(st.value) for st in stores], "may_share_storage": view, "dependent": dependent[:4]}, where=f.fq,
           construct="refresh skipped on comparison with self.link_exponents", loc=loc(f, fn),
           message=f"set_link_exponents skips work when the new exponents equal self.link_exponents ({dependent[:1]}), but self.link_exponents is stored as "
                   f"`{norm(stores[0].value)}`, which can be the caller's own array: after an in-place change of that array the comparison is trivially true",
           consequence="a caller that gauge-transforms (or otherwise updates) its vector potential in place and calls set_link_exponents again keeps the old "
                       "link variables: the operators are not those of the potential handed in")
