"""C10 - refreshing link variables in place equals rebuilding the operators."""
from __future__ import annotations

import ast

from ..cfg import guards_of, parent_map
from ..interp import EmptyArr, EnumVal, Field, Idx
from ..model import mesh_model, new_interp
from ..ops import has_atom_kind, mat_diff
from ..src import AnalysisError, loc, norm, own_nodes

OPS = "tdgl.finite_volume.operators"
SOLVER = "tdgl.solver.solver"
TECH = ("sibling agreement (from-scratch builder vs in-place refresh) by abstract interpretation of "
        "MeshOperators on symbolic vector potentials; guard/baseline dataflow rule on TDGLSolver.update")

EXACT_CMP = {"array_equal", "array_equiv"}
TOLERANT_CMP = {"allclose", "isclose"}


def run_sequence(repo, fixed, fix_psi, names):
    """Interpret MeshOperators(...).build_operators(); set_link_exponents(A) for A in names."""
    T, ip = new_interp(repo)
    mesh = mesh_model(repo, ip)
    mo_cls = repo.cls(OPS, "MeshOperators")
    fs = Idx("F", "fixed", "site") if fixed == "F" else (EmptyArr() if fixed == "empty" else None)
    mo = ip.construct(mo_cls, [mesh, EnumVal("SparseSolver.SUPERLU")], {"fixed_sites": fs, "fix_psi": fix_psi})
    ip.call_method(mo, "build_operators", [], {})
    for nm in names:
        ip.call_method(mo, "set_link_exponents", [Field(nm, "edge", comps=2)], {})
    return T, ip, mo


def same_atoms_diff(repo, fixed, fix_psi, seq, zero_first=False, zero_at=None, close=False):
    """Compare refreshed operators with freshly built ones *in one atom table*.

    zero_first: the first potential of the sequence is identically zero.  Only matters if the builders test the *values*
    of the potential (np.any / count_nonzero ...): such a test is answered "all zero" while the first potential is in force."""
    T, ip = new_interp(repo)
    mesh = mesh_model(repo, ip)
    mo_cls = repo.cls(OPS, "MeshOperators")
    state = {"nonzero": True, "asked": 0}

    def any_(ip_, a, k):
        state["asked"] += 1
        return state["nonzero"]
    ip.ext_overrides["numpy.any"] = any_
    # comparisons of two potentials inside the operators: exact ones are decided by identity of the symbolic arrays; tolerant
    # ones (allclose / isclose) hold for identical arrays and - in the `close` scenario - also for two different potentials
    # that lie within the tolerance of each other
    state["tolerant_asked"] = 0

    def exact_(ip_, a, k):
        return repr(a[0]) == repr(a[1])

    def tolerant_(ip_, a, k):
        state["tolerant_asked"] += 1
        return True if close else repr(a[0]) == repr(a[1])
    ip.ext_overrides["numpy.array_equal"] = exact_
    ip.ext_overrides["numpy.array_equiv"] = exact_
    ip.ext_overrides["numpy.allclose"] = tolerant_
    ip.ext_overrides["numpy.count_nonzero"] = lambda ip_, a, k: any_(ip_, a, k)

    def mk():
        fs = Idx("F", "fixed", "site") if fixed == "F" else (EmptyArr() if fixed == "empty" else None)
        mo = ip.construct(mo_cls, [mesh, EnumVal("SparseSolver.SUPERLU")], {"fixed_sites": fs, "fix_psi": fix_psi})
        ip.call_method(mo, "build_operators", [], {})
        return mo
    a = mk()
    for i, nm in enumerate(seq):
        state["nonzero"] = not ((zero_first and i == 0) or (zero_at is not None and i in zero_at))
        ip.call_method(a, "set_link_exponents", [Field(nm, "edge", comps=2)], {})
    state["nonzero"] = True
    b = mk()
    last = len(seq) - 1
    state["nonzero"] = not ((zero_first and last == 0) or (zero_at is not None and last in zero_at))
    ip.call_method(b, "set_link_exponents", [Field(seq[-1], "edge", comps=2)], {})
    state["nonzero"] = True
    ip.value_tests_asked = state["asked"]
    ip.tolerant_tests_asked = state["tolerant_asked"]
    out = {}
    for attr in ("psi_gradient", "psi_laplacian"):
        d = mat_diff(a.attrs[attr], b.attrs[attr])
        d += [s for s in a.attrs[attr].sets if s.startswith("!")]
        out[attr] = d
    le_ok = repr(a.attrs.get("link_exponents")) == repr(b.attrs.get("link_exponents"))
    return ip, a, b, out, le_ok


def check(ctx):
    repo = ctx.repo
    ctx.rule("R10.8", "the remembered potential self.current_A_applied is written by __init__ and update() only (where the refresh guard lives)", 2)
    ctx.rule("R10.1", "after any sequence of set_link_exponents calls, psi_gradient/psi_laplacian equal a fresh build "
                      "for the last potential (merged COO blocks, masks included; no store outside the built pattern)", 12)
    ctx.rule("R10.2", "every block of the fresh operators that carries a link variable is rewritten by the refresh", 3)
    ctx.rule("R10.5", "a refresh guarded by a comparison with a remembered baseline is exact, or the baseline "
                      "is reassigned only where the refresh runs; screening refreshes are unconditional", 2)
    ctx.rule("R10.6", "with screening on, every definition of the induced potential reaches the psi update only through a refresh "
                      "with applied + induced potential", 2)
    ctx.rule("R10.7", "no caller builds the order-parameter operators without link variables (None) when a later refresh "
                      "would store complex link variables into the real-dtype matrices", 3)
    f_set = repo.func(OPS, "MeshOperators.set_link_exponents")
    configs = [("F", True, "terminals pinned"), ("F", False, "pinning disabled"), ("empty", True, "no terminals")]
    seqs = [["A1", "A2"], ["A1", "A2", "A3"], ["A1", "A1"]]
    for fixed, fix_psi, desc0 in configs:
        plan = [(s_, False, None) for s_ in seqs] + [(["A1", "A2"], True, None), (["A1", "A2", "A3"], True, None)]
        if ctx.tier == "thorough":
            # longer histories, returns to an earlier potential, and an identically-zero potential at every position
            plan += [(s_, False, None) for s_ in (["A1", "A2", "A1"], ["A1", "A2", "A3", "A1"], ["A1", "A1", "A2", "A2"], ["A1", "A2", "A3", "A4"])]
            plan += [(["A1", "A2", "A3"], False, (1,)), (["A1", "A2", "A3"], False, (2,)), (["A1", "A2", "A3", "A4"], False, (0, 2))]
        plan = [p_ + (False,) for p_ in plan] + [(["A1", "A2"], False, None, True), (["A1", "A2", "A3"], False, None, True)]
        for seq, zero_first, zero_at, close in plan:
            desc = desc0 + (", first potential identically zero" if zero_first else "") + (f", potentials {zero_at} identically zero" if zero_at else "") \
                + (", consecutive potentials within rtol=1e-5 of each other" if close else "")
            ip, a, b, diffs, le_ok = same_atoms_diff(repo, fixed, fix_psi, seq, zero_first, zero_at, close)
            if close and not ip.tolerant_tests_asked:
                ctx.ob("R10.1", f"the refresh does not compare potentials with a tolerance ({desc0}, {'->'.join(seq)})", True,
                       detail={"tolerant_tests": 0}, where=f_set.fq, construct=f"tolerance tests in the refresh ({desc0})")
                continue
            zero_first = zero_first or bool(zero_at)
            if zero_first and not ip.value_tests_asked:
                # the builders never look at the values of the potential: a zero potential is not a special case
                ctx.ob("R10.1", f"operators do not branch on the values of the potential ({desc0}, {'->'.join(seq)})", True,
                       detail={"value_tests": 0}, where=f_set.fq, construct=f"value tests in the builders ({desc0})")
                continue
            for attr, d in diffs.items():
                ctx.ob("R10.1", f"{attr}: {desc}, sequence {'->'.join(seq)}", not d,
                       detail={"diff": d, "stores": a.attrs[attr].sets, "refreshed": repr(a.attrs[attr])[:600]},
                       nontrivial=(seq[0] != seq[-1]) or len(seq) > 2,
                       where=f_set.fq, construct=f"{attr} refresh ({desc})", loc=loc(f_set, f_set.node),
                       message=f"in-place refresh of {attr} differs from a rebuild ({desc}, {'->'.join(seq)}): "
                               + "; ".join(d[:2]),
                       consequence="after the second vector-potential update the operator in use is stale or "
                                   "partially updated on the named block")
        # R10.2: unit-carrying blocks of the fresh build == positions written by the refresh
        desc = desc0
        ip, a, b, _, _ = same_atoms_diff(repo, fixed, fix_psi, ["A1", "A2"])
        for attr in ("psi_gradient", "psi_laplacian"):
            fresh_u = {k[:2] for k, v in b.attrs[attr].merged().items() if has_atom_kind(ip, v, "unit")}
            stored = set()
            for s_ in a.attrs[attr].sets:
                if s_.startswith("("):
                    stored.add(tuple(ast.literal_eval(s_.split(" mask=")[0])))
            if attr == "psi_laplacian" or fixed == "F":
                pass
            ctx.ob("R10.2", f"{attr}: link-variable blocks == refreshed blocks ({desc})", fresh_u == stored,
                   detail={"link_blocks": sorted(fresh_u), "refreshed": sorted(stored)},
                   where=f_set.fq, construct=f"{attr} refreshed positions ({desc})", loc=loc(f_set, f_set.node),
                   message=f"{attr}: blocks carrying the link variable {sorted(fresh_u)} != blocks refreshed {sorted(stored)}",
                   consequence="a link-variable entry is never refreshed (stale) or a link-free entry is overwritten")
    check_triggers(ctx)
    link_callers(ctx)
    baseline_writers(ctx)
    ctx.assume("scipy's sparse __setitem__ overwrites existing entries (R10.1 shows every refreshed position exists in the pattern)")
    ctx.decline("cupy branch of _spmatrix_set_many (GPU only); numerical equality in floating point")


# ---------------------------------------------------------------------------
# R10.5 refresh triggers in TDGLSolver.update
# ---------------------------------------------------------------------------

def update_roles(fn):
    """Locals of TDGLSolver.update identified by role (not by name): the induced potential is what get_induced_vector_potential
    returns first; the applied potential is what is remembered in self.current_A_applied."""
    induced = applied = None
    for n in own_nodes(fn):
        if isinstance(n, ast.Assign) and isinstance(n.value, ast.Call) and norm(n.value.func) == "self.get_induced_vector_potential":
            t = n.targets[0]
            if isinstance(t, ast.Tuple) and t.elts and isinstance(t.elts[0], ast.Name):
                induced = t.elts[0].id
        if isinstance(n, ast.Assign) and isinstance(n.value, ast.Name) and any(
                isinstance(t, ast.Attribute) and norm(t) == "self.current_A_applied" for t in n.targets):
            applied = n.value.id
    if induced is None or applied is None:
        raise AnalysisError("TDGLSolver.update: cannot identify the induced / applied potential locals by their roles")
    return induced, applied


def check_triggers(ctx):
    repo = ctx.repo
    fu = repo.func(SOLVER, "TDGLSolver.update")
    fn = fu.node
    induced, applied = update_roles(fn)
    pm = parent_map(fn)
    env = repo.local_types(fu)
    calls = []
    for n in own_nodes(fn):
        if isinstance(n, ast.Call):
            r = repo.resolve_call(fu, n, env)
            if getattr(r, "fq", None) == f"{OPS}:MeshOperators.set_link_exponents":
                calls.append(n)
    if len(calls) < 2:
        raise AnalysisError(f"expected >=2 set_link_exponents call sites in TDGLSolver.update, found {len(calls)}")
    ctx.note("refresh_call_sites", [f"L{c.lineno}: {norm(c)}" for c in calls])
    self_assigns = {}
    for n in own_nodes(fn):
        if isinstance(n, (ast.Assign, ast.AugAssign)):
            tg = n.targets if isinstance(n, ast.Assign) else [n.target]
            for t in tg:
                for x in ast.walk(t):
                    if isinstance(x, ast.Attribute) and isinstance(x.value, ast.Name) and x.value.id == "self" \
                            and isinstance(x.ctx, ast.Store):
                        self_assigns.setdefault(x.attr, []).append(n)
    seen_dynamic = seen_screening = False
    for call in calls:
        stmt = call
        while not isinstance(stmt, ast.stmt):
            stmt = pm[id(stmt)][0]
        guards = guards_of(fn, stmt, pm)
        arg_names = {x.id for a in call.args for x in ast.walk(a) if isinstance(x, ast.Name)}
        value_guards = []
        flags = []
        for g, br in guards:
            if isinstance(g, ast.If):
                names = {x.id for x in ast.walk(g.test) if isinstance(x, ast.Name)}
                if names & arg_names:
                    value_guards.append((g, br))
                else:
                    flags.append(f"{norm(g.test)} is {br}")
        inst = f"L{call.lineno} {norm(call)} under [{'; '.join(flags)}]"
        if induced in arg_names:
            seen_screening = True
            ok = not value_guards and any("include_screening" in f for f in flags) and \
                any(isinstance(g, (ast.For, ast.While)) for g, _ in guards)
            ctx.ob("R10.5", f"screening refresh unconditional inside the loop: {inst}", ok,
                   detail={"guards": flags, "value_guards": [norm(g.test) for g, _ in value_guards]},
                   where=fu.fq, construct=norm(call), loc=loc(fu, call),
                   message="the per-iteration screening refresh is guarded by a value comparison or is outside the loop",
                   consequence="a screening iteration runs with link variables of an earlier induced potential")
            continue
        seen_dynamic = True
        if not value_guards:
            ctx.ob("R10.5", f"refresh unconditional w.r.t. values: {inst}", True, detail={"guards": flags},
                   where=fu.fq, construct=norm(call))
            continue
        for g, br in value_guards:
            cmp_calls = [c for c in ast.walk(g.test) if isinstance(c, ast.Call) and isinstance(c.func, ast.Attribute)]
            kinds = {c.func.attr for c in cmp_calls}
            has_ne = any(isinstance(c, ast.Compare) and any(isinstance(o, (ast.NotEq, ast.Eq)) for o in c.ops)
                         for c in ast.walk(g.test))
            baselines = {x.attr for x in ast.walk(g.test)
                         if isinstance(x, ast.Attribute) and isinstance(x.value, ast.Name) and x.value.id == "self"
                         and x.attr not in ("xp",)}
            if kinds & TOLERANT_CMP:
                # baseline must be reassigned only on the path that performs the refresh
                bad = []
                for bname in sorted(baselines):
                    for a in self_assigns.get(bname, []):
                        ag = guards_of(fn, a, pm)
                        if not any(gg is g and bb == br for gg, bb in ag):
                            bad.append(f"L{a.lineno}: {norm(a)}")
                ok = not bad and bool(baselines)
                ctx.ob("R10.5", f"tolerance-guarded refresh keeps its baseline: {inst}", ok,
                       detail={"guard": norm(g.test), "baseline": sorted(baselines), "baseline_reassigned_outside": bad},
                       where=fu.fq, construct=f"if {norm(g.test)}: {norm(call)}", loc=loc(fu, g),
                       message=f"refresh is skipped when `{norm(g.test)}` is false (tolerance test) but the baseline "
                               f"{sorted(baselines)} is overwritten regardless at {bad}: sub-tolerance changes are "
                               f"dropped and forgotten",
                       consequence="a vector potential ramped by less than rtol=1e-5 per step never refreshes the "
                                   "link variables (e.g. LinearRamp over 20000 steps: 0 refreshes, stale operators)",
                       witness={"guard": norm(g.test), "baseline_writes": bad})
            elif (kinds & EXACT_CMP) or has_ne:
                # the remembered baseline must be brought up to date on every path after the guard, otherwise a potential
                # that later returns to the stale baseline is taken for "unchanged"
                from ..cfg import build_cfg
                cfg = build_cfg(fn)
                gnode = cfg.node_of(g).id
                argtxt = norm(call.args[0]) if call.args else "?"
                upd = [cfg.node_of(a).id for bname in sorted(baselines) for a in self_assigns.get(bname, [])
                       if isinstance(a, ast.Assign) and norm(a.value) == argtxt]
                wit = cfg.path(gnode, cfg.exit, skip=upd, skip_edges=("exc",))
                ctx.ob("R10.5", f"exactly-guarded refresh keeps its baseline current: {inst}", wit is None and bool(baselines),
                       detail={"guard": norm(g.test), "baseline": sorted(baselines),
                               "path_without_baseline_update": cfg.describe_path(wit)[-8:] if wit else None},
                       where=fu.fq, construct=f"if {norm(g.test)}: {norm(call)} [baseline update]", loc=loc(fu, g),
                       message=f"after `if {norm(g.test)}` there is a path to the end of update() on which the baseline "
                               f"{sorted(baselines)} is not set to `{argtxt}`: the reference goes stale",
                       consequence="a vector potential that changes and later returns to the stale reference value (pulse 0 -> B -> 0) "
                                   "is taken for unchanged and the operators of the previous value stay in use",
                       witness={"path": cfg.describe_path(wit)[-8:] if wit else None})
            else:
                ctx.ob("R10.5", f"refresh guard of unknown kind: {inst}", False, detail={"guard": norm(g.test)},
                       where=fu.fq, construct=f"if {norm(g.test)}: {norm(call)}", loc=loc(fu, g),
                       message=f"refresh guarded by `{norm(g.test)}`, which is neither an exact nor a recognised "
                               f"tolerance comparison",
                       consequence="cannot show the operators follow the vector potential")
    ctx.ob("R10.5", "update() refreshes the operators both for a time-dependent applied potential and for the induced potential",
           seen_dynamic and seen_screening, detail={"dynamic_site": seen_dynamic, "screening_site": seen_screening,
                                                    "calls": [norm(c) for c in calls]},
           where=fu.fq, construct="refresh sites of update()", loc=loc(fu, fn),
           message="one of the two refresh sites (applied potential / applied + induced potential) is missing",
           consequence="operators are never refreshed for one kind of vector-potential change")
    screening_staleness(ctx, fu, calls)


def screening_staleness(ctx, fu, calls):
    """R10.6: with screening on, the psi update always runs with link variables of the latest induced potential."""
    from ..cfg import build_cfg
    fn = fu.node
    induced, applied = update_roles(fn)
    cfg = build_cfg(fn)
    euler = [n for n in cfg.nodes if n.kind == "stmt" and n.ast is not None and any(
        isinstance(c, ast.Call) and norm(c.func) == "self.adaptive_euler_step" for c in ast.walk(n.ast))]
    if len(euler) != 1:
        raise AnalysisError("update() no longer has exactly one adaptive_euler_step call")
    E = euler[0].id
    refresh = []
    for c in calls:
        names = {x.id for a in c.args for x in ast.walk(a) if isinstance(x, ast.Name)}
        if induced in names and applied in names:
            for n in cfg.nodes:
                if n.kind == "stmt" and n.ast is not None and any(x is c for x in ast.walk(n.ast)):
                    refresh.append(n.id)
    defs = [n for n in cfg.nodes if n.kind == "stmt" and isinstance(n.ast, ast.Assign) and any(
        isinstance(x, ast.Name) and x.id == induced and isinstance(x.ctx, ast.Store) for t in n.ast.targets for x in ast.walk(t))]
    # prune the branches on which screening is off
    off = set()
    for n in cfg.nodes:
        if n.kind == "if" and n.ast is not None and norm(n.ast.test).endswith(".include_screening"):
            off |= {v for v, lab in cfg.succ[n.id] if lab == "false"}
    for d in defs:
        wit = cfg.path(d.id, E, skip=set(refresh) | off, skip_edges=("exc",))
        ctx.ob("R10.6", f"every path from `{norm(d.ast)[:60]}` to the psi update refreshes the link variables with current_A_applied + A_induced",
               wit is None and bool(refresh), detail={"refresh_sites": len(refresh), "path": cfg.describe_path(wit)[-8:] if wit else None},
               where=fu.fq, construct=f"A_induced defined at `{norm(d.ast)[:50]}` reaches the psi update", loc=loc(fu, d.ast),
               message="the order-parameter update can run with link variables that do not include the latest induced vector potential",
               consequence="with screening on, a step (or a screening iteration) uses stale covariant operators",
               witness={"path": cfg.describe_path(wit)[-8:] if wit else None})


# ---------------------------------------------------------------------------
# R10.7 operators built without link variables and refreshed later
# ---------------------------------------------------------------------------

def none_then_array_unsafe(repo):
    """Is set_link_exponents(None) followed by set_link_exponents(A) different from a fresh build for A?  (derived, not assumed)"""
    T, ip = new_interp(repo)
    mesh = mesh_model(repo, ip)
    mo_cls = repo.cls(OPS, "MeshOperators")
    mo = ip.construct(mo_cls, [mesh, EnumVal("SparseSolver.SUPERLU")], {"fixed_sites": Idx("F", "fixed", "site"), "fix_psi": True})
    ip.call_method(mo, "build_operators", [], {})
    try:
        ip.call_method(mo, "set_link_exponents", [None], {})
        ip.call_method(mo, "set_link_exponents", [Field("A2", "edge", comps=2)], {})
    except AnalysisError as e:
        return [f"not analysable: {e}"]
    return [s for attr in ("psi_gradient", "psi_laplacian") for s in mo.attrs[attr].sets if s.startswith("!")]


def link_callers(ctx, rule="R10.7"):
    from ..dataflow import expand
    repo = ctx.repo
    unsafe = none_then_array_unsafe(repo)
    ctx.note("none_then_array", unsafe[:2])
    sites = 0
    for fi in repo.all_functions():
        if fi.module.name.startswith("tdgl.test") or fi.fq.startswith(f"{OPS}:MeshOperators."):
            continue
        for n in own_nodes(fi.node):
            if isinstance(n, ast.Call) and isinstance(n.func, ast.Attribute) and n.func.attr == "set_link_exponents":
                sites += 1
                arg = n.args[0] if n.args else next((k.value for k in n.keywords if k.arg == "link_exponents"), None)
                ex = expand(fi.node, arg) if arg is not None else None
                cands = [ex]
                if isinstance(ex, ast.Name) and ex.id not in {a.arg for a in fi.node.args.args + fi.node.args.kwonlyargs}:
                    # several definitions: every one that reaches the call
                    from ..cfg import parent_map
                    from ..dataflow import reaching_values, stmt_of
                    vals = reaching_values(fi.node, ex.id, stmt_of(n, parent_map(fi.node)))
                    cands = [expand(fi.node, v) if v is not None else None for v in vals] or [ex]
                    ex = next((c for c in cands if c is not None and any(isinstance(x, ast.Constant) and x.value is None for x in ast.walk(c))), ex)
                may_none = any(c is None or any(isinstance(x, ast.Constant) and x.value is None for x in ast.walk(c)) for c in cands)
                ctx.ob(rule, f"{fi.qual} L{n.lineno}: {norm(n)} passes a vector potential, never None", not (may_none and unsafe),
                       detail={"argument": ast.unparse(ex) if ex is not None else None, "none_then_array": unsafe[:2]},
                       where=fi.fq, construct=f"set_link_exponents argument may be None in {fi.qual}", loc=loc(fi, n),
                       message=f"{norm(n)} can build the operators without link variables (argument `{ast.unparse(ex) if ex is not None else None}`): "
                               f"they are real-valued, and a later set_link_exponents(A) stores complex link variables into them: {unsafe[:1]}",
                       consequence="a run that starts with zero vector potential and later receives a non-zero one (time-dependent field, "
                                   "screening) keeps only the real part of the link variables: the refreshed operators differ from a rebuild")
    if sites < 3:
        raise AnalysisError(f"expected >=3 set_link_exponents call sites outside MeshOperators, found {sites}")


def baseline_writers(ctx):
    """R10.8: without screening the operators belong to `self.current_A_applied`; that pairing is established by __init__
    (build + store) and maintained by update() (guarded refresh + store).  Any other writer moves the reference without the operators."""
    repo = ctx.repo
    cls = repo.cls(SOLVER, "TDGLSolver")
    writers = {}
    for name, f in cls.methods.items():
        for n in own_nodes(f.node):
            if isinstance(n, ast.Attribute) and isinstance(n.ctx, (ast.Store, ast.Del)) and n.attr == "current_A_applied" and norm(n.value) == "self":
                writers.setdefault(name, []).append(n)
            if isinstance(n, ast.Call) and getattr(n.func, "id", "") == "setattr" and len(n.args) >= 2 and isinstance(n.args[1], ast.Constant) \
                    and n.args[1].value == "current_A_applied":
                writers.setdefault(name, []).append(n)
    for name, nodes in sorted(writers.items()):
        ok = name in ("__init__", "update")
        f = cls.methods[name]
        ctx.ob("R10.8", f"TDGLSolver.{name} writes self.current_A_applied", ok, where=f.fq, construct=f"self.current_A_applied written in {name}",
               loc=loc(f, nodes[0]), message=f"TDGLSolver.{name} moves the reference potential `self.current_A_applied` (L{nodes[0].lineno}) without "
                                             f"being the place where the operators are refreshed",
               consequence="the 'has A changed?' guard of update() compares with a value the operators were not built for: when solve() is called "
                           "again on the same solver the link variables of the previous run stay in use until A(t) first departs from A(0)")
    if set(writers) & {"__init__", "update"} != {"__init__", "update"}:
        raise AnalysisError(f"expected __init__ and update to write self.current_A_applied, found {sorted(writers)}")
