"""C03 - discrete calculus identities of the finite-volume operators.

Every obligation is an identity between symbolic COO blocks extracted from the
builders' current source by abstract interpretation; it holds for every mesh
at once or not at all.
"""
from __future__ import annotations

import ast

from ..alg import Rat, sign_of
from ..interp import EnumVal, Field, Obj, Opaque, Unsupported
from ..model import mesh_model, new_interp
from ..ops import area_scaled, column_sums, hermitian_defects, mat_diff, row_sums, has_atom_kind
from ..src import loc, AnalysisError

OPS = "tdgl.finite_volume.operators"
LEVEL = "proof"
TECH = "COO block algebra over abstractly interpreted operator builders (ast); exact rational normal forms"


def build_all(ctx):
    """Interpret the four builders and MeshOperators on the abstract mesh."""
    repo = ctx.repo
    T, ip = new_interp(repo)
    mesh = mesh_model(repo, ip)
    f_div = repo.func(OPS, "build_divergence")
    f_grad = repo.func(OPS, "build_gradient")
    f_lap = repo.func(OPS, "build_laplacian")
    f_neu = repo.func(OPS, "build_neumann_boundary_laplacian")
    A = Field("A", "edge", comps=2)
    out = dict(T=T, ip=ip, mesh=mesh, A=A, f_div=f_div, f_grad=f_grad, f_lap=f_lap, f_neu=f_neu)
    out["D"] = ip.call_function(f_div, [mesh], {})
    out["G"] = ip.call_function(f_grad, [mesh], {})
    out["L"], _ = ip.call_function(f_lap, [mesh], {})
    out["B"] = ip.call_function(f_neu, [mesh], {})
    out["GA"] = ip.call_function(f_grad, [mesh], {"link_exponents": A})
    out["LA"], _ = ip.call_function(f_lap, [mesh], {"link_exponents": A})
    # MeshOperators as the solver constructs it for mu (no fixed sites involved in mu operators)
    mo_cls = repo.cls(OPS, "MeshOperators")
    from ..interp import Idx
    mo = ip.construct(mo_cls, [mesh, EnumVal("SparseSolver.SUPERLU")],
                      {"fixed_sites": Idx("F", "fixed", "site"), "fix_psi": True})
    ip.call_method(mo, "build_operators", [], {})
    out["mo"] = mo
    ctx.note("functions", [f.fq for f in (f_div, f_grad, f_lap, f_neu)] + [mo_cls.fq + ".__init__",
                                                                          mo_cls.fq + ".build_operators"])
    return out


def check(ctx):
    ctx.rule("R03.10", "a mesh restored from a file carries the quantities the operators are built from under their own names: edge lengths, dual edge "
                       "lengths, directions, areas are read back into the attributes they were written from (shared with C14 R14.1 / R14.12)", 4)
    ctx.rule("R03.9", "the solver builds the operators it uses with pinning exactly when a terminal value is configured "
                      "(so that R03.5 speaks about the operators in use)", 1)
    ctx.rule("R03.8", "Mesh/EdgeMesh geometry (sites, edges, lengths, dual lengths, areas) is written by the constructors only", 1)
    ctx.rule("R03.1", "Laplacian (no link variable) == divergence @ gradient, as merged COO blocks; for every sparse-solver backend "
                      "build_operators leaves the same mu_laplacian (format conversions only)", 4)
    ctx.rule("R03.2", "column sums of diag(areas) @ divergence vanish", 1)
    ctx.rule("R03.3", "column sums of diag(areas) @ boundary-flux matrix equal the boundary edge length", 1)
    ctx.rule("R03.4", "diag(areas) @ Laplacian is the weighted graph Laplacian: per edge W*[[-1,1],[1,-1]], W = dual/edge length, zero row sums", 5)
    ctx.rule("R03.5", "diag(areas) @ covariant Laplacian is Hermitian; diagonal real and link-free", 2)
    ctx.rule("R03.6", "gradient row k is (f[e1]-f[e0])/len with len = |sites[e1]-sites[e0]| and directions = sites[e1]-sites[e0]", 4)
    ctx.rule("R03.7", "MeshOperators passes the same weights the builders default to", 3)
    b = build_all(ctx)
    ip, T, mesh = b["ip"], b["T"], b["mesh"]
    areas = mesh.attrs["areas"]
    s, l = T.real("s", "pos"), T.real("l", "pos")
    W = s / l
    fl, fd, fg, fn = b["f_lap"], b["f_div"], b["f_grad"], b["f_neu"]

    # R03.1
    DG = ip.matmul(b["D"], b["G"])
    d = mat_diff(b["L"], DG)
    ctx.ob("R03.1", "build_laplacian(mesh) == build_divergence(mesh) @ build_gradient(mesh)", not d,
           detail={"L": repr(b["L"]), "D@G": repr(DG), "diff": d},
           where=fl.fq, construct="laplacian == divergence @ gradient", loc=loc(fl, fl.node),
           message="Laplacian is not the divergence of the gradient: " + "; ".join(d[:2]),
           consequence="for a non-constant site field f, L f differs from D(G f) on every interior edge")
    mo = b["mo"]
    DG2 = ip.matmul(mo.attrs["divergence"], mo.attrs["mu_gradient"])
    d = mat_diff(mo.attrs["mu_laplacian"], DG2)
    fbo = ctx.repo.func(OPS, "MeshOperators.build_operators")
    # every backend branch of build_operators: the operator kept in self.mu_laplacian is the same matrix
    from ..interp import Idx as _Idx
    enum = ctx.repo.cls("tdgl.finite_volume.operators", "SparseSolver") if "SparseSolver" in ctx.repo.module(OPS).classes else None
    members = []
    for m_ in ctx.repo.modules.values():
        if "SparseSolver" in m_.classes:
            members = [(st.targets[0] if isinstance(st, ast.Assign) else st.target).id for st in m_.classes["SparseSolver"].node.body
                       if isinstance(st, (ast.Assign, ast.AnnAssign)) and isinstance(st.targets[0] if isinstance(st, ast.Assign) else st.target, ast.Name)]
    backends = 0
    for mem in members:
        if mem == "CUPY":
            continue          # GPU only (declined)
        ip_b = b["ip"]
        try:
            mo_b = ip_b.construct(ctx.repo.cls(OPS, "MeshOperators"), [b["mesh"], EnumVal(f"SparseSolver.{mem}")],
                                  {"fixed_sites": _Idx("F", "fixed", "site"), "fix_psi": True})
            ip_b.call_method(mo_b, "build_operators", [], {})
            db = mat_diff(mo_b.attrs["mu_laplacian"], b["L"])
            err = None
        except AnalysisError as e:
            db, err = [f"not analysable: {e}"], str(e)
        backends += 1
        ctx.ob("R03.1", f"sparse_solver={mem}: mu_laplacian after build_operators == build_laplacian(mesh)", not db, detail=db[:3],
               where=f"{OPS}:MeshOperators.build_operators", construct=f"mu_laplacian for the {mem} backend", loc=loc(b["f_lap"], b["f_lap"].node),
               message=f"with sparse_solver={mem} build_operators leaves a different mu_laplacian: {db[:2]}",
               consequence="for that backend the scalar Laplacian is not divergence @ gradient (e.g. its transpose W diag(1/a) instead of diag(1/a) W): "
                           "constants are not in its kernel and diag(areas) L is not symmetric")
    if backends < 2:
        raise AnalysisError(f"only {backends} sparse-solver backends found")
    ctx.ob("R03.1", "MeshOperators.mu_laplacian == divergence @ mu_gradient", not d,
           detail={"diff": d}, where=fbo.fq, construct="mu_laplacian == divergence @ mu_gradient",
           loc=loc(fbo, fbo.node),
           message="mu_laplacian is not divergence @ mu_gradient: " + "; ".join(d[:2]),
           consequence="the Poisson solve no longer enforces div(Js+Jn)=0")

    # R03.2
    cs = column_sums(area_scaled(ip, b["D"], areas))
    bad = {c: str(v) for c, v in cs.items() if not v.is_zero()}
    ctx.ob("R03.2", "sum_i a_i D[i,k] == 0 for every edge k", not bad and bool(b["D"].blocks),
           detail={"column_sums": {c: str(v) for c, v in cs.items()}, "blocks": repr(b["D"])},
           where=fd.fq, construct="column sums of diag(areas) @ divergence", loc=loc(fd, fd.node),
           message=f"area-weighted divergence does not telescope: {bad}",
           consequence="the area-weighted sum of div F is non-zero for the edge field F = indicator of one edge")

    # R03.3
    lb = ip.gather(mesh.attrs["edge_mesh"].attrs["edge_lengths"], mesh.attrs["edge_mesh"].attrs["boundary_edge_indices"])
    cs = column_sums(area_scaled(ip, b["B"], areas))
    bad = {c: str(v) for c, v in cs.items() if not (v == lb)}
    ctx.ob("R03.3", "sum_i a_i B[i,b] == length of boundary edge b", not bad and bool(b["B"].blocks),
           detail={"column_sums": {c: str(v) for c, v in cs.items()}, "expected": str(lb)},
           where=fn.fq, construct="column sums of diag(areas) @ neumann_boundary_laplacian",
           loc=loc(fn, fn.node), message=f"boundary flux does not integrate to edge length x flux: {bad}",
           consequence="a unit flux on one boundary edge injects a current different from the edge length")

    # R03.4
    sc = area_scaled(ip, b["L"], areas)
    expect = {("e0", "e1", None): W, ("e1", "e0", None): W, ("e0", "e0", None): -W, ("e1", "e1", None): -W}
    for k, ev in expect.items():
        v = sc.get(k)
        ok = v is not None and v == ev
        ctx.ob("R03.4", f"(diag(a) L)[{k[0]},{k[1]}] == {'+' if ev == W else '-'}s/l", ok,
               detail={"got": str(v), "expected": str(ev)}, where=fl.fq,
               construct=f"stencil entry ({k[0]},{k[1]})", loc=loc(fl, fl.node),
               message=f"stencil entry ({k[0]},{k[1]}) of diag(areas)@laplacian is {v}, expected {ev}",
               consequence="the scalar Laplacian is not symmetric negative semi-definite in the area inner product")
    extra = [k for k in sc if k not in expect]
    rs = row_sums(b["L"])
    bad = {r: str(v) for r, v in rs.items() if not v.is_zero()}
    ctx.ob("R03.4", "row sums of the Laplacian vanish and no extra blocks", not bad and not extra,
           detail={"row_sums": {r: str(v) for r, v in rs.items()}, "extra_blocks": [str(e) for e in extra],
                   "W_sign": sign_of(W)},
           where=fl.fq, construct="row sums of laplacian", loc=loc(fl, fl.node),
           message=f"Laplacian does not annihilate constants: row sums {bad}, extra blocks {extra}",
           consequence="a constant potential produces a non-zero Laplacian (spurious current sources)")

    # R03.5
    sc = area_scaled(ip, b["LA"], areas)
    defects = hermitian_defects(sc)
    ctx.ob("R03.5", "diag(a) L(A) is Hermitian", not defects,
           detail={"blocks": {str(k): str(v) for k, v in sc.items()}, "defects": defects},
           where=fl.fq, construct="hermitian(diag(areas) @ laplacian(link_exponents))", loc=loc(fl, fl.node),
           message="covariant Laplacian is not Hermitian in the area inner product: " + "; ".join(defects[:2]),
           consequence="the covariant kinetic term is no longer self-adjoint: |psi| norm drifts under a pure gauge field")
    offd = [v for (r, c, m), v in sc.items() if r != c]
    dia = [v for (r, c, m), v in sc.items() if r == c]
    ok = bool(offd) and all(has_atom_kind(ip, v, "unit") for v in offd) and \
        all(not has_atom_kind(ip, v, "unit") for v in dia)
    ctx.ob("R03.5", "off-diagonal blocks carry the link variable, diagonal blocks do not", ok,
           detail={"offdiag": [str(v) for v in offd], "diag": [str(v) for v in dia]},
           where=fl.fq, construct="link variable placement", loc=loc(fl, fl.node),
           message="link variable is not on exactly the off-diagonal blocks",
           consequence="the vector potential does not enter the Laplacian as a Peierls phase on links")

    # R03.6
    g = b["G"].merged()
    one_l = Rat.const(T, 1) / l
    okp = g.get(("k", "e1", None)) is not None and g[("k", "e1", None)] == one_l
    okm = g.get(("k", "e0", None)) is not None and g[("k", "e0", None)] == -one_l
    ctx.ob("R03.6", "gradient row k = +1/l at e1, -1/l at e0", okp and okm and len(g) == 2,
           detail={"blocks": {str(k): str(v) for k, v in g.items()}}, where=fg.fq,
           construct="gradient blocks", loc=loc(fg, fg.node),
           message=f"gradient row is not (f[e1]-f[e0])/l: {g}",
           consequence="the gradient of a linear function f = p.x is not p.e_hat on some edge")
    # geometry of the edge mesh: directions / lengths / centres from the site pairs
    ffm = ctx.repo.func("tdgl.finite_volume.edge_mesh", "EdgeMesh.from_mesh")
    T2, ip2 = new_interp(ctx.repo)
    sites = Field("sites", "site", comps=2)
    ip2.func_overrides["tdgl.finite_volume.util:get_edges"] = \
        lambda I, a, k: (Field("e", "edge", kind="index", comps=2), Opaque("is_boundary"))
    ip2.func_overrides["tdgl.finite_volume.util:get_dual_edge_lengths"] = \
        lambda I, a, k: Field("s", "edge", sign="pos")
    em = ip2.call_function(ffm, [sites, Opaque("elements"), Opaque("dual_sites")], {})
    x0, y0 = T2.real("sites@e0.x"), T2.real("sites@e0.y")
    x1, y1 = T2.real("sites@e1.x"), T2.real("sites@e1.y")
    dirs = em.attrs["directions"]
    ok = hasattr(dirs, "x") and dirs.x == x1 - x0 and dirs.y == y1 - y0
    ctx.ob("R03.6", "EdgeMesh.directions == sites[e1] - sites[e0] (same orientation as the gradient columns)",
           ok, detail={"directions": repr(dirs)}, where=ffm.fq, construct="directions", loc=loc(ffm, ffm.node),
           message=f"edge directions are {dirs!r}, not sites[e1]-sites[e0]",
           consequence="link variables and gradients use opposite edge orientations: supercurrent changes sign")
    el = em.attrs["edge_lengths"]
    exp_len = T2.sqrt_of((x1 - x0) * (x1 - x0) + (y1 - y0) * (y1 - y0))
    ctx.ob("R03.6", "EdgeMesh.edge_lengths == |sites[e1] - sites[e0]|", isinstance(el, Rat) and el == exp_len,
           detail={"edge_lengths": repr(el)}, where=ffm.fq, construct="edge_lengths", loc=loc(ffm, ffm.node),
           message=f"edge lengths are {el!r}, not the Euclidean length of the edge vector",
           consequence="the gradient of a linear function is scaled wrongly")
    ctr = em.attrs["centers"]
    half = Rat.const(T2, 1) / 2
    ok = hasattr(ctr, "x") and ctr.x == (x0 + x1) * half and ctr.y == (y0 + y1) * half
    ctx.ob("R03.6", "EdgeMesh.centers == midpoint of the site pair", ok, detail={"centers": repr(ctr)},
           where=ffm.fq, construct="centers", loc=loc(ffm, ffm.node),
           message=f"edge centres are {ctr!r}, not the midpoints",
           consequence="vector potentials are sampled off the edge midpoint: flux per triangle is wrong")

    # R03.7
    fi_init = ctx.repo.func(OPS, "MeshOperators.__init__")
    gw, lw = mo.attrs["gradient_weights"], mo.attrs["laplacian_weights"]
    ctx.ob("R03.7", "MeshOperators.gradient_weights == 1/edge_lengths", isinstance(gw, Rat) and gw == one_l,
           detail=str(gw), where=fi_init.fq, construct="gradient_weights", loc=loc(fi_init, fi_init.node),
           message=f"gradient_weights = {gw}", consequence="mu_gradient differs from build_gradient(mesh)")
    ctx.ob("R03.7", "MeshOperators.laplacian_weights == dual_edge_lengths/edge_lengths",
           isinstance(lw, Rat) and lw == W, detail=str(lw), where=fi_init.fq, construct="laplacian_weights",
           loc=loc(fi_init, fi_init.node), message=f"laplacian_weights = {lw}",
           consequence="mu_laplacian differs from divergence @ gradient")
    d1 = mat_diff(mo.attrs["mu_gradient"], b["G"])
    d2 = mat_diff(mo.attrs["mu_laplacian"], b["L"])
    d3 = mat_diff(mo.attrs["divergence"], b["D"])
    d4 = mat_diff(mo.attrs["mu_boundary_laplacian"], b["B"])
    ctx.ob("R03.7", "MeshOperators' mu operators equal the default-built operators (no fixed rows, no link variable)",
           not (d1 or d2 or d3 or d4), detail={"gradient": d1, "laplacian": d2, "divergence": d3, "boundary": d4},
           where=fbo.fq, construct="mu operators == default builders", loc=loc(fbo, fbo.node),
           message="mu operators are built with extra arguments: " + "; ".join((d1 + d2 + d3 + d4)[:2]),
           consequence="an identity row or link variable in the mu operators is a hidden current source")
    from ..report import Shared
    from . import c14
    sh = Shared(ctx, {"R14.12": "R03.10", "R14.1": "R03.10"}, only=lambda inst: inst.startswith(("EdgeMesh", "Mesh")),
                consequence="operators built on a device or mesh reloaded from HDF5 use swapped or missing geometry (e.g. dual edge lengths in "
                            "place of edge lengths): gradient, divergence and Laplacian no longer satisfy the discrete identities")
    c14.roundtrips(sh)
    c14.key_attribute_agreement(sh)
    ctx.decline("positivity of dual edge lengths / connectivity of the mesh (geometric runtime facts); "
                "negative semi-definiteness and kernel=constants follow from the checked stencil form for W>0 on a connected mesh")
    from .c06 import wiring
    wiring(ctx, "R03.9", only_flag=True)
    from ..effects import mesh_immutable
    mesh_immutable(ctx, "R03.8", 'the mesh the operators are built from no longer matches its own edge lengths, dual edge lengths and areas (computed once from the old vertex positions): gradient, divergence and Laplacian built on it are no longer exact/conservative')
    ctx.assume("numpy/scipy primitives behave as tabulated in pvs/interp.py (concatenate, COO duplicate summation, einsum 'ij,ij->i', exp, isin)")
    ctx.assume("exact real/complex arithmetic; floating-point rounding of the assembled matrices is not bounded")
