"""C09 - determinism: effect audit of every nondeterminism source in the library."""
from __future__ import annotations

import ast
from typing import Dict, List, Set, Tuple

from ..alg import AtomTable
from ..cfg import guards_of, parent_map
from ..kernel import KernelError, summarise
from ..src import AnalysisError, FuncInfo, loc, norm, own_nodes

TECH = ("whole-library effect audit: enumeration of nondeterminism sources with intra-procedural taint to allowed sinks, "
        "consumer classification of every set expression, race/reduction-order rules on every numba.prange loop, "
        "coverage rule for every np.empty allocation")

SOURCE_PAT = {
    "random": lambda t: "random" in t.split(".") or t.endswith("default_rng") or t.startswith("random."),
    "clock": lambda t: t.endswith(("datetime.now", "datetime.utcnow", "datetime.today", "time.time", "time.perf_counter",
                                   "time.monotonic", "time.time_ns", "perf_counter")),
    "hash": lambda t: t in ("hash", "id"),
    "process": lambda t: t.endswith(("getpid", "urandom", "uuid4", "uuid1", "gethostname")),
    "derived": lambda t: t.endswith("._hash_args"),
}
ALLOWED_KEYS = {"timestamp", "_time_created", "time_created", "total_seconds"}
FLOOR = {"random": 1, "clock": 6, "hash": 2}


def source_kind(call: ast.Call):
    t = norm(call.func)
    for k, p in SOURCE_PAT.items():
        if p(t):
            return k
    return None


def taint_function(fi: FuncInfo):
    """-> (source calls [(kind, node)], problems [text])"""
    fn = fi.node
    pm = parent_map(fn)
    sources = [(source_kind(n), n) for n in own_nodes(fn) if isinstance(n, ast.Call) and source_kind(n)]
    # drop calls that are sub-expressions of another source call (np.random.default_rng().random)
    inner = set()
    for k, n in sources:
        for m in ast.walk(n):
            if m is not n and isinstance(m, ast.Call) and source_kind(m):
                inner.add(id(m))
    sources = [(k, n) for k, n in sources if id(n) not in inner]
    if not sources:
        return [], []
    src_ids = {id(n) for _, n in sources}
    tainted: Set[str] = set()

    def expr_tainted(e):
        # values handed to an exempt keyword (total_seconds=...) do not taint the result
        skip = set()
        for x in ast.walk(e):
            if isinstance(x, ast.keyword) and x.arg in ALLOWED_KEYS:
                skip |= {id(y) for y in ast.walk(x.value)}
        for x in ast.walk(e):
            if id(x) in skip:
                continue
            if id(x) in src_ids:
                return True
            if isinstance(x, ast.Name) and isinstance(x.ctx, ast.Load) and x.id in tainted:
                return True
        return False
    changed = True
    while changed:
        changed = False
        for n in own_nodes(fn):
            tg, val = [], None
            if isinstance(n, ast.Assign):
                tg, val = n.targets, n.value
            elif isinstance(n, ast.For):
                tg, val = [n.target], n.iter
            elif isinstance(n, ast.AugAssign):
                tg, val = [n.target], n.value
            if val is not None and expr_tainted(val):
                for t in tg:
                    for x in ast.walk(t):
                        if isinstance(x, ast.Name) and isinstance(x.ctx, ast.Store) and x.id not in tainted:
                            tainted.add(x.id)
                            changed = True
    problems = []
    uses = [n for _, n in sources] + [n for n in own_nodes(fn) if isinstance(n, ast.Name) and isinstance(n.ctx, ast.Load) and n.id in tainted]
    for u in uses:
        ok = False
        cur = u
        why = ""
        while id(cur) in pm and not ok:
            par, fld = pm[id(cur)]
            if isinstance(par, ast.Call):
                f = norm(par.func)
                if ".logger." in "." + f or f.startswith("logger.") or f.endswith((".info", ".warning", ".debug")):
                    ok = True
                    break
                for k in par.keywords:
                    if k.value is cur and k.arg in ALLOWED_KEYS:
                        ok = True
            if isinstance(par, ast.Compare) and any(isinstance(c, ast.Constant) and c.value is None for c in [par.left] + par.comparators):
                ok = True
            # a cache key: membership test in / subscript of the cache (possibly through a local alias `cache = self._cache`)
            def is_cache(e):
                from ..dataflow import expanded_text
                return expanded_text(fn, e).split(".")[-1].lstrip("_").endswith("cache")
            if isinstance(par, ast.Compare) and any(is_cache(c) for c in par.comparators) and isinstance(par.ops[0], (ast.In, ast.NotIn)):
                ok = True
            if isinstance(par, ast.Subscript) and fld == "slice" and is_cache(par.value):
                ok = True
            if isinstance(par, ast.stmt):
                if isinstance(par, ast.Assign):
                    if all(isinstance(t, ast.Name) or (isinstance(t, ast.Tuple) and all(isinstance(e, ast.Name) for e in t.elts))
                           for t in par.targets):
                        ok = True
                    else:
                        keys = []
                        for t in par.targets:
                            if isinstance(t, ast.Attribute):
                                keys.append(t.attr)
                            elif isinstance(t, ast.Subscript) and isinstance(t.slice, ast.Constant):
                                keys.append(t.slice.value)
                            else:
                                keys.append(norm(t))
                        ok = all(k in ALLOWED_KEYS for k in keys)
                        why = f"stored into {keys}"
                elif isinstance(par, ast.For) and fld == "iter":
                    ok = True
                elif isinstance(par, ast.Expr):
                    ok = True       # value discarded: only a raise-or-continue decision can depend on it
                elif isinstance(par, (ast.Raise, ast.Assert)):
                    ok = True       # text of an error message
                elif isinstance(par, ast.If) and fld == "test" and not par.orelse and par.body and isinstance(par.body[-1], ast.Raise) \
                        and all(isinstance(b_, (ast.Raise, ast.Expr)) for b_ in par.body):
                    ok = True       # a raise-or-continue decision
                elif isinstance(par, ast.Return) and fi.qual.endswith("_hash_args"):
                    ok = True
                elif isinstance(par, ast.AugAssign) and isinstance(par.target, ast.Name):
                    ok = True
                else:
                    why = why or f"used in `{norm(par)[:60]}`"
                break
            cur = par
        if not ok:
            problems.append(f"L{getattr(u, 'lineno', '?')}: {norm(u)[:40]} {why}")
    return sources, problems


def check(ctx):
    repo = ctx.repo
    ctx.rule("R09.10", "the Solution that solve() returns is built on the file this run wrote (the data handler's output path), never on the requested "
                       "name - which may hold an earlier run (solve() followed to its end, pvs/tables.py)", 1)
    ctx.rule("R09.9", "no nested function or lambda modifies a variable captured from its enclosing function (no stateful closures)", 1)
    ctx.rule("R09.8", "no function writes module-level or class-level state (nothing survives from one run to the next inside a process)", 1)
    ctx.rule("R09.7", "mutable default arguments are never modified (a default object is shared by all calls in the process)", 1)
    ctx.rule("R09.6", "no function writes into an array it was handed (output-parameter table excepted): a run leaves its inputs as it found them", 1)
    ctx.rule("R09.1", "every nondeterminism source (random, clock, hash, process identity) flows only into log text, the exempt "
                      "timestamp fields, a cache key, or a raise/continue decision", 8)
    ctx.rule("R09.2", "sets are consumed only by membership, size, set algebra or comparison (iteration only into messages)", 8)
    ctx.rule("R09.3", "parallel loops: every array store is indexed first by the parallel index; every accumulator is private "
                      "to the iteration (no cross-iteration reduction)", 8)
    ctx.rule("R09.4", "every np.empty buffer is completely overwritten before it can be read", 7)
    ctx.rule("R09.5", "process environment is written only under the monitor switch", 1)
    counts: Dict[str, int] = {}
    nfun = 0
    for f in repo.all_functions():
        nfun += 1
        sources, problems = taint_function(f)
        for kind, n in sources:
            counts[kind] = counts.get(kind, 0) + 1
        if sources:
            ctx.ob("R09.1", f"{f.qual}: {', '.join(sorted({norm(n.func)[:40] for _, n in sources}))}", not problems,
                   detail={"sources": [f"L{n.lineno} {norm(n.func)}" for _, n in sources], "escapes": problems}, where=f.fq,
                   construct=f"nondeterministic value in {f.qual}", loc=loc(f, sources[0][1]),
                   message=f"a nondeterministic value escapes into the computation: {problems}",
                   consequence="two runs with identical inputs record different data")
    ctx.note("functions_scanned", nfun)
    ctx.note("source_counts", counts)
    for k, fl in FLOOR.items():
        if counts.get(k, 0) < fl:
            raise AnalysisError(f"only {counts.get(k, 0)} {k} sources found, {fl} confirmed by hand: the source patterns no longer match")
    sets(ctx)
    parallel(ctx)
    empties(ctx)
    returned_file(ctx)
    # R09.5
    stores = []
    for f in repo.all_functions():
        pm = parent_map(f.node)
        for n in own_nodes(f.node):
            if isinstance(n, ast.Subscript) and norm(n.value) == "os.environ" and isinstance(n.ctx, ast.Store):
                st = n
                while not isinstance(st, ast.stmt):
                    st = pm[id(st)][0]
                g = [norm(x.test) for x, br in guards_of(f.node, st, pm) if isinstance(x, ast.If) and br == "true"]
                stores.append((f.fq, n.lineno, g))
    ok = all(any("monitor" in t for t in g) for _, _, g in stores)
    ctx.ob("R09.5", "os.environ writes", ok, detail=stores, where="repo", construct="os.environ stores",
           message=f"environment written unconditionally: {stores}", consequence="a run changes the behaviour of later runs in the same process")
    from ..effects import mutable_defaults
    mutable_defaults(ctx, "R09.7", "the result of a call depends on how often the function was called before in the same process: "
                                   "a repeated run is not bit-identical to the first")
    from ..effects import no_global_state
    no_global_state(ctx, "R09.8", "a second run in the same process sees what the first run left behind (a cache, a counter): "
                                  "its results differ from the same run in a fresh process")
    from ..effects import no_stateful_closures
    no_stateful_closures(ctx, "R09.9", "what a stored callable returns depends on the calls made before - including the calls the validator makes at "
                                       "randomly drawn times - so two runs with identical inputs differ")
    from ..effects import input_purity
    input_purity(ctx, "R09.6", 'solving overwrites an array owned by the caller (e.g. the induced vector potential of the seed Solution): the same call repeated in the same process starts from different data, so repeated runs are no longer bit-identical')
    ctx.assume("Triangle, SuperLU, qhull, BLAS threading and numba's fastmath code generation are deterministic on one machine (external)")
    ctx.decline("bit-identical results across machines / library versions")


def sets(ctx):
    repo = ctx.repo
    n_sets = 0
    for f in repo.all_functions():
        pm = parent_map(f.node)
        # names bound to sets
        setnames = set()
        for n in own_nodes(f.node):
            if isinstance(n, (ast.Assign, ast.NamedExpr)):
                v = n.value
                if _is_set_expr(v):
                    tg = n.targets if isinstance(n, ast.Assign) else [n.target]
                    for t in tg:
                        if isinstance(t, ast.Name):
                            setnames.add(t.id)
        for n in own_nodes(f.node):
            is_set = _is_set_expr(n) or (isinstance(n, ast.Name) and isinstance(n.ctx, ast.Load) and n.id in setnames)
            if not is_set:
                continue
            if _is_set_expr(n):
                n_sets += 1
            par, fld = pm[id(n)]
            # a set is consumed order-dependently only by what enumerates it; every other consumer (membership, size, set
            # algebra, use as a dictionary key or as an argument of a hashing / comparing call ...) sees the set as a whole
            ok = True
            why = norm(par)[:70] if isinstance(par, ast.AST) else ""
            ORDERED = ("list", "tuple", "next", "iter", "enumerate", "zip", "map", "reversed", "sum", "array", "asarray", "fromiter",
                       "concatenate", "stack", "join", "fsum", "prod", "cumsum", "accumulate", "chain", "islice")
            if isinstance(par, ast.Call) and n in par.args and norm(par.func).split(".")[-1] in ORDERED:
                st = par
                while not isinstance(st, ast.stmt):
                    st = pm[id(st)][0]
                ok = isinstance(st, ast.Raise)          # enumerating a set into an error message is harmless
                why = f"{norm(par.func)}(set) enumerates the set"
            elif isinstance(par, ast.Starred):
                ok = False
                why = "unpacking a hash-ordered set"
            elif isinstance(par, ast.Attribute) and par.attr == "pop":
                ok = False
                why = "set.pop() returns an arbitrary element"
            elif isinstance(par, (ast.For, ast.comprehension)) and fld == "iter":
                ok = False
                why = "iteration over a hash-ordered set"
            ctx.ob("R09.2", f"{f.qual} L{n.lineno}: {norm(n)[:50]}", ok, detail={"consumer": why}, nontrivial=_is_set_expr(n),
                   where=f.fq, construct=f"{norm(n)[:50]} consumed by {why[:40]}", loc=loc(f, n),
                   message=f"a set is consumed order-dependently: {why}",
                   consequence="iteration order of str-keyed sets varies between processes (hash randomisation): results depend on the process")
    ctx.note("set_expressions", n_sets)


def _is_set_expr(n):
    if isinstance(n, (ast.Set, ast.SetComp)) or (isinstance(n, ast.Call) and norm(n.func) in ("set", "frozenset")):
        return True
    # set algebra: a - b, a | b, a & b, a ^ b with a set (or dict keys view) operand; .difference() etc. of a set
    if isinstance(n, ast.BinOp) and isinstance(n.op, (ast.Sub, ast.BitOr, ast.BitAnd, ast.BitXor)):
        def setlike(e):
            return _is_set_expr(e) or (isinstance(e, ast.Call) and isinstance(e.func, ast.Attribute) and e.func.attr == "keys")
        return _is_set_expr(n.left) or _is_set_expr(n.right) or (setlike(n.left) and setlike(n.right))
    if isinstance(n, ast.Call) and isinstance(n.func, ast.Attribute) and n.func.attr in (
            "difference", "union", "intersection", "symmetric_difference") and _is_set_expr(n.func.value):
        return True
    return False


def parallel(ctx):
    repo = ctx.repo
    n_par = 0
    for f in repo.all_functions():
        fn = f.node
        pm = parent_map(fn)
        for lp in own_nodes(fn):
            if not (isinstance(lp, ast.For) and isinstance(lp.iter, ast.Call) and norm(lp.iter.func).endswith("prange")):
                continue
            n_par += 1
            iv = lp.target.id
            bad = []
            assigned_inside = set()
            for n in ast.walk(lp):
                if isinstance(n, ast.Assign):
                    for t in n.targets:
                        if isinstance(t, ast.Name):
                            assigned_inside.add(t.id)
                if isinstance(n, ast.For) and isinstance(n.target, ast.Name):
                    assigned_inside.add(n.target.id)
            for n in ast.walk(lp):
                tgt = None
                if isinstance(n, ast.Assign):
                    tgts = n.targets
                elif isinstance(n, ast.AugAssign):
                    tgts = [n.target]
                else:
                    continue
                for t in tgts:
                    if isinstance(t, ast.Subscript):
                        idx = t.slice.elts[0] if isinstance(t.slice, ast.Tuple) else t.slice
                        if not (isinstance(idx, ast.Name) and idx.id == iv):
                            bad.append(f"L{n.lineno}: store `{norm(t)}` not indexed first by the parallel index `{iv}`")
                    elif isinstance(t, ast.Name) and isinstance(n, ast.AugAssign):
                        if t.id not in assigned_inside:
                            bad.append(f"L{n.lineno}: `{norm(n)[:50]}` accumulates into `{t.id}`, defined outside the parallel loop "
                                       f"(numba turns it into a reduction whose order depends on the schedule)")
            ctx.ob("R09.3", f"{f.qual}: prange over `{iv}`", not bad, detail=bad, where=f.fq, construct=f"prange loop in {f.qual}",
                   loc=loc(f, lp), message=f"parallel loop is not race-/order-free: {bad}",
                   consequence="results depend on the number of threads (race or schedule-dependent summation order)")
    # the cupy raw kernel
    fcu = repo.module("tdgl.solver.screening").functions.get("get_A_induced_cupy")
    if fcu is not None:
        T = AtomTable()
        try:
            sm = summarise(T, fcu.node)
            ok = all(st.index[:2] == ("v0", "v1") for st in sm.stores) and not sm.problems and all(d >= 2 for _, d, _ in sm.acc_inits)
        except KernelError as e:
            raise AnalysisError(f"cupy kernel: {e}")
        ctx.ob("R09.3", "cupy kernel: one thread per output element, private accumulator", ok, where=fcu.fq,
               construct="cupy kernel privacy", message="cupy kernel shares state between threads", consequence="GPU results depend on scheduling")
        n_par += 1
    ctx.note("parallel_loops", n_par)


def empties(ctx):
    repo = ctx.repo
    n_e = 0
    for f in repo.all_functions():
        for n in own_nodes(f.node):
            if not (isinstance(n, ast.Call) and norm(n.func).endswith(".empty")):
                continue
            n_e += 1
            filled = _filled_by_enumerate_loop(f, n)
            if filled is not None:
                ok_, det_ = filled
                ctx.ob("R09.4", f"{f.qual}: {norm(n)[:50]} is filled element by element over the sequence that sized it", ok_, detail=det_, where=f.fq,
                       construct=f"np.empty in {f.qual}", loc=loc(f, n), message=f"the np.empty buffer is not provably overwritten on its whole extent: {det_}",
                       consequence="uninitialised memory is returned: results differ from run to run")
                continue
            if f.qual == "TDGLSolver.__init__":
                solver_empty(ctx, f, n)
                continue
            T = AtomTable()
            try:
                sm = summarise(T, f.node)
            except KernelError as e:
                ctx.ob("R09.4", f"{f.qual}: {norm(n)[:50]}", False, detail=str(e), where=f.fq, construct=f"np.empty in {f.qual}",
                       loc=loc(f, n), message=f"np.empty buffer in a function outside the kernel fragment: {e}",
                       consequence="uninitialised memory may be returned")
                continue
            ok = True
            det = {}
            for name, (fn_, dims, node) in sm.allocs.items():
                if fn_ != "empty":
                    continue
                stores = [s for s in sm.stores if s.array == name]
                cover = True
                ext = {}
                for s in stores:
                    for l in s.loops:
                        ext[l.canon] = l.extent
                # dimension 0 must be the outer loop extent, further dims either a loop extent or all constants 0..k-1
                for di, d in enumerate(dims):
                    idxs = {s.index[di] for s in stores if len(s.index) > di}
                    if all(i.startswith("v") for i in idxs) and len(idxs) == 1:
                        cover = cover and ext.get(next(iter(idxs))) == d
                    else:
                        try:
                            cover = cover and {int(i) for i in idxs} == set(range(int(d)))
                        except ValueError:
                            cover = False
                det[name] = {"shape": dims, "loop_extents": ext, "indices": sorted({s.index for s in stores})}
                ok = ok and cover and bool(stores) and name in "".join(sm.returns)
            ctx.ob("R09.4", f"{f.qual}: {norm(n)[:50]}", ok, detail=det, where=f.fq, construct=f"np.empty in {f.qual}", loc=loc(f, n),
                   message=f"the np.empty buffer is not provably overwritten on its whole extent: {det}",
                   consequence="uninitialised memory is returned: results differ from run to run")
    ctx.note("empty_allocations", n_e)


def _filled_by_enumerate_loop(f, n):
    """`buf = np.empty(len(X), ...)` followed by `for i, x in enumerate(X): buf[i] = ...` (an unconditional store in the loop body,
    no read of buf before the loop): (ok, detail), or None when the allocation has another shape."""
    from ..cfg import parent_map
    pm = parent_map(f.node)
    par = pm.get(id(n), (None,))[0]
    if not (isinstance(par, ast.Assign) and par.value is n and len(par.targets) == 1 and isinstance(par.targets[0], ast.Name)):
        return None
    if not (n.args and isinstance(n.args[0], ast.Call) and norm(n.args[0].func) == "len" and len(n.args[0].args) == 1):
        return None
    buf, seq = par.targets[0].id, norm(n.args[0].args[0])
    blk, fld = pm[id(par)]
    body = getattr(blk, fld)
    after = body[body.index(par) + 1:]
    for st in after:
        reads = [x for x in ast.walk(st) if isinstance(x, ast.Name) and x.id == buf and isinstance(x.ctx, ast.Load)]
        if isinstance(st, ast.For) and isinstance(st.iter, ast.Call) and norm(st.iter.func) == "enumerate" and st.iter.args \
                and norm(st.iter.args[0]) == seq and isinstance(st.target, ast.Tuple) and isinstance(st.target.elts[0], ast.Name) and not st.orelse:
            iv = st.target.elts[0].id
            stores = [b for b in st.body if isinstance(b, ast.Assign) and len(b.targets) == 1 and isinstance(b.targets[0], ast.Subscript)
                      and norm(b.targets[0].value) == buf and norm(b.targets[0].slice) == iv]
            exits = [x for x in ast.walk(st) if isinstance(x, (ast.Break, ast.Continue))]
            other_reads = [x for x in reads if not any(x is b.targets[0].value for b in stores)]
            ok = len(stores) >= 1 and not exits and not other_reads
            return ok, {"buffer": buf, "sized_by": seq, "stores": [norm(b)[:60] for b in stores]}
        if reads:
            return None          # another shape (a kernel loop ...): judged by the other rules
    return None


def solver_empty(ctx, f, n):
    """self.new_A_induced = np.empty((self.num_edges, 2)): filled by the screening kernel before any read."""
    repo = ctx.repo
    fn = f.node
    shape_ok = norm(n.args[0]) == "(self.num_edges, 2)"
    import re
    from ..dataflow import expanded_text
    # buffer rows and the kernel's evaluation points are indexed by the same edge set (alias locals expanded: name independent)
    ne = [expanded_text(fn, x.value) for x in own_nodes(fn) if isinstance(x, ast.Assign) and norm(x.targets[0]) == "self.num_edges"]
    ec_def = [expanded_text(fn, x.value) for x in own_nodes(fn) if isinstance(x, ast.Assign) and norm(x.targets[0]) == "self.edge_centers"]
    m_ = re.fullmatch(r"len\((.+)\.edges\)", ne[0]) if len(ne) == 1 else None
    same_space = bool(m_) and bool(ec_def) and (ec_def[0].endswith(f"* {m_.group(1)}.centers") or ec_def[0].startswith(f"{m_.group(1)}.centers *"))
    fg = repo.func("tdgl.solver.solver", "TDGLSolver.get_induced_vector_potential")
    # every read of the buffer's content is preceded by a kernel call on every path (handing the buffer to the kernel, directly
    # or packed in an argument tuple, is not a read)
    from ..cfg import build_cfg, parent_map as _pm
    from ..dataflow import stmt_of
    cfgg = build_cfg(fg.node)
    pmg = _pm(fg.node)
    fill_stmts = [n_.id for n_ in cfgg.nodes if n_.kind == "stmt" and n_.ast is not None and any(
        isinstance(x, ast.Call) and getattr(x.func, "id", "") in ("get_A_induced_numba", "get_A_induced_cupy") for x in ast.walk(n_.ast))]
    fills = fill_stmts
    late = []
    for x in own_nodes(fg.node):
        if isinstance(x, ast.Attribute) and x.attr == "new_A_induced" and isinstance(x.ctx, ast.Load):
            par = pmg[id(x)][0]
            if isinstance(par, (ast.Tuple, ast.List)) or (isinstance(par, ast.Call) and getattr(par.func, "id", "") in ("get_A_induced_numba", "get_A_induced_cupy")):
                continue
            st_ = stmt_of(x, pmg)
            try:
                nid = cfgg.node_of(st_).id
            except Exception:
                late.append(f"L{x.lineno}: outside the statement graph")
                continue
            if cfgg.path(cfgg.entry, nid, skip=set(fill_stmts), skip_edges=("exc",)) is not None:
                late.append(f"L{x.lineno}: `{norm(st_)[:60]}` is reachable without a kernel call")
    ok_order = bool(fill_stmts) and not late
    other_readers = []
    for g in repo.all_functions():
        if g.fq in (f.fq, fg.fq):
            continue
        for x in own_nodes(g.node):
            if isinstance(x, ast.Attribute) and x.attr == "new_A_induced":
                other_readers.append(g.fq)
    # kernel covers edge_centers.shape[0] x J_site.shape[1] (= 2 by the kernel's own assertion)
    fk = repo.func("tdgl.solver.screening", "get_A_induced_numba")
    T = AtomTable()
    sm = summarise(T, fk.node)
    ps = [a.arg for a in fk.node.args.args]
    ext = {l.canon: l.extent for l in sm.loops}
    from ..kernel import output_coverage
    kernel_ok = output_coverage(sm, fk.node, ps) is not None and not sm.problems and \
        any(norm(a.test) == f"{ps[0]}.shape[1] == 2" for a in fk.node.body if isinstance(a, ast.Assert))
    ok = shape_ok and same_space and ok_order and not other_readers and kernel_ok
    ctx.ob("R09.4", "TDGLSolver.__init__: np.empty((num_edges, 2)) is filled by the screening kernel before it is read", ok,
           detail={"shape": norm(n.args[0]), "num_edges": ne, "edge_centers": ec_def, "fills_at": fills, "reads_after": late,
                   "other_readers": other_readers, "kernel_extents": ext}, where=f.fq, construct="self.new_A_induced buffer",
           loc=loc(f, n), message="the uninitialised induced-potential buffer can be observed before the kernel overwrites all of it",
           consequence="garbage enters the induced vector potential: runs are not reproducible")


def returned_file(ctx):
    """R09.10: an existing file at the requested output path makes the data handler write to <name>-1.h5; the returned Solution must read
    that file.  solve() is followed to its end (pvs/tables.py) and the `path` handed to Solution(...) is read off."""
    from ..tables import solve_outcomes
    repo = ctx.repo
    f = repo.func("tdgl.solver.solver", "TDGLSolver.solve")
    got = None
    for item in solve_outcomes(repo):
        if item[0] and len(item) > 3:
            got = item[3].get("path")
    if got is None:
        raise AnalysisError("solve() no longer ends in Solution(path=...) in the model")
    ok = got.startswith("DataHandler(") and got.endswith(".output_path")
    ctx.ob("R09.10", "Solution(path=...) is the output path of the DataHandler this run wrote to", ok, detail={"path": got}, where=f.fq,
           construct="path of the returned Solution", loc=loc(f, f.node), message=f"the returned Solution is built on `{got[:100]}`",
           consequence="when the requested output file already exists the run is written to <name>-1.h5 but the returned Solution reads (and then overwrites "
                       "parts of) the earlier run stored under the requested name: identical inputs give different results depending on what is at the "
                       "output location")
