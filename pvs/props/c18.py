"""C18 - polygon and device geometry: dispatch, in-place discipline, deep copies, stored-vertex normalisation."""
from __future__ import annotations

import ast

from ..cfg import guards_of, parent_map
from ..dataflow import assignments, expanded_text
from ..src import AnalysisError, loc, norm, own_nodes, rename_id

POLY = "tdgl.device.polygon"
DEV = "tdgl.device.device"
TECH = ("methods followed with symbolic operands (set-operation fold, _join_via dispatch, inplace discipline with inplace = True / False, points setter "
        "chain); deep-copy audit; who-may-write on stored vertices; truth table of device membership")


def check(ctx):
    repo = ctx.repo
    P = repo.cls(POLY, "Polygon")
    D = repo.cls(DEV, "Device")
    ctx.rule("R18.10", "Device keeps two coordinate scales apart: its own mesh is in units of the coherence length, polygons / probe points / `points` "
                       "are in length units; `_create_dimensionless_mesh` is handed length-unit points, and the two are never added", 1)
    ctx.rule("R18.9", "coordinate arrays stored on devices and polygons are rebound to new arrays by the transformations, never written element by element "
                      "(an elementwise store casts to the dtype the user happened to supply)", 1)
    ctx.rule("R18.8", "memoised geometry (cached properties, lazy attributes) is invalidated by every method that rebinds what it was computed from", 2)
    ctx.rule("R18.7", "set operations and copies return a new object, never the receiver (also for zero operands)", 5)
    ctx.rule("R18.6", "the mesh shared between a device and its copies is never modified in place", 1)
    ctx.rule("R18.1", "operators, set-operation methods, from_* constructors and _join_via agree on the operation name", 10)
    ctx.rule("R18.2", "with an inplace flag every store goes through the alias `self if inplace else self.copy()`; geometry is computed from self", 4)
    ctx.rule("R18.3", "copies are deep (vertices, layer, film, holes, terminals, probe points)", 2)
    ctx.rule("R18.4", "stored vertices are written only by the points setter, whose chain is Polygon -> orient -> validity -> close_curve", 3)
    ctx.rule("R18.5", "device membership == film and not (any hole), radius passed with opposite signs", 1)
    set_operations(ctx, P)

    inplace_discipline(ctx, P, D)
    coordinate_scales(ctx, D)
    # R18.3
    fc = P.methods["copy"]
    pc = [n for n in ast.walk(fc.node) if isinstance(n, ast.Call) and norm(n.func) == "Polygon"]
    ok = len(pc) == 1 and {k.arg: norm(k.value) for k in pc[0].keywords}.get("points") == "self.points.copy()"
    ctx.ob("R18.3", "Polygon.copy copies the vertex array", ok, detail=[norm(p) for p in pc], where=fc.fq, construct="Polygon.copy",
           loc=loc(fc, fc.node), message="Polygon.copy shares the vertex array", consequence="mutating the copy's vertices changes the original")
    fd = D.methods["copy"]
    missing, kw = device_copy_shares(D, fd)
    ctx.ob("R18.3", "Device.copy copies layer, film, every hole, every terminal and the probe points", not missing, detail={"kwargs": kw, "shared": missing},
           where=fd.fq, construct="Device.copy", loc=loc(fd, fd.node), message=f"Device.copy shares {missing}",
           consequence="Device.scale/rotate/translate(inplace=False) move the original's polygons")
    # R18.4
    writers = {}
    for f in repo.all_functions():
        for n in own_nodes(f.node):
            if isinstance(n, ast.Attribute) and n.attr == "_points" and isinstance(n.ctx, ast.Store):
                writers.setdefault(f.fq, 0)
                writers[f.fq] += 1
    ok = set(writers) == {f"{POLY}:Polygon.points"}
    ctx.ob("R18.4", "only the points setter writes _points", ok, detail=writers, where=P.fq, construct="writers of _points",
           message=f"_points is written by {sorted(writers)}", consequence="vertices bypass orientation/closure normalisation")
    fs = P.methods["points"]
    ok, steps = setter_chain(fs)
    ctx.ob("R18.4", "setter chain: shapely Polygon -> orient (counter-clockwise) -> ... -> close_curve -> store", ok, detail=steps,
           where=fs.fq, construct="points setter chain", loc=loc(fs, fs.node), message=f"setter steps: {steps}",
           consequence="stored vertices may be clockwise or open (after a reflection, `scale(xfact=-1)`)")
    muts = []
    for f in repo.all_functions():
        for n in own_nodes(f.node):
            if isinstance(n, ast.AugAssign) and isinstance(n.target, ast.Attribute) and n.target.attr == "points":
                muts.append(f"{f.fq} L{n.lineno}")
            if isinstance(n, ast.Subscript) and isinstance(n.ctx, ast.Store) and isinstance(n.value, ast.Attribute) and n.value.attr == "points":
                muts.append(f"{f.fq} L{n.lineno}")
    ctx.ob("R18.4", "the library never mutates `.points` arrays in place", not muts, detail=muts, where="repo", construct="in-place .points mutation",
           message=f"in-place vertex mutation at {muts}", consequence="orientation/closure invariants are bypassed")
    # R18.5: truth table of the membership function (for one query point and 0..3 holes); falls back to the structural form
    f = D.methods["contains_points"]
    from ..pointwise import NotPointwise, truth_table
    try:
        rows, uses = truth_table(f.node)
        wrong = [(n, fi_, hs, r) for n, fi_, hs, r in rows if r != (fi_ and not any(hs))]
        det = {"assignments": len(rows), "wrong": [f"{n} hole(s): in film={fi_}, in holes={hs} -> {r}" for n, fi_, hs, r in wrong[:4]],
               "radius_signs": sorted(map(str, uses))}
        radius_ok = uses <= {("film", "+"), ("hole", "-"), ("film", None), ("hole", None)} and (("film", "+") in uses) == (("hole", "-") in uses)
        ctx.ob("R18.5", f"truth table over {len(rows)} assignments (0-3 holes): inside == in film and in no hole", not wrong, detail=det,
               where=f.fq, construct="Device.contains_points truth table", loc=loc(f, f.node),
               message=f"Device.contains_points is wrong for {len(wrong)} of {len(rows)} truth assignments, e.g. {det['wrong'][:2]}",
               consequence="points inside a hole count as inside the device (or film points are excluded): probe points in holes are accepted, "
                           "post-processing masks are wrong",
               witness={"assignment": det["wrong"][:1]})
        ctx.ob("R18.5", "the margin is passed with opposite signs to the film and to the holes", radius_ok, detail=det["radius_signs"], where=f.fq,
               construct="Device.contains_points radius signs", loc=loc(f, f.node), message=f"radius signs used: {det['radius_signs']}",
               consequence="the margin grows the holes together with the film: boundary conventions of film and holes disagree")
    except NotPointwise as e:
        m = [n for n in own_nodes(f.node) if isinstance(n, ast.BinOp) and isinstance(n.op, (ast.BitAnd, ast.BitOr))]
        ok = False
        if len(m) == 1 and isinstance(m[0].op, ast.BitAnd):
            l, r = m[0].left, m[0].right
            ok = norm(l) == "self.film.contains_points(points, radius=radius)" and isinstance(r, ast.UnaryOp) and isinstance(r.op, ast.Invert) \
                and isinstance(r.operand, ast.Call) and norm(r.operand.func) == "np.logical_or.reduce" and len(r.operand.args) == 1 \
                and isinstance(r.operand.args[0], ast.ListComp)
        ctx.ob("R18.5", f"mask == film.contains(points, +radius) & ~any(hole.contains(points, -radius)) [structural; truth table not applicable: {e}]", ok,
               detail=[norm(x) for x in m], where=f.fq, construct="Device.contains_points", loc=loc(f, f.node),
               message=f"membership mask is {[norm(x) for x in m]} (and the function is outside the pointwise fragment: {e})",
               consequence="points inside holes count as inside the device (or film points are excluded)")
    from ..effects import mesh_immutable
    mesh_immutable(ctx, "R18.6", 'the mesh is the one object a device shares with its copies: modifying it in place changes the other device, whose polygons stay where they were')
    from ..effects import fresh_results
    fresh_results(ctx, "R18.7", [("tdgl.device.polygon", "Polygon", ["union", "intersection", "difference", "copy"]),
                                 ("tdgl.device.device", "Device", ["copy"])],
                  "a set operation with an empty operand list (base.difference(*notches) with notches == []) returns the original polygon: "
                  "an in-place transformation of the 'result' silently moves the original (and any device built from it)")
    from ..effects import memo_discipline
    memo_discipline(ctx, "R18.8", "after an in-place transformation (translate / rotate / scale with inplace=True, or assigning points) the polygon "
                                  "keeps answering membership and boundary queries with its old outline")
    from ..effects import coords_rebound_only
    coords_rebound_only(ctx, "R18.9", "probe points given as integers are truncated by scale() (or any transformation with a non-integral image): "
                                      "the points no longer map consistently with the shapes, and can leave the film")
    ctx.decline("areas under affine maps, agreement of set operations with point-wise membership, boundary conventions: computed by shapely / matplotlib")


def set_operations(ctx, P):
    """R18.1 by following the statements of each method (pvs/smallstep.py) with symbolic operands: what is *called on what with
    which operands* is compared with the documented dispatch, whatever way the method is written (if-chain, getattr, a shared
    private constructor, a loop helper)."""
    from ..smallstep import Machine, Opaque as SO, render, module_constants

    def follow(f, env, attrs=None, call=None, undecided=None):
        params = [a.arg for a in f.node.args.args + f.node.args.kwonlyargs]
        e = dict(module_constants(f.module.tree))
        e.update({p_: SO(p_) for p_ in params})
        e.update(env)
        from ..smallstep import follow_private_methods
        m = Machine(e, attrs or (lambda t: NotImplemented), follow_private_methods(P, call), fuel=16, undecided=undecided)
        kind, val = m.run_function(f.node)
        return kind, val, m

    def is_call(v, suffix):
        return isinstance(v, SO) and v.parts is not None and v.parts[0] == "call" and (v.parts[1] == suffix or v.parts[1].endswith("." + suffix))

    ops = {"__add__": "union", "__sub__": "difference", "__mul__": "intersection"}
    for d, m_ in ops.items():
        f = P.methods.get(d)
        ok, got = False, None
        if f is not None:
            kind, val, _ = follow(f, {})
            got = render(val) if kind == "return" else f"raises {val}"
            ok = kind == "return" and is_call(val, m_) and val.parts[4] == SO("self") and val.parts[2] == [SO("other")] and not val.parts[3]
        ctx.ob("R18.1", f"Polygon.{d} -> self.{m_}(other)", ok, detail=got, where=f"{P.fq}.{d}",
               construct=d, loc=loc(f, f.node) if f else "", message=f"{d} returns {got}",
               consequence=f"`a {'+-*'[list(ops).index(d)]} b` computes a different set operation than documented")
    for m_ in ("union", "intersection", "difference"):
        f = P.methods[m_]
        va = f.node.args.vararg.arg if f.node.args.vararg else None
        if va is None:
            raise AnalysisError(f"Polygon.{m_} no longer takes *others")
        # no operands: a copy of the receiver
        kind0, val0, _ = follow(f, {va: (), "name": None})
        ok0 = kind0 == "return" and is_call(val0, "copy") and val0.parts[4] == SO("self")
        # two operands o0, o1: the fold  R_k = Polygon(name=name or self.name, points=R_{k-1}._join_via(o_k, m), mesh=self.mesh)
        # starting from the receiver (or a copy of it), written as a loop or as one step followed by .<m>(*rest, name=name)
        kind2, val2, _ = follow(f, {va: (SO("o0"), SO("o1")), "name": SO("name")}, undecided=lambda t: True if t.strip() in ("name", "name or self.name") else None)
        det = {"no_operands": render(val0) if kind0 == "return" else f"raises {val0}", "two_operands": render(val2) if kind2 == "return" else f"raises {val2}"}

        def fold(v, operands):
            if not operands:
                return v == SO("self") or (is_call(v, "copy") and v.parts[4] == SO("self") and not v.parts[2])
            if not (is_call(v, "Polygon") or is_call(v, "type(self)") or is_call(v, "self.__class__")) or v.parts[2]:
                return False
            kw = v.parts[3]
            pts = kw.get("points")
            return is_call(pts, "_join_via") and pts.parts[2] == [operands[-1], m_] and not pts.parts[3] \
                and render(kw.get("mesh")) == "self.mesh" and render(kw.get("name")) in ("name", "(name or self.name)") \
                and set(kw) == {"points", "mesh", "name"} and fold(pts.parts[4], operands[:-1])
        o = [SO("o0"), SO("o1")]

        def recursion(v):
            """<new polygon>.<m>(*rest, name=name), or the same through a private method that is handed the operation and the rest"""
            if not (isinstance(v, SO) and v.parts and v.parts[0] == "call"):
                return False
            args_, kw_, recv_ = list(v.parts[2]), dict(v.parts[3]), v.parts[4]
            short_ = v.parts[1].split(".")[-1]
            if short_ == m_:
                return args_ == o[1:] and kw_.get("name") == SO("name") and set(kw_) == {"name"} and fold(recv_, o[:1])
            if short_.startswith("_") and short_ in P.methods:
                allv = args_ + list(kw_.values())
                rest_ok = any(isinstance(x, (tuple, list)) and list(x) == o[1:] for x in allv)
                return m_ in allv and rest_ok and SO("name") in allv and fold(recv_, o[:1])
            return False
        ok2 = kind2 == "return" and (fold(val2, o) or recursion(val2))
        ctx.ob("R18.1", f"Polygon.{m_}: _join_via(first, '{m_}'), recursion on .{m_}(*rest), keeps name/mesh, no operands -> copy",
               ok0 and ok2, detail=det, where=f.fq, construct=m_, loc=loc(f, f.node),
               message=f"Polygon.{m_} evaluates to {det}",
               consequence=f"{m_} of several polygons applies another operation to the later operands or loses the name")
    for m_ in ("union", "intersection", "difference"):
        fc = P.methods[f"from_{m_}"]
        kind, val, _ = follow(fc, {"items": [SO("p0"), SO("p1"), SO("p2")], "cls": SO("cls")})
        got = render(val) if kind == "return" else f"raises {val}"
        okc = False
        if kind == "return" and is_call(val, m_) and val.parts[2] == [SO("p1"), SO("p2")] and not val.parts[3]:
            recv = val.parts[4]
            if is_call(recv, "cls") and not recv.parts[2]:
                kw = recv.parts[3]
                okc = kw.get("points") == SO("p0") and kw.get("name") == SO("name") and kw.get("mesh") == SO("mesh") and set(kw) == {"points", "name", "mesh"}
        ctx.ob("R18.1", f"Polygon.from_{m_} -> polygon.{m_}(*rest)", okc, detail=got, where=fc.fq,
               construct=f"from_{m_}", loc=loc(fc, fc.node), message=f"from_{m_} returns {got}", consequence="constructor applies another operation")
    # _join_via: for each valid operation and each kind of operand the shapely method of that name runs on self.polygon with the
    # other polygon; an unknown operation raises
    fj = P.methods["_join_via"]
    bad, table = [], {}
    for operation in ("union", "intersection", "difference", "symmetric_difference", "bogus"):
        for other_kind in ("Polygon", "raw"):
            calls = []

            def call(mach, node, name, args, kwargs, other_kind=other_kind, calls=calls):
                if name == "isinstance" and len(args) == 2:
                    o, c = args
                    if o == SO("other"):
                        return (c == SO("Polygon")) == (other_kind == "Polygon") if c == SO("Polygon") else (other_kind == "raw")
                    return True           # results of shapely calls are polygons in this scenario
                if name.startswith("self.polygon."):
                    calls.append((name, list(args), dict(kwargs)))
                return NotImplemented

            def undecided(text):
                # validity of the joined polygon: this scenario is the valid, non-empty one
                if text.endswith(".is_empty"):
                    return False
                if text.endswith(".is_valid"):
                    return True
                return None
            kind, val, mach = follow(fj, {"operation": operation}, call=call, undecided=undecided)
            key = f"{operation}/{other_kind}"
            if operation in ("union", "intersection", "difference"):
                want_other = "other.polygon" if other_kind == "Polygon" else "geo.polygon.Polygon(other)"
                got = [(n, [render(a) for a in args]) for n, args, kw in calls]
                table[key] = got if kind == "return" else f"raises {val}"
                if kind != "return" or got != [(f"self.polygon.{operation}", [want_other])] or not is_call(val, operation):
                    bad.append(f"{key}: {table[key]}")
            else:
                table[key] = "raises" if kind == "raise" else f"returns {render(val)}"
                if kind != "raise" or calls:
                    bad.append(f"{key}: {table[key]}")
    ctx.ob("R18.1", "_join_via: operation in {union, intersection, difference}, dispatched on self.polygon with the other polygon", not bad,
           detail=table, where=fj.fq, construct="_join_via dispatch", loc=loc(fj, fj.node),
           message=f"_join_via dispatch: {bad[:2]}", consequence="operands are swapped (difference is not symmetric) or the wrong shapely method runs")


def inplace_discipline(ctx, P, D):
    """R18.2 by following each transformation with inplace = True and inplace = False (pvs/smallstep.py): which object receives
    the stores and the in-place calls, and which object is returned.  Independent of how the target is selected (conditional
    expression, if/else, `target = self` followed by `if not inplace`, a shared private helper)."""
    from ..smallstep import Machine, Opaque as SO, render, module_constants

    def root_of(o):
        while isinstance(o, SO) and o.parts and o.parts[0] in ("attr", "index"):
            o = o.parts[1]
        return o

    for cls, m_ in ((P, "rotate"), (P, "translate"), (P, "scale"), (D, "translate")):
        f = cls.methods[m_]
        params = [a.arg for a in f.node.args.args + f.node.args.kwonlyargs]
        if "inplace" not in params:
            raise AnalysisError(f"{cls.name}.{m_} no longer has an `inplace` parameter")
        problems, seen = [], {}
        for inplace in (True, False):
            touched = []            # (root object, what) for every store / in-place call

            def attrs(text):
                if text.endswith(".polygons"):
                    base = SO(text[:-len(".polygons")])
                    return [SO(f"{text}[0]", ("index", SO(text, ("attr", _owner[0](text), "polygons")), 0))]
                return NotImplemented
            _owner = [None]

            def call(mach, node, name, args, kwargs):
                recv = mach.callee(node.func)[1]
                if kwargs.get("inplace") is True and isinstance(recv, SO):
                    touched.append((root_of(recv), f"{name}(..., inplace=True)"))
                if name.split(".")[-1].startswith("_create_") and isinstance(recv, SO):
                    touched.append((root_of(recv), f"{name}(...)"))
                return NotImplemented
            env = dict(module_constants(f.module.tree))
            env.update({p_: SO(p_) for p_ in params})
            env["inplace"] = inplace
            from ..smallstep import follow_private_methods as _fpm
            mach = Machine(env, attrs, _fpm(cls, call), fuel=16, undecided=lambda t: True)
            # `<obj>.polygons` belongs to whatever <obj> evaluates to: resolve the owner through the machine's environment
            def owner(text, mach=mach):
                head = text[:-len(".polygons")]
                v = mach.env.get(head)
                return v if isinstance(v, SO) else SO(head)
            _owner[0] = owner
            kind, val = mach.run_function(f.node)
            for base, attr, v in mach.attr_stores:
                touched.append((root_of(base), f"{render(base)}.{attr} = {render(v)[:60]}"))
            on_self = [w for r, w in touched if r == SO("self")]
            seen[inplace] = {"returns": render(val) if kind == "return" else f"raises {val}", "touches_self": on_self,
                             "touches": [w for _, w in touched][:6]}
            if kind != "return":
                problems.append(f"inplace={inplace}: raises {val}")
                continue
            if inplace:
                if val != SO("self"):
                    problems.append(f"inplace=True returns {render(val)}, not the receiver")
                if not on_self:
                    problems.append("inplace=True does not modify the receiver")
            else:
                is_copy = isinstance(val, SO) and val.parts and val.parts[0] == "call" and val.parts[1].split(".")[-1] == "copy" \
                    and val.parts[4] == SO("self")
                if not is_copy:
                    problems.append(f"inplace=False returns {render(val)}, not a copy of the receiver")
                if on_self:
                    problems.append(f"inplace=False modifies the receiver: {on_self[:3]}")
                if is_copy and not [1 for r, _ in touched if r == val]:
                    problems.append("inplace=False does not transform the copy it returns")
            if cls is P:
                pts = [v for base, attr, v in mach.attr_stores if attr == "points"]
                if len(pts) != 1 or "self.polygon" not in render(pts[0]):
                    problems.append(f"inplace={inplace}: the new vertices are not computed from self.polygon ({[render(x)[:50] for x in pts]})")
        ctx.ob("R18.2", f"{cls.name}.{m_}: stores only through the target (= self if inplace else a copy), which is returned", not problems,
               detail=seen, where=f.fq, construct=f"{cls.name}.{m_} inplace discipline",
               loc=loc(f, f.node), message=f"{cls.name}.{m_}: {problems[:2]}",
               consequence="a non-in-place transformation mutates the original")


def follow_points_setter(fs, kind: str, interiors: bool, valid: bool):
    """The points setter followed (pvs/smallstep.py) for an input of the given kind (array / Polygon / shapely) whose polygon has
    (no) interiors and is (in)valid: (outcome, stored value)."""
    from ..smallstep import Machine, Opaque as SO, module_constants

    def call(m, node, name, args, kwargs):
        if name == "isinstance" and len(args) == 2:
            o, c = args
            if isinstance(o, SO) and o.text in ("points", "points.points"):
                ctext = c.text if isinstance(c, SO) else " ".join(x.text for x in c if isinstance(x, SO)) if isinstance(c, (tuple, list)) else ""
                if ctext == "Polygon":
                    return kind == "Polygon" and o.text == "points"
                return kind == "shapely"
            return True
        return NotImplemented

    def undecided(text):
        t = text.strip()
        if t.endswith(".interiors") or "interiors" in t:
            return interiors if not t.startswith("not ") else None
        if t.endswith(".is_valid"):
            return valid
        if t.endswith(".is_simple"):
            return valid
        return None
    params = [a.arg for a in fs.node.args.args]
    env = dict(module_constants(fs.module.tree))
    env.update({p_: SO(p_) for p_ in params})
    def attrs(text):
        # the closed vertex array has the right shape in these scenarios
        if text.endswith(".ndim"):
            return 2
        if text.endswith(".shape"):
            return (SO("n"), 2)
        return NotImplemented
    m = Machine(env, attrs, call, fuel=16, undecided=undecided)
    kind_, val = m.run_function(fs.node)
    stored = [v for base, attr, v in m.attr_stores if base == SO("self") and attr == "_points"]
    return kind_, val, stored


def setter_chain(fs):
    """close_curve( ... orient( ... shapely Polygon(<input>) ... ) ... ) is what is stored, for every kind of input"""
    from ..smallstep import Opaque as SO, render
    steps = []
    ok = True

    def find(v, name):
        """calls named `name` inside a symbolic value"""
        out = []
        if isinstance(v, SO) and v.parts:
            if v.parts[0] == "call" and v.parts[1].split(".")[-1] == name:
                out.append(v)
            for x in v.parts[1:]:
                out += find(x, name)
        elif isinstance(v, (list, tuple)):
            for x in v:
                out += find(x, name)
        elif isinstance(v, dict):
            for x in v.values():
                out += find(x, name)
        return out
    for kind in ("array", "Polygon", "shapely"):
        k, val, stored = follow_points_setter(fs, kind, interiors=False, valid=True)
        steps.append(f"{kind}: {render(stored[0])[:160] if stored else k + ' ' + render(val)[:60]}")
        if k != "return" or len(stored) != 1:
            ok = False
            continue
        v = stored[0]
        top = v.parts[1].split(".")[-1] if isinstance(v, SO) and v.parts and v.parts[0] == "call" else None
        ok = ok and top == "close_curve" and any(find(o, "Polygon") for o in find(v, "orient"))
    return ok, steps


def device_copy_shares(D, fd):
    """Device.copy followed (pvs/smallstep.py) with and without probe points: every part of the new Device must be the result of a
    `.copy()` call on the corresponding part of self (element by element for the lists), however the arguments are assembled."""
    from ..smallstep import Machine, Opaque as SO, follow_private_methods, module_constants, render

    class M(Machine):
        def iterate(self, v, node):
            if isinstance(v, SO):
                return [SO(f"{v.text}[{i}]", ("index", v, i)) for i in range(2)]
            return super().iterate(v, node)

    def copied_from(v, src_text):
        """v is <src>.copy() (possibly wrapped in tuple()/list())"""
        if isinstance(v, SO) and v.parts and v.parts[0] == "call":
            short = v.parts[1].split(".")[-1]
            if short == "copy" and isinstance(v.parts[4], SO) and v.parts[4].text == src_text and not v.parts[2]:
                return True
            if short in ("tuple", "list") and len(v.parts[2]) == 1:
                return copied_from(v.parts[2][0], src_text)
        return False

    def elements_copied(v, coll):
        if isinstance(v, SO) and v.parts and v.parts[0] == "call" and v.parts[1] in ("tuple", "list") and len(v.parts[2]) == 1:
            v = v.parts[2][0]
        return isinstance(v, (list, tuple)) and len(v) == 2 and all(copied_from(x, f"self.{coll}[{i}]") for i, x in enumerate(v))
    missing = set()
    shown = {}
    for probes in (True, False):
        def attrs(text, probes=probes):
            if text == "self.probe_points":
                return SO("self.probe_points") if probes else None
            if text == "self.mesh":
                return SO("self.mesh")
            return NotImplemented
        env = dict(module_constants(fd.module.tree))
        env.update({"self": SO("self"), "with_mesh": True})
        kind, val = M(env, attrs, follow_private_methods(D), fuel=16, undecided=lambda t: None).run_function(fd.node)
        if kind != "return" or not (isinstance(val, SO) and val.parts and val.parts[0] == "call" and val.parts[1] == "Device"):
            raise AnalysisError(f"Device.copy does not return Device(...) in the model ({kind} {render(val)[:80]})")
        params = [a.arg for a in D.methods["__init__"].node.args.args[1:] + D.methods["__init__"].node.args.kwonlyargs]
        passed = dict(zip(params, val.parts[2]))
        passed.update(val.parts[3])
        shown = {k: render(v)[:60] for k, v in passed.items()}
        for k in ("layer", "film"):
            if not copied_from(passed.get(k), f"self.{k}"):
                missing.add(k)
        for k in ("holes", "terminals"):
            if not elements_copied(passed.get(k), k):
                missing.add(k)
        pp = passed.get("probe_points")
        if probes and not copied_from(pp, "self.probe_points"):
            missing.add("probe_points")
        if not probes and pp is not None:
            missing.add("probe_points")
    return sorted(missing, key=["layer", "film", "holes", "terminals", "probe_points"].index), shown


def coordinate_scales(ctx, D):
    """R18.10: a two-point type system over the methods of Device.  XI: coordinates of the device's own mesh (`self.mesh.sites`, `.x`,
    `.y`, `.edge_mesh.centers`, through aliases of `self.mesh`); L: `self.points`, polygon `.points`, probe points.  `v * coherence
    length`: XI -> L, `v / coherence length`: L -> XI; sums keep the scale and must not mix the two.  `_create_dimensionless_mesh`
    divides by the coherence length itself: what it is handed must not already be XI."""
    from ..dataflow import assignments
    problems, sinks = [], 0
    for name, f in D.methods.items():
        fn = f.node
        asg = assignments(fn)

        def is_dev(e):
            return isinstance(e, ast.Name) and e.id in ("self", "device")

        def devmesh(e, depth=0):
            """is `e` the device's own mesh (self.mesh, device.mesh, or a local bound to it)"""
            if isinstance(e, ast.Attribute) and e.attr == "mesh" and is_dev(e.value):
                return True
            if isinstance(e, ast.Name) and depth < 3:
                defs = [v for _, v in asg.get(e.id, []) if v is not None]
                return bool(defs) and all(devmesh(v, depth + 1) for v in defs)
            return False

        def is_xi_factor(e, depth=0):
            if "coherence_length" in norm(e):
                return True
            if isinstance(e, ast.Name) and depth < 3:
                defs = [v for _, v in asg.get(e.id, []) if v is not None]
                return bool(defs) and all(is_xi_factor(v, depth + 1) for v in defs)
            return False

        def scale(e, depth=0):
            if depth > 6:
                return None
            if isinstance(e, ast.Attribute):
                if e.attr in ("sites", "x", "y") and devmesh(e.value):
                    return "XI"
                if e.attr == "centers" and isinstance(e.value, ast.Attribute) and e.value.attr == "edge_mesh" and devmesh(e.value.value):
                    return "XI"
                if e.attr in ("points", "probe_points") and (is_dev(e.value) or isinstance(e.value, (ast.Name, ast.Attribute))) and not devmesh(e.value):
                    return "L" if e.attr == "probe_points" or not (isinstance(e.value, ast.Name) and e.value.id == "mesh") else None
                return None
            if isinstance(e, ast.Name):
                defs = [v for _, v in asg.get(e.id, []) if v is not None]
                kinds = {scale(v, depth + 1) for v in defs}
                return kinds.pop() if len(kinds) == 1 else None
            if isinstance(e, ast.Subscript):
                # the stored mesh of a device file: `f["mesh/sites"]`, `f["mesh"]["sites"]` are the sites Mesh.to_hdf5 wrote,
                # i.e. the device's own dimensionless mesh
                key = e.slice.value if isinstance(e.slice, ast.Constant) and isinstance(e.slice.value, str) else None
                if key is not None:
                    path = key.strip("/").split("/")
                    if path[-1] == "sites" and ("mesh" in path[:-1] or (isinstance(e.value, ast.Subscript) and isinstance(e.value.slice, ast.Constant)
                                                                       and "mesh" in str(e.value.slice.value)) or "mesh" in norm(e.value).lower()):
                        return "XI"
                    return None
                return scale(e.value, depth + 1)
            if isinstance(e, ast.BinOp):
                l, r = scale(e.left, depth + 1), scale(e.right, depth + 1)
                if isinstance(e.op, ast.Mult) and (is_xi_factor(e.left) or is_xi_factor(e.right)):
                    base = r if is_xi_factor(e.left) else l
                    return "L" if base == "XI" else base
                if isinstance(e.op, ast.Div) and is_xi_factor(e.right):
                    return "XI" if l == "L" else l
                if isinstance(e.op, (ast.Add, ast.Sub)):
                    if l and r and l != r:
                        problems.append((f, e, f"`{norm(e)[:60]}` combines mesh coordinates in units of the coherence length with coordinates in length units"))
                    return l or r
                return None
            if isinstance(e, ast.Call) and norm(e.func).split(".")[-1] in ("array", "asarray", "copy", "atleast_2d") and e.args:
                return scale(e.args[0], depth + 1)
            return None
        for c in own_nodes(fn):
            if isinstance(c, ast.Call) and isinstance(c.func, ast.Attribute) and c.func.attr == "_create_dimensionless_mesh" and c.args:
                sinks += 1
                arg0 = c.args[0]
                if isinstance(arg0, ast.Starred):
                    # `_create_dimensionless_mesh(*pair)`: the first element of the pair
                    cand = [arg0.value] if isinstance(arg0.value, ast.Tuple) else \
                        [v for _, v in asg.get(arg0.value.id, []) if isinstance(v, ast.Tuple)] if isinstance(arg0.value, ast.Name) else []
                    firsts = [t.elts[0] for t in cand if t.elts]
                    if firsts and all(scale(x) == "XI" for x in firsts):
                        problems.append((f, c, f"`{norm(c)[:70]}` is handed coordinates of the device's own (dimensionless) mesh; it divides by the coherence length itself"))
                    continue
                if scale(c.args[0]) == "XI":
                    problems.append((f, c, f"`{norm(c)[:70]}` is handed coordinates of the device's own (dimensionless) mesh; it divides by the coherence length itself"))
            elif isinstance(c, ast.BinOp):
                scale(c)
    if sinks < 2:
        raise AnalysisError(f"only {sinks} calls of Device._create_dimensionless_mesh found")
    seen = set()
    for f, node, msg in problems:
        if (f.fq, msg) in seen:
            continue
        seen.add((f.fq, msg))
        ctx.ob("R18.10", f"coordinate scale error: {msg[:80]}", False, where=f.fq, construct=f"coordinate scales in {f.qual}: {msg[:50]}", loc=loc(f, node),
               message=f"{f.qual}: {msg}",
               consequence="translating a meshed device in place (translate(inplace=True), `with device.translation(...)`) with a coherence length other than 1 "
                           "shrinks / shifts the mesh by the wrong amount: the mesh sites leave the film")
    ctx.ob("R18.10", f"{sinks} mesh (re)builds of Device are handed length-unit points; no sum mixes the two scales", not problems,
           detail={"sinks": sinks}, where=D.fq, construct="coordinate scales of Device (summary)", message="see the coordinate scale errors above",
           consequence="see above")
