"""C18 - polygon and device geometry: dispatch, in-place discipline, deep copies, stored-vertex normalisation."""
from __future__ import annotations

import ast

from ..cfg import guards_of, parent_map
from ..dataflow import assignments, expanded_text
from ..src import AnalysisError, loc, norm, own_nodes, rename_id

POLY = "tdgl.device.polygon"
DEV = "tdgl.device.device"
TECH = ("dispatch-table agreement (operator -> method -> shapely operation), alias discipline for the inplace flag, "
        "who-may-write on the stored vertices, boolean-structure check of device membership")


def check(ctx):
    repo = ctx.repo
    P = repo.cls(POLY, "Polygon")
    D = repo.cls(DEV, "Device")
    ctx.rule("R18.9", "coordinate arrays stored on devices and polygons are rebound to new arrays by the transformations, never written element by element "
                      "(an elementwise store casts to the dtype the user happened to supply)", 1)
    ctx.rule("R18.8", "memoised geometry (cached properties, lazy attributes) is invalidated by every method that rebinds what it was computed from", 2)
    ctx.rule("R18.7", "set operations and copies return a new object, never the receiver (also for zero operands)", 5)
    ctx.rule("R18.6", "the mesh shared between a device and its copies is never modified in place", 1)
    ctx.rule("R18.1", "operators, set-operation methods, from_* constructors and _join_via agree on the operation name", 10)
    ctx.rule("R18.2", "with an inplace flag every store goes through the alias `self if inplace else self.copy()`; geometry is computed from self", 4)
    ctx.rule("R18.3", "copies are deep (vertices, layer, film, holes, terminals, probe points)", 2)
    ctx.rule("R18.4", "stored vertices are written only by the points setter, whose chain is Polygon -> orient -> validity -> close_curve", 3)
    ctx.rule("R18.5", "device membership == film and not (any hole), radius passed with opposite signs", 1)
    ops = {"__add__": "union", "__sub__": "difference", "__mul__": "intersection"}
    for d, m in ops.items():
        f = P.methods.get(d)
        rets = [norm(n.value) for n in own_nodes(f.node) if isinstance(n, ast.Return)] if f else []
        ctx.ob("R18.1", f"Polygon.{d} -> self.{m}(other)", rets == [f"self.{m}(other)"], detail=rets, where=f"{P.fq}.{d}",
               construct=d, loc=loc(f, f.node) if f else "", message=f"{d} returns {rets}",
               consequence=f"`a {'+-*'[list(ops).index(d)]} b` computes a different set operation than documented")
    for m in ("union", "intersection", "difference"):
        f = P.methods[m]
        dele = _delegation(P, f, m)
        if dele is not None:
            ok_d, det_d = dele
            ctx.ob("R18.1", f"Polygon.{m}: delegates to a loop helper that applies '{m}' to every operand in order, keeping name/mesh", ok_d,
                   detail=det_d, where=f.fq, construct=m, loc=loc(f, f.node), message=f"Polygon.{m} delegates as {det_d}",
                   consequence=f"{m} of several polygons applies another operation to the later operands or loses the name")
        else:
            jv = [n for n in ast.walk(f.node) if isinstance(n, ast.Call) and norm(n.func) == "self._join_via"]
            ok = len(jv) == 1 and len(jv[0].args) == 2 and isinstance(jv[0].args[1], ast.Constant) and jv[0].args[1].value == m
            rec = [n for n in ast.walk(f.node) if isinstance(n, ast.Call) and isinstance(n.func, ast.Attribute) and n.func.attr == m
                   and isinstance(n.func.value, ast.Call)]
            ok = ok and len(rec) == 1
            pc = [n for n in ast.walk(f.node) if isinstance(n, ast.Call) and norm(n.func) == "Polygon"]
            kw = {k.arg: norm(k.value) for k in pc[0].keywords} if pc else {}
            ok = ok and kw.get("name") == "name or self.name" and kw.get("mesh") == "self.mesh"
            empty = [n for n in own_nodes(f.node) if isinstance(n, ast.If) and norm(n.test) == "not others"
                     and [norm(x.value) for x in n.body if isinstance(x, ast.Return)] == ["self.copy()"]]
            ctx.ob("R18.1", f"Polygon.{m}: _join_via(first, '{m}'), recursion on .{m}(*rest), keeps name/mesh, no operands -> copy",
                   ok and len(empty) == 1, detail={"join": [norm(j) for j in jv], "kwargs": kw}, where=f.fq, construct=m, loc=loc(f, f.node),
                   message=f"Polygon.{m} dispatches {[norm(j) for j in jv]} with {kw}",
                   consequence=f"{m} of several polygons applies another operation to the later operands or loses the name")
        fc = P.methods[f"from_{m}"]
        rets = [norm(n.value) for n in own_nodes(fc.node) if isinstance(n, ast.Return)]
        # structure (local names free): f, *r = items ; p = cls(..., points=f, ...) ; return p.<m>(*r)
        okc = False
        rv = [n.value for n in own_nodes(fc.node) if isinstance(n, ast.Return)]
        # canonical reading (single-use temporaries inlined): return cls(name=name, points=f, mesh=mesh).<m>(*r) with f, *r = items
        if len(rv) == 1 and isinstance(rv[0], ast.Call) and isinstance(rv[0].func, ast.Attribute) and rv[0].func.attr == m \
                and isinstance(rv[0].func.value, ast.Call) and norm(rv[0].func.value.func) == "cls" and len(rv[0].args) == 1 \
                and isinstance(rv[0].args[0], ast.Starred) and isinstance(rv[0].args[0].value, ast.Name) and not rv[0].keywords:
            rn = rv[0].args[0].value.id
            un = [n for n in own_nodes(fc.node) if isinstance(n, ast.Assign) and isinstance(n.targets[0], ast.Tuple) and len(n.targets[0].elts) == 2
                  and isinstance(n.targets[0].elts[1], ast.Starred) and norm(n.targets[0].elts[1].value) == rn and norm(n.value) == "items"]
            if len(un) == 1:
                kwp = {k.arg: norm(k.value) for k in rv[0].func.value.keywords}
                okc = kwp.get("points") == norm(un[0].targets[0].elts[0]) and kwp.get("name") == "name" and kwp.get("mesh") == "mesh"
        elif len(rv) == 1 and isinstance(rv[0], ast.Call) and isinstance(rv[0].func, ast.Attribute) and rv[0].func.attr == m \
                and isinstance(rv[0].func.value, ast.Name) and len(rv[0].args) == 1 and isinstance(rv[0].args[0], ast.Starred) \
                and isinstance(rv[0].args[0].value, ast.Name) and not rv[0].keywords:
            pn, rn = rv[0].func.value.id, rv[0].args[0].value.id
            asg_ = assignments(fc.node)
            pdef = [v for _, v in asg_.get(pn, []) if v is not None]
            un = [n for n in own_nodes(fc.node) if isinstance(n, ast.Assign) and isinstance(n.targets[0], ast.Tuple) and len(n.targets[0].elts) == 2
                  and isinstance(n.targets[0].elts[1], ast.Starred) and norm(n.targets[0].elts[1].value) == rn and norm(n.value) == "items"]
            if len(pdef) == 1 and isinstance(pdef[0], ast.Call) and norm(pdef[0].func) == "cls" and len(un) == 1:
                kwp = {k.arg: norm(k.value) for k in pdef[0].keywords}
                okc = kwp.get("points") == norm(un[0].targets[0].elts[0]) and kwp.get("name") == "name" and kwp.get("mesh") == "mesh"
        ctx.ob("R18.1", f"Polygon.from_{m} -> polygon.{m}(*rest)", okc, detail=rets, where=fc.fq,
               construct=f"from_{m}", loc=loc(fc, fc.node), message=f"from_{m} returns {rets}", consequence="constructor applies another operation")
    fj = P.methods["_join_via"]
    # the operation whitelist: the tuple of strings tested with `operation not in <name>`
    tests = [n for n in own_nodes(fj.node) if isinstance(n, ast.Compare) and isinstance(n.ops[0], ast.NotIn) and norm(n.left) == "operation"]
    names = None
    if len(tests) == 1:
        wl = expanded_text(fj.node, tests[0].comparators[0])
        try:
            names = sorted(ast.literal_eval(wl))
        except Exception:
            names = None
    disp = [n for n in ast.walk(fj.node) if isinstance(n, ast.Call) and isinstance(n.func, ast.Call) and norm(n.func.func) == "getattr"]
    ok = names == ["difference", "intersection", "union"] and len(disp) == 1 and norm(disp[0].func) == "getattr(self.polygon, operation)" \
        and len(disp[0].args) == 1 and isinstance(disp[0].args[0], ast.Name)
    if ok:
        other = disp[0].args[0].id
        defs = [norm(v) for _, v in assignments(fj.node).get(other, []) if v is not None]
        ok = sorted(defs) == sorted(["other.polygon", "geo.polygon.Polygon(other)"])
    ctx.ob("R18.1", "_join_via: operation in {union, intersection, difference}, dispatched on self.polygon with the other polygon", ok,
           detail={"valid": names, "dispatch": [norm(d) for d in disp]}, where=fj.fq, construct="_join_via dispatch", loc=loc(fj, fj.node),
           message=f"_join_via dispatch {[norm(d) for d in disp]} over {names}", consequence="operands are swapped (difference is not symmetric) or the wrong shapely method runs")

    # R18.2
    for cls, m in ((P, "rotate"), (P, "translate"), (P, "scale"), (D, "translate")):
        f = cls.methods[m]
        fn = f.node
        alias = [n for n in own_nodes(fn) if isinstance(n, ast.Assign) and isinstance(n.value, ast.IfExp)
                 and norm(n.value.test) == "inplace" and norm(n.value.body) == "self"]
        if cls is D:
            # if inplace: device = self else: device = self.copy(with_mesh=False)
            al = [n for n in own_nodes(fn) if isinstance(n, ast.If) and norm(n.test) == "inplace"]
            # <alias> = self / <alias> = self.copy(...) in the two branches, whatever the alias is called
            t1 = [x.targets[0].id for x in (al[0].body if al else []) if isinstance(x, ast.Assign) and isinstance(x.targets[0], ast.Name)
                  and norm(x.value) == "self"]
            t2 = [x.targets[0].id for x in (al[0].orelse if al else []) if isinstance(x, ast.Assign) and isinstance(x.targets[0], ast.Name)
                  and norm(x.value).startswith("self.copy(")]
            ok_alias = len(al) == 1 and len(t1) == 1 and t1 == t2
            name = t1[0] if t1 else "?"
        else:
            ok_alias = len(alias) == 1 and norm(alias[0].value.orelse) == "self.copy()"
            name = norm(alias[0].targets[0]) if alias else "?"
        self_stores = [f"L{n.lineno}: {norm(n)}" for n in own_nodes(fn) if isinstance(n, ast.Attribute) and isinstance(n.ctx, ast.Store)
                       and norm(n.value) == "self"]
        self_stores += [f"L{n.lineno}: {norm(n)[:50]}" for n in own_nodes(fn) if isinstance(n, ast.AugAssign) and norm(n.target).startswith("self.")]
        rets = [norm(n.value) for n in own_nodes(fn) if isinstance(n, ast.Return)]
        ok = ok_alias and not self_stores and rets == [name]
        if cls is P:
            st = [n for n in own_nodes(fn) if isinstance(n, ast.Assign) and norm(n.targets[0]) == f"{name}.points"]
            ok = ok and len(st) == 1 and "self.polygon" in norm(st[0].value)
        ctx.ob("R18.2", f"{cls.name}.{m}: stores only through `{name}` (= self if inplace else a copy)", ok,
               detail={"alias_ok": ok_alias, "stores_to_self": self_stores, "returns": rets}, where=f.fq, construct=f"{cls.name}.{m} inplace discipline",
               loc=loc(f, fn), message=f"{cls.name}.{m} writes to self although inplace may be False: {self_stores}",
               consequence="a non-in-place transformation mutates the original")
    # R18.3
    fc = P.methods["copy"]
    pc = [n for n in ast.walk(fc.node) if isinstance(n, ast.Call) and norm(n.func) == "Polygon"]
    ok = len(pc) == 1 and {k.arg: norm(k.value) for k in pc[0].keywords}.get("points") == "self.points.copy()"
    ctx.ob("R18.3", "Polygon.copy copies the vertex array", ok, detail=[norm(p) for p in pc], where=fc.fq, construct="Polygon.copy",
           loc=loc(fc, fc.node), message="Polygon.copy shares the vertex array", consequence="mutating the copy's vertices changes the original")
    fd = D.methods["copy"]
    dc = [n for n in ast.walk(fd.node) if isinstance(n, ast.Call) and norm(n.func) == "Device"]
    kw = {k.arg: expanded_text(fd.node, k.value) for k in dc[0].keywords} if len(dc) == 1 else {}

    def is_copy_comp(txt, coll):
        try:
            e = ast.parse(txt, mode="eval").body
        except SyntaxError:
            return False
        return isinstance(e, ast.ListComp) and len(e.generators) == 1 and norm(e.generators[0].iter) == coll and \
            isinstance(e.elt, ast.Call) and isinstance(e.elt.func, ast.Attribute) and e.elt.func.attr == "copy" and \
            norm(e.elt.func.value) == norm(e.generators[0].target)
    pp_defs = [norm(v) for _, v in assignments(fd.node).get(norm(dc[0].keywords[[k.arg for k in dc[0].keywords].index("probe_points")].value) if dc and "probe_points" in [k.arg for k in dc[0].keywords] else "?", []) if v is not None]
    missing = []
    if kw.get("layer") != "self.layer.copy()":
        missing.append("layer")
    if kw.get("film") != "self.film.copy()":
        missing.append("film")
    if not is_copy_comp(kw.get("holes", ""), "self.holes"):
        missing.append("holes")
    if not is_copy_comp(kw.get("terminals", ""), "self.terminals"):
        missing.append("terminals")
    if sorted(pp_defs) != ["None", "self.probe_points.copy()"] and kw.get("probe_points") != "self.probe_points.copy()":
        missing.append("probe_points")
    ctx.ob("R18.3", "Device.copy copies layer, film, every hole, every terminal and the probe points", not missing, detail={"kwargs": kw, "shared": missing},
           where=fd.fq, construct="Device.copy", loc=loc(fd, fd.node), message=f"Device.copy shares {missing}",
           consequence="Device.scale/rotate/translate(inplace=False) move the original's polygons")
    # R18.4
    writers = {}
    for f in repo.all_functions():
        for n in own_nodes(f.node):
            if isinstance(n, ast.Attribute) and n.attr == "_points" and isinstance(n.ctx, ast.Store):
                writers.setdefault(f.fq, 0)
                writers[f.fq] += 1
    ok = set(writers) == {f"{POLY}:Polygon.points"}
    ctx.ob("R18.4", "only the points setter writes _points", ok, detail=writers, where=P.fq, construct="writers of _points",
           message=f"_points is written by {sorted(writers)}", consequence="vertices bypass orientation/closure normalisation")
    fs = P.methods["points"]
    # what is stored, read backwards along the reaching definitions (temporaries and rebinding of one name both disappear):
    # close_curve( ... orient( ... Polygon(<input>) ... ) ... ) in that nesting order
    from ..dataflow import expand_at
    stores = [n for n in own_nodes(fs.node) if isinstance(n, ast.Assign) and any(norm(t) == "self._points" for t in n.targets)]
    steps = []
    ok = len(stores) == 1
    if ok:
        ex = expand_at(fs.node, stores[0].value, stores[0])
        steps = [norm(ex)[:200]]

        def inner(node, name):
            return [c for c in ast.walk(node) if isinstance(c, ast.Call) and norm(c.func).split(".")[-1] == name and c is not node]
        cc = [ex] if isinstance(ex, ast.Call) and norm(ex.func).split(".")[-1] == "close_curve" else []
        ok = bool(cc) and any(any(inner(o, "Polygon") for o in inner(c, "orient")) for c in cc)
    ctx.ob("R18.4", "setter chain: shapely Polygon -> orient (counter-clockwise) -> ... -> close_curve -> store", ok, detail=steps,
           where=fs.fq, construct="points setter chain", loc=loc(fs, fs.node), message=f"setter steps: {steps}",
           consequence="stored vertices may be clockwise or open (after a reflection, `scale(xfact=-1)`)")
    muts = []
    for f in repo.all_functions():
        for n in own_nodes(f.node):
            if isinstance(n, ast.AugAssign) and isinstance(n.target, ast.Attribute) and n.target.attr == "points":
                muts.append(f"{f.fq} L{n.lineno}")
            if isinstance(n, ast.Subscript) and isinstance(n.ctx, ast.Store) and isinstance(n.value, ast.Attribute) and n.value.attr == "points":
                muts.append(f"{f.fq} L{n.lineno}")
    ctx.ob("R18.4", "the library never mutates `.points` arrays in place", not muts, detail=muts, where="repo", construct="in-place .points mutation",
           message=f"in-place vertex mutation at {muts}", consequence="orientation/closure invariants are bypassed")
    # R18.5: truth table of the membership function (for one query point and 0..3 holes); falls back to the structural form
    f = D.methods["contains_points"]
    from ..pointwise import NotPointwise, truth_table
    try:
        rows, uses = truth_table(f.node)
        wrong = [(n, fi_, hs, r) for n, fi_, hs, r in rows if r != (fi_ and not any(hs))]
        det = {"assignments": len(rows), "wrong": [f"{n} hole(s): in film={fi_}, in holes={hs} -> {r}" for n, fi_, hs, r in wrong[:4]],
               "radius_signs": sorted(map(str, uses))}
        radius_ok = uses <= {("film", "+"), ("hole", "-"), ("film", None), ("hole", None)} and (("film", "+") in uses) == (("hole", "-") in uses)
        ctx.ob("R18.5", f"truth table over {len(rows)} assignments (0-3 holes): inside == in film and in no hole", not wrong, detail=det,
               where=f.fq, construct="Device.contains_points truth table", loc=loc(f, f.node),
               message=f"Device.contains_points is wrong for {len(wrong)} of {len(rows)} truth assignments, e.g. {det['wrong'][:2]}",
               consequence="points inside a hole count as inside the device (or film points are excluded): probe points in holes are accepted, "
                           "post-processing masks are wrong",
               witness={"assignment": det["wrong"][:1]})
        ctx.ob("R18.5", "the margin is passed with opposite signs to the film and to the holes", radius_ok, detail=det["radius_signs"], where=f.fq,
               construct="Device.contains_points radius signs", loc=loc(f, f.node), message=f"radius signs used: {det['radius_signs']}",
               consequence="the margin grows the holes together with the film: boundary conventions of film and holes disagree")
    except NotPointwise as e:
        m = [n for n in own_nodes(f.node) if isinstance(n, ast.BinOp) and isinstance(n.op, (ast.BitAnd, ast.BitOr))]
        ok = False
        if len(m) == 1 and isinstance(m[0].op, ast.BitAnd):
            l, r = m[0].left, m[0].right
            ok = norm(l) == "self.film.contains_points(points, radius=radius)" and isinstance(r, ast.UnaryOp) and isinstance(r.op, ast.Invert) \
                and isinstance(r.operand, ast.Call) and norm(r.operand.func) == "np.logical_or.reduce" and len(r.operand.args) == 1 \
                and isinstance(r.operand.args[0], ast.ListComp)
        ctx.ob("R18.5", f"mask == film.contains(points, +radius) & ~any(hole.contains(points, -radius)) [structural; truth table not applicable: {e}]", ok,
               detail=[norm(x) for x in m], where=f.fq, construct="Device.contains_points", loc=loc(f, f.node),
               message=f"membership mask is {[norm(x) for x in m]} (and the function is outside the pointwise fragment: {e})",
               consequence="points inside holes count as inside the device (or film points are excluded)")
    from ..effects import mesh_immutable
    mesh_immutable(ctx, "R18.6", 'the mesh is the one object a device shares with its copies: modifying it in place changes the other device, whose polygons stay where they were')
    from ..effects import fresh_results
    fresh_results(ctx, "R18.7", [("tdgl.device.polygon", "Polygon", ["union", "intersection", "difference", "copy"]),
                                 ("tdgl.device.device", "Device", ["copy"])],
                  "a set operation with an empty operand list (base.difference(*notches) with notches == []) returns the original polygon: "
                  "an in-place transformation of the 'result' silently moves the original (and any device built from it)")
    from ..effects import memo_discipline
    memo_discipline(ctx, "R18.8", "after an in-place transformation (translate / rotate / scale with inplace=True, or assigning points) the polygon "
                                  "keeps answering membership and boundary queries with its old outline")
    from ..effects import coords_rebound_only
    coords_rebound_only(ctx, "R18.9", "probe points given as integers are truncated by scale() (or any transformation with a non-integral image): "
                                      "the points no longer map consistently with the shapes, and can leave the film")
    ctx.decline("areas under affine maps, agreement of set operations with point-wise membership, boundary conventions: computed by shapely / matplotlib")


def _delegation(P, f, m):
    """Second accepted shape of a set operation: `return self.<helper>(others, "<m>", ...name...)` with a helper of the form
    `acc = self | self.copy(); for o in <others>: acc = Polygon(name=name or self.name, points=acc._join_via(o, <operation>), mesh=self.mesh); return acc`.
    Returns None when the method is not a delegation (the recursive shape is judged instead)."""
    rets = [n.value for n in own_nodes(f.node) if isinstance(n, ast.Return)]
    if len(rets) != 1 or not isinstance(rets[0], ast.Call) or not isinstance(rets[0].func, ast.Attribute) \
            or norm(rets[0].func.value) != "self" or rets[0].func.attr not in P.methods or rets[0].func.attr == "copy":
        return None
    call = rets[0]
    h = P.methods[call.func.attr]
    hp = [a.arg for a in h.node.args.args[1:]]
    bound = {}
    for i, a in enumerate(call.args):
        if i < len(hp):
            bound[hp[i]] = a
    for k in call.keywords:
        bound[k.arg] = k.value
    det = {"helper": h.qual, "arguments": {k: norm(v) for k, v in bound.items()}}
    opp = [k for k, v in bound.items() if isinstance(v, ast.Constant) and v.value == m]
    seqp = [k for k, v in bound.items() if norm(v) == "others"]
    loops = [n for n in own_nodes(h.node) if isinstance(n, ast.For)]
    if len(opp) != 1 or len(seqp) != 1 or len(loops) != 1 or norm(loops[0].iter) != seqp[0] or not isinstance(loops[0].target, ast.Name):
        return False, det
    lp = loops[0]
    body = [s_ for s_ in lp.body if not isinstance(s_, ast.Expr)]
    if len(body) != 1 or not isinstance(body[0], ast.Assign) or not isinstance(body[0].targets[0], ast.Name) or not isinstance(body[0].value, ast.Call):
        return False, det
    acc = body[0].targets[0].id
    c = body[0].value
    kw = {k.arg: norm(k.value) for k in c.keywords}
    det["loop_body"] = norm(body[0])[:160]
    ok = norm(c.func) == "Polygon" and kw.get("points") == f"{acc}._join_via({lp.target.id}, {opp[0]})" and kw.get("mesh") == "self.mesh" \
        and kw.get("name") in ("name or self.name",) and bound.get("name") is not None and norm(bound["name"]) == "name"
    hr = [norm(n.value) for n in own_nodes(h.node) if isinstance(n, ast.Return)]
    ok = ok and hr and all(r == acc for r in hr)
    return bool(ok), det
