"""C05 - frames, times and per-step records are consistent."""
from __future__ import annotations

import ast
import copy
from collections import deque
from typing import Dict, List, Optional, Set, Tuple

from ..cfg import Builder, CFG, guards_of, parent_map
from ..dataflow import assignments
from ..src import AnalysisError, FuncInfo, loc, norm, own_nodes

RUNNER = "tdgl.solver.runner"
SOLVER = "tdgl.solver.solver"
DATA = "tdgl.solution.data"
SOLN = "tdgl.solution.solution"
TECH = ("predicates on the traces of the simulation loop: Runner._run_stage / Runner.run followed statement by statement over a finite abstract domain "
        "(97 scenarios incl. interrupts with cancel / pause / resume) with a model update function and frame writer; per-step records compared "
        "between the traces of update() and what Runner(...) receives; abstract shape domain {1, many} for the record buffers writer vs reader; "
        "prefix-sum (inclusive/exclusive) typing of reported times")


# ---------------------------------------------------------------------------
# event classification in _run_stage
# ---------------------------------------------------------------------------

def _is_state_store(s: ast.stmt, key: str) -> bool:
    return isinstance(s, ast.Assign) and any(
        isinstance(t, ast.Subscript) and norm(t.value) == "self.state" and isinstance(t.slice, ast.Constant)
        and t.slice.value == key for t in s.targets)


SAVE_CALLS = ("save_step", "self.data_handler.save_time_step")     # the closure of today's tree, or its body read at the call site


def classify(fi: FuncInfo, cfg: CFG) -> Dict[int, str]:
    """CFG node id -> event (LABEL / CALL / UPDATE / SAVE / ADVANCE)."""
    ev: Dict[int, str] = {}
    for n in cfg.nodes:
        s = n.ast
        if n.kind != "stmt" or s is None:
            continue
        if _is_state_store(s, "step"):
            ev[n.id] = "LABEL"
        elif isinstance(s, ast.AugAssign) and norm(s.target) == "self.time" and isinstance(s.op, ast.Add):
            ev[n.id] = "ADVANCE"
        elif isinstance(s, ast.Assign) and any(
                norm(x) == "self.values" and isinstance(getattr(x, "ctx", None), ast.Store)
                for t in s.targets for x in ast.walk(t)):
            ev[n.id] = "UPDATE"
        elif any(isinstance(c, ast.Call) and norm(c.func) in SAVE_CALLS
                 for c in ast.walk(s)):
            ev[n.id] = "SAVE"
        elif any(isinstance(c, ast.Call) and norm(c.func) == "self.function" for c in ast.walk(s)):
            ev[n.id] = "CALL"
    return ev


def may_raise_factory():
    """Exception injection points named by the properties: the update call and the frame writer."""
    def may_raise(sub: ast.AST) -> bool:
        for c in ast.walk(sub):
            if isinstance(c, ast.Call) and norm(c.func) in ("self.function", "save_step", "self.data_handler.save_time_step", "input"):
                return True
        return isinstance(sub, ast.Raise)
    return may_raise


STATES = ("S0", "S1", "S2")   # consistent | content one update ahead of its label | clock advanced, relabel pending


def typestate(fi: FuncInfo):
    cfg = Builder(fi.node, may_raise_factory()).build()
    ev = classify(fi, cfg)
    kinds = set(ev.values())
    need = {"LABEL", "UPDATE", "SAVE", "ADVANCE", "CALL"}
    if "CALL" not in kinds and any(ev.get(n.id) == "UPDATE" and any(isinstance(c, ast.Call) and norm(c.func) == "self.function"
                                                                    for c in ast.walk(n.ast)) for n in cfg.nodes if n.ast is not None):
        kinds.add("CALL")       # the update is stored by the statement that calls it
    if not need <= kinds:
        raise AnalysisError(f"_run_stage lost the events {sorted(need - kinds)} (label/update/save/advance idioms changed)")
    # a state (n, st) is "node n is entered in typestate st"; the event of n is applied on its normal exits only: an exception
    # raised inside `new_dt, *self.values = self.function(...)` leaves the statement before the store
    start = (cfg.entry, "S0")
    prev: Dict[Tuple[int, str], Tuple[Tuple[int, str], str]] = {}
    seen = {start}
    dq = deque([start])
    problems = []   # (predecessor state, node, edge label, what)
    visits: Dict[int, Set[str]] = {}
    while dq:
        nid, st = dq.popleft()
        e = ev.get(nid)
        ns = st
        bad = None
        visits.setdefault(nid, set()).add(st)
        if e == "SAVE":
            if st != "S0":
                bad = f"frame saved while the state holds {'one more update than' if st == 'S1' else 'a different time than'} its label says"
        elif e == "UPDATE":
            if st != "S0":
                bad = "a second update is applied before the frame label was refreshed"
            ns = "S1"
        elif e == "ADVANCE":
            if st != "S1":
                bad = "the clock advances without a new update"
            ns = "S2"
        elif e == "LABEL":
            if st == "S1":
                bad = "the step label is refreshed although the clock was not advanced for the last update"
            ns = "S0"
        if bad and (nid, st) in prev:
            src, lab = prev[(nid, st)]
            problems.append((src, nid, lab, bad))
        for succ, lab in cfg.succ[nid]:
            key = (succ, st if lab == "exc" else ns)
            if key not in seen:
                seen.add(key)
                prev[key] = ((nid, st), lab)
                dq.append(key)
    return cfg, ev, problems, prev, visits


def witness(cfg: CFG, prev, at: Tuple[int, str], last_edge: Tuple[int, str]) -> List[str]:
    path = []
    cur = at
    while cur in prev:
        (p, lab) = prev[cur]
        path.append((cur[0], lab, cur[1]))
        cur = p
    path = path[::-1]
    out = []
    for nid, lab, st in path:
        n = cfg.nodes[nid]
        if n.kind in ("stmt", "if", "for", "break", "except", "return") and n.ast is not None:
            out.append(f"--{lab}--> L{n.line} [{st}] {n.text()[:90]}")
    out.append(f"--{last_edge[1]}--> L{cfg.nodes[last_edge[0]].line} {cfg.nodes[last_edge[0]].text()[:90]}")
    # keep the tail: from the last UPDATE onwards is what matters
    return out[-14:]


# ---------------------------------------------------------------------------
def frame_contents(ctx):
    """R05.14.  DataHandler.save_time_step is followed (pvs/shapes.py) for frame 0 and two further frames with the state
    {step: i * buffer, time: i, dt: 1}, the data {psi, mu} and records {dt, mu, theta, screening_iterations}; afterwards the model
    output file must hold data/0, data/1, data/2, each with the attributes step / time / dt equal to what was handed in, the datasets
    psi and mu, and (frames 1, 2) a running_state group with the four records."""
    from ..shapes import MANY, write_frames
    repo = ctx.repo
    f = repo.func(RUNNER, "DataHandler.save_time_step")
    sizes = {"dt": 1, "mu": MANY, "theta": MANY, "screening_iterations": 1}
    out, problems = write_frames(repo, sizes, MANY, 2)
    if problems:
        raise AnalysisError(f"the frame writer does not run through in the model: {problems[0]}")
    data = out.items["data"]
    names = sorted(map(str, data.items))
    ctx.ob("R05.14", "three calls of the frame writer leave the frame groups 0, 1, 2", names == ["0", "1", "2"], detail=names, where=f.fq, loc=loc(f, f.node),
           construct="frame group names", message=f"after three frames the output file holds the groups {names}",
           consequence="frames are not numbered consecutively from 0: get_data_range / the frame reader address other groups than the writer made")
    bad = []
    for i, k in enumerate(k_ for k_ in data.items if str(k_) in ("0", "1", "2")):
        g = data.items[k]
        attrs = {str(a): v for a, v in g.attrs.items.items()}
        want = {"step": i * MANY, "time": float(i), "dt": 1.0}
        for a, v in want.items():
            if a not in attrs:
                bad.append(f"frame {k}: attribute `{a}` is not written")
            elif attrs[a] != v:
                bad.append(f"frame {k}: attribute `{a}` is {attrs[a]!r}, the state handed in says {v!r}")
        have = set(map(str, g.items))
        for d in ("psi", "mu"):
            if d not in have:
                bad.append(f"frame {k}: dataset `{d}` is not written")
        if i >= 1:
            rs = next((g.items[x] for x in g.items if str(x) == "running_state"), None)
            recs = set(map(str, rs.items)) if rs is not None else set()
            for r in sizes:
                if r not in recs:
                    bad.append(f"frame {k}: record `{r}` is not written")
    ctx.ob("R05.14", "each frame carries step / time / dt of its state, its arrays and (from frame 1) its records", not bad, detail=bad[:6], where=f.fq,
           loc=loc(f, f.node), construct="frame contents", message="; ".join(bad[:3]),
           consequence="a frame without (or with wrong) labels cannot be matched to a step and a time: Solution.times, closest_solve_step and the "
                       "per-step records lose their anchor")


def completed_records_kept(ctx):
    """R05.13.  The cursor `RunningState.step` is the column the step in progress writes to; it is advanced after the update
    returns, so columns below it hold the records of completed steps.  Every column store in a method of RunningState is classified by
    its column index: `self.step` (the record in progress: append), a whole-buffer reset (clear), or `self.step - k`, k >= 1 - a
    completed record.  The last kind is a violation when the method is called from anywhere in the package."""
    repo = ctx.repo
    RS = repo.cls(RUNNER, "RunningState")
    from ..callgraph import CallGraph
    cg = CallGraph(repo)
    called = {h for outs in cg.edges.values() for h in outs}
    n = 0
    n_any = [0]
    for name, m in RS.methods.items():
        for x in ast.walk(m.node):
            if not (isinstance(x, ast.Subscript) and isinstance(x.ctx, ast.Store)):
                continue
            sl = x.slice
            n_any[0] += 1
            if isinstance(sl, ast.Name):            # `column = (slice(None), self.step); buffer[column] = value`
                from ..dataflow import assignments
                defs = [v for _, v in assignments(m.node).get(sl.id, []) if v is not None]
                sl = defs[0] if len(defs) == 1 else sl
            col = sl.elts[1] if isinstance(sl, ast.Tuple) and len(sl.elts) == 2 else None
            if col is None:
                continue
            n += 1
            below = isinstance(col, ast.BinOp) and isinstance(col.op, ast.Sub) and norm(col.left).endswith(".step") \
                and isinstance(col.right, ast.Constant) and isinstance(col.right.value, int) and col.right.value >= 1
            is_called = m.fq in called
            ctx.ob("R05.13", f"RunningState.{name}: column store `{norm(x)}` does not touch a completed record", not (below and is_called),
                   detail={"column": norm(col), "called": is_called}, where=m.fq, loc=loc(m, x), construct=f"column store {norm(x)} in RunningState.{name}",
                   message=f"RunningState.{name} stores into column `{norm(col)}`: the cursor points at the record in progress, so this is the record of the "
                           "last completed step",
                   consequence="a per-step record (dt, probe potentials and phases, screening iterations) of a completed step is erased: the frame written next has a "
                               "hole (dt = 0 is dropped by the reader as padding), the frame time no longer equals the sum of the recorded steps and "
                               "Solution.times disagrees with the frame labels")
    if n < 1 and n_any[0] < 1:
        raise AnalysisError("no element store found in RunningState (append writes `values[name][:, self.step]` today)")
    if n < 1:
        ctx.ob("R05.13", "no method of RunningState addresses a single column by `cursor - k`", True, where=RS.fq, construct="column stores of RunningState")


def check(ctx):
    repo = ctx.repo
    ctx.rule("R05.12", "the per-step dt record and the clock use the dt of the accepted solve (shared with C12 R12.3/R12.4)", 5)
    ctx.rule("R05.11", "per-step records are concatenated in numeric step order (never in the lexicographic order of the group names)", 2)
    ctx.rule("R05.1", "label/content typestate on the CFG of _run_stage: every frame is saved with exactly as many updates "
                      "applied as its step label says, on every path incl. KeyboardInterrupt from the update and the writer", 1)
    ctx.rule("R05.9", "the final step is saved exactly once: on the last iteration (stop test true) exactly one save executes, for "
                      "both residues of the step index modulo save_every", 2)
    ctx.rule("R05.8", "the run stops at the first step whose time reaches the requested time: `self.time >= end_time` tested before each update", 2)
    ctx.rule("R05.2", "save points: in-loop save under `i % save_every == 0`, final save under the complementary residue test; both under `save`", 3)
    ctx.rule("R05.3", "per-step records: each name appended once per update outside the retry/screening loops, under the same guards "
                      "under which solve() declares it; buffer cursor advanced once per advanced step; buffer cleared exactly when saved", 6)
    ctx.rule("R05.4", "rank agreement between the record writer and the reader on the shape domain {1, many}^2", 4)
    ctx.rule("R05.5", "thermalisation: first stage runs with save=False; clock, labels and record buffer are reset before the recorded stage", 4)
    ctx.rule("R05.10", "Solution.times has one entry per frame: the test 'is the final frame already among the periodic ones' is exact "
                       "(index arithmetic or == on strictly increasing times), never a tolerance test", 1)
    ctx.rule("R05.6", "reported frame times are exclusive prefix sums of dt (frame s <-> sum of the first s steps)", 1)
    ctx.rule("R05.7", "the reader's dt > 0 mask only drops unfilled buffer tail: buffers are zero-initialised", 2)
    frs = repo.func(RUNNER, "Runner._run_stage")
    ctx.rule("R05.14", "every frame group carries the labels (step, time, dt) of the state it was saved with, every array of the data it was handed and - "
                       "from the second frame on - every per-step record: the frame writer followed on the model output file", 2)
    frame_contents(ctx)
    ctx.rule("R05.13", "records of completed steps are never rewritten: outside clear(), no method of the record buffer stores into a column below the cursor", 1)
    completed_records_kept(ctx)

    loop_rules(ctx, frs)
    records(ctx, frs)
    ranks(ctx)
    from ..report import Shared
    from . import c12
    sh = Shared(ctx, {"R12.3": "R05.12", "R12.4": "R05.12"},
                consequence="the recorded dt (and hence the frame times, which are its prefix sums) is not the step that was actually taken")
    c12.retry_loop(sh)
    c12.step_reported(sh, repo.func(SOLVER, "TDGLSolver.update"))
    frame_order(ctx)
    times_typing(ctx)
    zero_init(ctx)
    ctx.assume("exceptions are injected at the update call and at the frame writer (the two points the properties name); "
               "asynchronous interrupts between two bookkeeping statements are outside the model")
    ctx.assume("h5py keeps creation order (track_order=True is passed when the data group is created)")
    ctx.decline("wall-clock timestamps; numeric values of the times")


def _residue_kind(test: ast.expr) -> Optional[Tuple[str, str]]:
    """('zero'|'nonzero', residue expression text) for `X % k == 0`, `X % k`, `X % k != 0`, `not X % k`."""
    t = test
    neg = False
    while isinstance(t, ast.UnaryOp) and isinstance(t.op, ast.Not):
        neg = not neg
        t = t.operand
    # comparisons are canonical (src._CanonCompare): `x % k > 0` reads `0 < x % k`
    if isinstance(t, ast.Compare) and len(t.ops) == 1 and isinstance(t.ops[0], ast.Lt) and isinstance(t.left, ast.Constant) \
            and t.left.value == 0 and isinstance(t.comparators[0], ast.BinOp) and isinstance(t.comparators[0].op, ast.Mod):
        t = ast.Compare(left=t.comparators[0], ops=[ast.NotEq()], comparators=[t.left])
    if isinstance(t, ast.Compare) and len(t.ops) == 1 and isinstance(t.comparators[0], ast.Constant) \
            and t.comparators[0].value == 0 and isinstance(t.left, ast.BinOp) and isinstance(t.left.op, ast.Mod):
        k = "zero" if isinstance(t.ops[0], ast.Eq) else ("nonzero" if isinstance(t.ops[0], (ast.NotEq, ast.Gt)) else None)
        if k is None:
            return None
        if neg:
            k = "nonzero" if k == "zero" else "zero"
        return k, norm(t.left)
    if isinstance(t, ast.BinOp) and isinstance(t.op, ast.Mod):
        return ("zero" if neg else "nonzero"), norm(t)
    return None


def save_points(ctx, frs):
    fn = frs.node
    pm = parent_map(fn)
    saves = [n for n in own_nodes(fn) if isinstance(n, ast.Expr) and isinstance(n.value, ast.Call) and norm(n.value.func) in SAVE_CALLS]
    loops = [n for n in own_nodes(fn) if isinstance(n, ast.For)]
    if len(loops) != 1:
        raise AnalysisError("_run_stage no longer has exactly one loop")
    lp = loops[0]
    inloop = [s for s in saves if any(x is s for x in ast.walk(lp))]
    after = [s for s in saves if s not in inloop]
    ok = len(inloop) == 1 and len(after) == 1
    ctx.ob("R05.2", "exactly one save inside the loop and one after it", ok, detail=[f"L{s.lineno}" for s in saves],
           where=frs.fq, construct="save sites", loc=loc(frs, fn), message=f"save sites: {[s.lineno for s in saves]}",
           consequence="a step is recorded twice or the final step is never recorded")
    if not ok:
        return

    def conds(s):
        res, flags = [], []
        for g, br in guards_of(fn, s, pm):
            if not isinstance(g, ast.If):
                continue
            parts = g.test.values if isinstance(g.test, ast.BoolOp) and isinstance(g.test.op, ast.And) and br == "true" else [g.test]
            for p in parts:
                rk = _residue_kind(p)
                if rk:
                    k, e = rk
                    if br == "false":
                        k = "zero" if k == "nonzero" else "nonzero"
                    res.append((k, e))
                elif norm(p) == "save":
                    flags.append("save" if br == "true" else "not save")
        return res, flags
    r1, f1 = conds(inloop[0])
    r2, f2 = conds(after[0])
    ok = len(r1) == 1 and len(r2) == 1 and r1[0][0] == "zero" and r2[0][0] == "nonzero" and r1[0][1] == r2[0][1] \
        and "save_every" in r1[0][1]
    ctx.ob("R05.2", "in-loop save iff i % save_every == 0; final save iff i % save_every != 0 (complementary: the final step "
                    "is saved exactly once)", ok, detail={"in_loop": r1, "final": r2}, where=frs.fq,
           construct="save residue predicates", loc=loc(frs, after[0]),
           message=f"save predicates are {r1} in the loop and {r2} after it",
           consequence="the final step is saved twice or not at all for some (N, save_every)")
    ctx.ob("R05.2", "both saves are guarded by `save`", f1 == ["save"] and f2 == ["save"], detail={"in_loop": f1, "final": f2},
           where=frs.fq, construct="save flag", loc=loc(frs, inloop[0]), message=f"save flags: {f1}, {f2}",
           consequence="thermalisation steps are recorded")
    # the label passed to save_step is the loop index
    # (closure form: the index; body read at the call site: the label dictionary the index was stored in)
    args = [norm(s.value.args[0]) if s.value.args else None for s in saves]
    want = [norm(lp.target) if norm(s.value.func) == "save_step" else "self.state" for s in saves]
    ctx.ob("R05.2", "save_step is given the loop index", args == want, detail=args, where=frs.fq,
           construct="save_step argument", message=f"save_step arguments {args}", consequence="frame 0 handling (no records) is applied to the wrong frame")


def records(ctx, frs):
    """R05.3: per update, exactly the records that solve() declares for the same configuration are appended, once each - compared
    between the traces of update() (pvs/update_trace.py) and what Runner(...) receives (pvs/tables.py), per (probes, screening)."""
    repo = ctx.repo
    fu = repo.func(SOLVER, "TDGLSolver.update")
    from ..update_trace import all_traces
    from ..tables import runner_arguments
    declared = {}
    for sc, t in runner_arguments(repo):
        if t["running"] is None:
            raise AnalysisError("solve() no longer passes a table of record names and sizes as Runner(running_names_and_sizes=...)")
        declared.setdefault((sc["probes"], sc["screening"]), set()).add(tuple(sorted(t["running"])))
    problems = {}
    seen = {}
    for t in all_traces(repo):
        if t.outcome[0] != "return":
            continue
        sc = t.scenario
        key = (sc["probes"], sc["screening"])
        names = [e.args[0] for e in t.calls("append") if e.name.startswith("running_state") and e.args and isinstance(e.args[0], str)]
        decl = declared.get(key, set())
        seen.setdefault(key, set()).add(tuple(sorted(names)))
        if len(decl) != 1:
            problems[f"probes={key[0]} screening={key[1]}"] = f"solve() declares {sorted(decl)}"
            continue
        want = next(iter(decl))
        if tuple(sorted(names)) != want:
            tag = ", ".join(f"{k}={v}" for k, v in sc.items() if k != "max_iterations")
            problems.setdefault(f"probes={key[0]} screening={key[1]}", f"[{tag}] appends {sorted(names)}, solve() declares {list(want)}")
    for key in sorted(declared):
        tag = f"probes={key[0]} screening={key[1]}"
        ctx.ob("R05.3", f"records with {tag}: each declared record is appended exactly once per update, nothing else is", tag not in problems,
               detail={"declared": sorted(declared[key]), "appended": sorted(seen.get(key, []))}, where=fu.fq,
               construct=f"running_state.append under {tag}", loc=loc(fu, fu.node),
               message=f"records with {tag}: {problems.get(tag)}",
               consequence="a per-step record appears twice/never per step, or is written into a buffer that was not allocated")


def abs_transform(stmts, var: str, shape: Tuple[str, ...], value_expr: ast.expr) -> Optional[Tuple[str, ...]]:
    """Abstractly evaluate the expression stored into the record group for an input buffer of `shape`."""
    env = {var: shape}

    def ev(e):
        if isinstance(e, ast.Name):
            return env.get(e.id)
        if isinstance(e, ast.Call):
            fn_ = norm(e.func)
            if fn_ == "_get" and e.args:
                return ev(e.args[0])
            if fn_.endswith("squeeze") and e.args:
                sh = ev(e.args[0])
                if sh is None:
                    return None
                ax = None
                for k in e.keywords:
                    if k.arg == "axis" and isinstance(k.value, ast.Constant):
                        ax = k.value.value
                if len(e.args) > 1 and isinstance(e.args[1], ast.Constant):
                    ax = e.args[1].value
                if ax is None:
                    return tuple(d for d in sh if d != "1")
                if sh[ax] != "1":
                    return ("ERROR",)
                return tuple(d for i, d in enumerate(sh) if i != (ax % len(sh)))
            if fn_.endswith(("asarray", "array", "ascontiguousarray")) and e.args:
                return ev(e.args[0])
            if fn_.endswith("atleast_1d") and e.args:
                sh = ev(e.args[0])
                return sh if sh else ("1",)
            return None
        if isinstance(e, ast.Subscript):
            sh = ev(e.value)
            if sh is None:
                return None
            if isinstance(e.slice, ast.Constant) and isinstance(e.slice.value, int):
                return sh[1:]
            return None
        if isinstance(e, ast.IfExp):
            t = test(e.test)
            if t is None:
                return None
            return ev(e.body if t else e.orelse)
        return None

    def test(t):
        # x.shape[k] == 1 / != 1 / > 1
        if isinstance(t, ast.Compare) and len(t.ops) == 1 and isinstance(t.comparators[0], ast.Constant) \
                and isinstance(t.left, ast.Subscript) and isinstance(t.left.value, ast.Attribute) and t.left.value.attr == "shape" \
                and isinstance(t.left.slice, ast.Constant):
            sh = ev(t.left.value.value)
            if sh is None:
                return None
            d = sh[t.left.slice.value]
            c = t.comparators[0].value
            if c == 1:
                if isinstance(t.ops[0], ast.Eq):
                    return d == "1"
                if isinstance(t.ops[0], (ast.NotEq, ast.Gt)):
                    return d != "1"
        return None

    def run(body):
        for s in body:
            if isinstance(s, ast.Assign) and len(s.targets) == 1 and isinstance(s.targets[0], ast.Name):
                env[s.targets[0].id] = ev(s.value)
            elif isinstance(s, ast.If):
                t = test(s.test)
                if t is None:
                    return False
                if not run(s.body if t else s.orelse):
                    return False
        return True
    if not run(stmts):
        return None
    return ev(value_expr)


def frame_writer_funcs(repo) -> List[FuncInfo]:
    """save_time_step and the DataHandler methods it calls (transitively)."""
    dh = repo.cls(RUNNER, "DataHandler")
    out = [dh.methods["save_time_step"]]
    i = 0
    while i < len(out):
        for n in ast.walk(out[i].node):
            if isinstance(n, ast.Call) and isinstance(n.func, ast.Attribute) and isinstance(n.func.value, ast.Name) \
                    and n.func.value.id == "self" and n.func.attr in dh.methods and dh.methods[n.func.attr] not in out:
                out.append(dh.methods[n.func.attr])
        i += 1
    return out


def ranks(ctx):
    """R05.4 on the abstract shape domain (pvs/shapes.py): the frame writer is followed with record buffers of shape
    (size, buffer) - size 1 for dt / screening iterations, several rows for the probe records; buffer 1 (save_every == 1) or larger -
    into a model output file, and DynamicsData.from_hdf5 is followed on that file."""
    from ..shapes import MANY, Arr, read_records, write_frames
    repo = ctx.repo
    fr = repo.func(DATA, "DynamicsData.from_hdf5")
    fw = repo.cls(RUNNER, "DataHandler").methods["save_time_step"]
    configs = [("dt only", {"dt": 1}), ("probes", {"dt": 1, "mu": MANY, "theta": MANY}),
               ("screening", {"dt": 1, "screening_iterations": 1}),
               ("probes and screening", {"dt": 1, "mu": MANY, "theta": MANY, "screening_iterations": 1})]
    for label, sizes in configs:
        for buffer in (1, MANY):
            frames = 2
            out, problems = write_frames(repo, sizes, buffer, frames)
            kind, val = read_records(repo, out, frames + 1) if not problems else ("raise", problems[0])
            want = {"dt": (frames * buffer,), "mu": (MANY, frames * buffer), "theta": (MANY, frames * buffer), "screening_iterations": (frames * buffer,)}
            got = {}
            if kind == "return" and getattr(val, "parts", None) and val.parts[0] == "call":
                names = ["dt", "mu", "theta", "screening_iterations"]
                passed = dict(zip(names, val.parts[2]))
                passed.update(val.parts[3])
                got = {k: (v.shape if isinstance(v, Arr) else v) for k, v in passed.items()}
            ok = kind == "return" and all(got.get(k) == want[k] for k in sizes) and all(got.get(k) is None for k in want if k not in sizes)
            se = "== 1" if buffer == 1 else "> 1"
            ctx.ob("R05.4", f"records ({label}) with save_every {se}: what the frame writer stores is what the reader concatenates", ok,
                   detail={"buffers": {k: (v, buffer) for k, v in sizes.items()}, "loaded": {k: str(v) for k, v in got.items()},
                           "outcome": kind if kind == "return" else f"raises {val}"},
                   nontrivial=(buffer == 1), where=fw.fq, construct=f"record ranks ({label}) with save_every {se}", loc=loc(fw, fw.node),
                   message=f"records ({label}), save_every {se}: loading {'raises ' + str(val) if kind != 'return' else 'gives ' + str(got)}, expected {want}",
                   consequence="any run with save_every=1 cannot be loaded: ValueError 'zero-dimensional arrays cannot be "
                               "concatenated' in DynamicsData.from_hdf5 (tdgl.solve raises after the simulation finished)",
                   witness={"input": "SolverOptions(solve_time=..., save_every=1)"})
    # a file whose only frame carries no records (cancelled during the first step) still loads
    out, problems = write_frames(repo, {"dt": 1}, MANY, 0)
    kind, val = read_records(repo, out, 1) if not problems else ("raise", problems[0])
    ctx.ob("R05.4", "a file with frame 0 only (no records yet) loads with empty records", kind == "return", detail=str(val)[:200], where=fr.fq,
           construct="records of a run cancelled in its first step", loc=loc(fr, fr.node), message=f"loading raises {val}",
           consequence="a run cancelled during its first step cannot be loaded")


def thermalisation(ctx):
    repo = ctx.repo
    f = repo.func(RUNNER, "Runner.run")
    fn = f.node
    pm = parent_map(fn)
    calls = [n for n in own_nodes(fn) if isinstance(n, ast.Call) and norm(n.func) == "self._run_stage"]
    if len(calls) != 2:
        raise AnalysisError("Runner.run no longer runs two stages")
    kw = [{k.arg: norm(k.value) for k in c.keywords} for c in calls]
    st0 = calls[0]
    while not isinstance(st0, ast.stmt):
        st0 = pm[id(st0)][0]
    g0 = [norm(g.test) for g, br in guards_of(fn, st0, pm) if isinstance(g, ast.If) and br == "true"]
    ok = kw[0].get("save") == "False" and kw[1].get("save") == "True" and g0 == ["self.options.skip_time"] \
        and kw[0].get("end_time") == "self.options.skip_time" and kw[1].get("end_time") == "self.options.solve_time"
    ctx.ob("R05.5", "thermalisation stage: save=False until skip_time; recorded stage: save=True until solve_time", ok,
           detail=kw, where=f.fq, construct="stages", loc=loc(f, calls[0]), message=f"stages are called with {kw} under {g0}",
           consequence="thermalisation frames are recorded, or the recorded stage is not")
    # resets between the stages: unconditional top-level statements after the first stage
    top = fn.body
    idx2 = max(i for i, s in enumerate(top) if any(x is calls[1] for x in ast.walk(s)))
    idx1 = max(i for i, s in enumerate(top) if any(x is calls[0] for x in ast.walk(s)))
    between = [norm(s) for s in top[idx1 + 1: idx2]]
    want = ["self.time = 0", "self.state['step'] = 0", "self.state['time'] = self.time"]
    ok = all(w in between for w in want) and any(b.startswith("self.state['dt'] = ") for b in between)
    ctx.ob("R05.5", "clock and labels are reset between the stages", ok, detail=between, where=f.fq, construct="reset between stages",
           loc=loc(f, top[idx1]), message=f"statements between the stages: {between}",
           consequence="recorded time does not restart from zero after thermalisation")
    clears = [n for n in ast.walk(top[idx1]) if isinstance(n, ast.Call) and norm(n.func) == "self.running_state.clear"]
    ctx.ob("R05.5", "the record buffer is cleared after thermalisation", len(clears) == 1, where=f.fq,
           construct="running_state.clear() after thermalisation", message="record buffer not cleared after thermalisation",
           consequence="thermalisation records leak into the first recorded frame")
    frs = repo.func(RUNNER, "Runner._run_stage")
    cfg = Builder(frs.node, may_raise_factory()).build()
    ev = classify(frs, cfg)
    fnr = frs.node
    pmr = parent_map(fnr)
    bad = []
    for nid, e in ev.items():
        if e == "SAVE":
            s = cfg.nodes[nid].ast
            gs = guards_of(fnr, s, pmr)
            ok = any(isinstance(g, ast.If) and br == "true" and ("save" in {norm(g.test)} | ({norm(v) for v in g.test.values}
                     if isinstance(g.test, ast.BoolOp) and isinstance(g.test.op, ast.And) else set())) for g, br in gs)
            if not ok:
                bad.append(f"L{s.lineno}")
    ctx.ob("R05.5", "every save is dominated by a test of `save`", not bad, detail=bad, where=frs.fq, construct="save dominated by flag",
           message=f"saves not under the save flag: {bad}", consequence="thermalisation frames are written")


def times_typing(ctx):
    """Tag propagation: cumsum -> Incl; [0]+Incl / insert(Incl,0,0) -> Excl; strided selection needs Excl."""
    repo = ctx.repo
    ft = repo.func(SOLN, "Solution.times")
    dd = repo.cls(DATA, "DynamicsData")
    post = dd.methods.get("__post_init__")
    time_tag = None
    if post is not None:
        for n in own_nodes(post.node):
            if isinstance(n, ast.Assign) and norm(n.targets[0]) == "self.time":
                time_tag = tag_expr(n.value, {})
    if time_tag is None:
        raise AnalysisError("DynamicsData.time is no longer derived in __post_init__")
    env = {"self.dynamics.time": time_tag}
    strided = []
    fn = ft.node
    alias: Dict[str, ast.expr] = {}

    class _Sub(ast.NodeTransformer):
        def visit_Name(self, n):
            return copy.deepcopy(alias[n.id]) if isinstance(n.ctx, ast.Load) and n.id in alias else n
    for s in fn.body:
        if isinstance(s, ast.Assign) and len(s.targets) == 1 and isinstance(s.targets[0], ast.Name):
            if isinstance(s.value, (ast.Attribute, ast.Name)):          # `dynamics = self.dynamics`
                alias[s.targets[0].id] = _Sub().visit(copy.deepcopy(s.value))
                continue
            s = _Sub().visit(copy.deepcopy(s))
            if isinstance(s.value, ast.Subscript) and isinstance(s.value.slice, ast.Slice) and s.value.slice.step is not None:
                strided.append((s, tag_expr(s.value.value, env)))
                env[s.targets[0].id] = tag_expr(s.value.value, env)
            else:
                env[s.targets[0].id] = tag_expr(s.value, env)
    if len(strided) != 1:
        raise AnalysisError("Solution.times no longer selects every save_every-th time with one strided slice")
    s, tg = strided[0]
    ctx.ob("R05.6", f"`{norm(s.value)}` strides over exclusive prefix sums (frame s <-> time after s steps)", tg == "Excl",
           detail={"strided": norm(s.value), "tag": tg, "DynamicsData.time": time_tag}, where=ft.fq, construct=norm(s.value),
           loc=loc(ft, s),
           message=f"`{norm(s.value)}` selects from {tg or 'untyped'} times: np.cumsum(dt) is the time *after* each step, so index s "
                   f"is the time of frame s+1",
           consequence="Solution.times is one step ahead of the frames: frames labelled t=[0, .004, .008, .011] are reported at "
                       "[.001, .005, .009, .012]; closest_solve_step() and time-dependent A(t) evaluation use the wrong time",
           witness={"input": "dt=1e-3 fixed, solve_time=0.0105, save_every=4"})
    final_frame_test(ctx, ft, s)


def final_frame_test(ctx, ft, strided_stmt):
    """R05.10: the number of reported times equals the number of frames for every (N, save_every): the final time is appended
    exactly when the last step is not a multiple of save_every."""
    fn = ft.node
    sname = norm(strided_stmt.targets[0])
    full = norm(strided_stmt.value.value)
    ifs = [n for n in own_nodes(fn) if isinstance(n, ast.If)
           and (sname in {x.id for x in ast.walk(n.test) if isinstance(x, ast.Name)} or "%" in norm(n.test))]
    det = [norm(i.test) for i in ifs]
    ok = False
    why = "no test found"
    if len(ifs) == 1:
        t = ifs[0].test
        calls = {norm(c.func).split(".")[-1] for c in ast.walk(t) if isinstance(c, ast.Call)}
        tolerant = calls & {"isclose", "allclose", "approx"} or any(
            isinstance(c, ast.Compare) and any(isinstance(o, (ast.Lt, ast.LtE, ast.Gt, ast.GtE)) for o in c.ops) for c in ast.walk(t))
        exact_values = isinstance(t, ast.Compare) and len(t.ops) == 1 and isinstance(t.ops[0], (ast.Eq, ast.NotEq)) and \
            {norm(t.left), norm(t.comparators[0])} == {f"{sname}[-1]", f"{full}[-1]"}
        modular = isinstance(t, ast.Compare) and len(t.ops) == 1 and isinstance(t.ops[0], (ast.Eq, ast.NotEq)) and "%" in norm(t) \
            and any(isinstance(c, ast.Constant) and c.value == 0 for c in [t.left] + t.comparators)
        ok = bool((exact_values or modular) and not tolerant)
        why = "tolerance test" if tolerant else ("exact" if ok else "unrecognised test")
    ctx.ob("R05.10", f"final-frame test in Solution.times is exact: {det}", ok, detail={"tests": det, "judged": why}, where=ft.fq,
           construct="final-frame test of Solution.times", loc=loc(ft, ifs[0]) if ifs else loc(ft, fn),
           message=f"Solution.times decides whether the final frame is already included with `{det}` ({why})",
           consequence="when the steps after the last periodic frame add up to less than the tolerance (tiny dt_init, or a long run: "
                       "1e-5 x total time) the final frame's time is dropped: Solution.times has one entry fewer than the file has frames",
           witness={"input": "7 fixed steps of dt_init=2e-9 with save_every=3"})


def tag_expr(e: ast.expr, env: Dict[str, str]) -> Optional[str]:
    t = norm(e)
    if t in env:
        return env[t]
    if isinstance(e, ast.Call):
        f = norm(e.func)
        if f.endswith("cumsum"):
            return "Incl"
        if f.endswith("concatenate") and e.args and isinstance(e.args[0], (ast.List, ast.Tuple)):
            el = e.args[0].elts
            if len(el) == 2 and _is_zero_arr(el[0]) and tag_expr(el[1], env) == "Incl":
                return "Excl"
            if len(el) == 2 and tag_expr(el[0], env) in ("Incl", "Excl"):
                return tag_expr(el[0], env)
        if f.endswith("insert") and len(e.args) == 3 and tag_expr(e.args[0], env) == "Incl" and _is_zero(e.args[1]) and _is_zero(e.args[2]):
            return "Excl"
        if f.endswith(("asarray", "array", "copy")) and e.args:
            return tag_expr(e.args[0], env)
        if f.endswith(".copy") and isinstance(e.func, ast.Attribute):
            return tag_expr(e.func.value, env)
    if isinstance(e, ast.BinOp) and isinstance(e.op, ast.Sub) and tag_expr(e.left, env) == "Incl" and norm(e.right).endswith("dt"):
        return "Excl"
    if isinstance(e, ast.Subscript) and isinstance(e.slice, ast.Slice) and e.slice.step is None:
        return None
    return None


def _is_zero(e):
    return isinstance(e, ast.Constant) and e.value == 0


def _is_zero_arr(e):
    if isinstance(e, (ast.List, ast.Tuple)) and len(e.elts) == 1 and _is_zero(e.elts[0]):
        return True
    if isinstance(e, ast.Call) and norm(e.func).endswith(("zeros", "array")):
        return True if norm(e.func).endswith("zeros") else (e.args and _is_zero_arr(e.args[0]))
    return False


def zero_init(ctx):
    repo = ctx.repo
    c = repo.cls(RUNNER, "RunningState")
    for m in ("__init__", "clear"):
        f = c.methods[m]
        # allocations made by the method itself or by the methods of the class it calls on self (`__init__` delegating to `clear()`)
        nodes, todo, seen_m = [], [f], set()
        while todo:
            g = todo.pop()
            if g.qual in seen_m:
                continue
            seen_m.add(g.qual)
            nodes += list(ast.walk(g.node))
            for n in ast.walk(g.node):
                if isinstance(n, ast.Call) and isinstance(n.func, ast.Attribute) and isinstance(n.func.value, ast.Name) and n.func.value.id == "self" \
                        and n.func.attr in c.methods:
                    todo.append(c.methods[n.func.attr])
                # private module-level helpers (a generator that yields the zeroed buffers for both __init__ and clear)
                if isinstance(n, ast.Call) and isinstance(n.func, ast.Name) and n.func.id.startswith("_") and n.func.id in f.module.functions:
                    todo.append(f.module.functions[n.func.id])
        allocs = [norm(n.func) for n in nodes if isinstance(n, ast.Call) and isinstance(n.func, ast.Attribute)
                  and n.func.attr in ("zeros", "empty", "ones", "full", "zeros_like", "empty_like")]
        ok = bool(allocs) and all(a.endswith("zeros") for a in allocs)
        ctx.ob("R05.7", f"RunningState.{m} allocates with zeros", ok, detail=allocs, where=f.fq, construct=f"RunningState.{m} allocation",
               loc=loc(f, f.node), message=f"record buffers are allocated with {allocs}",
               consequence="the dt > 0 mask keeps garbage columns of a partially filled last buffer")


def stop_test(ctx, frs, cfg, ev):
    fn = frs.node
    pm = parent_map(fn)
    loops = [n for n in own_nodes(fn) if isinstance(n, ast.For)]
    lp = loops[0] if loops else None
    stops = []
    for n in ast.walk(lp) if lp is not None else []:
        if isinstance(n, ast.Break):
            gs = [(g, br) for g, br in guards_of(fn, n, pm) if isinstance(g, ast.If)]
            if gs and isinstance(gs[-1][0].test, ast.Compare) and "end_time" in norm(gs[-1][0].test) and not any(
                    isinstance(g, ast.ExceptHandler) for g, _ in guards_of(fn, n, pm)):
                stops.append((n, gs[-1]))
    ok = len(stops) == 1
    det = {}
    if ok:
        b, (g, br) = stops[0]
        t = g.test
        det = {"test": norm(t), "branch": br}
        ok = br == "true" and len(t.ops) == 1 and (
            (isinstance(t.ops[0], ast.GtE) and norm(t.left) == "self.time" and norm(t.comparators[0]) == "end_time") or
            (isinstance(t.ops[0], ast.LtE) and norm(t.left) == "end_time" and norm(t.comparators[0]) == "self.time"))
    ctx.ob("R05.8", "the loop stops iff self.time >= end_time (first step whose time reaches the requested time; equality stops)", ok,
           detail=det, where=frs.fq, construct="stop predicate", loc=loc(frs, stops[0][0]) if stops else loc(frs, fn),
           message=f"stop predicate is {det}", consequence="the run performs one step too many (or too few) when a step lands exactly on the requested time")
    if stops:
        # the update call is dominated by the false branch of the stop test in the same iteration
        gnode = cfg.node_of(stops[0][1][0]).id
        calls = [n.id for n in cfg.nodes if n.kind == "stmt" and n.ast is not None and any(
            isinstance(c, ast.Call) and norm(c.func) == "self.function" for c in ast.walk(n.ast))]
        dom = cfg.dominators()
        ok = bool(calls) and all(gnode in dom.get(c, set()) for c in calls) and \
            all(cfg.path(gnode, c, skip_edges=("false", "exc")) is None or True for c in calls)
        via_true = [c for c in calls if cfg.path(gnode, c, skip_edges=("false",)) is not None and
                    all(lab != "loop" for _, lab in (cfg.path(gnode, c, skip_edges=("false",)) or []))]
        ctx.ob("R05.8", "the stop test is evaluated before the update of the same iteration", ok and not via_true, detail={"update_calls": len(calls)},
               where=frs.fq, construct="stop test position", loc=loc(frs, stops[0][0]),
               message="the update runs before the stop test of its iteration", consequence="one update beyond the requested time is computed")


def final_step_saved_once(ctx, frs, cfg, ev):
    """Count SAVE events on every path of the *last* iteration (stop test taken) from the label to the function exit."""
    fn = frs.node
    labels = [nid for nid, e in ev.items() if e == "LABEL"]
    if len(labels) != 1:
        raise AnalysisError("expected one step-label statement in the loop of _run_stage")
    start = labels[0]

    def decide(node, assumption):
        """-> allowed edge labels out of an `if` node under the assumption, or None for 'both'."""
        t = node.ast.test
        txt = norm(t)
        if isinstance(t, ast.Compare) and "end_time" in txt and "self.time" in txt and len(t.ops) == 1:
            # last iteration: the clock has reached the end time.  Canonical spelling: `self.time >= end_time` reads `end_time <= self.time`
            reached = (isinstance(t.ops[0], (ast.LtE, ast.Lt)) and "end_time" in norm(t.left)) or \
                      (isinstance(t.ops[0], (ast.GtE, ast.Gt)) and "self.time" in norm(t.left))
            return {"true"} if reached else {"false"}
        parts = t.values if isinstance(t, ast.BoolOp) and isinstance(t.op, ast.And) else [t]
        vals = []
        for p_ in parts:
            rk = _residue_kind(p_)
            if rk is not None:
                vals.append(rk[0] == assumption)
            elif norm(p_) == "save":
                vals.append(True)
            else:
                vals.append(None)
        if any(v is False for v in vals):
            return {"false"}
        if all(v is True for v in vals):
            return {"true"}
        return None
    for assumption in ("zero", "nonzero"):
        memo = {}

        def counts(nid, depth=0):
            if nid in memo:
                return memo[nid]
            if nid == cfg.exit:
                return {0}
            if depth > 400:
                return {99}
            memo[nid] = set()        # cycle guard
            n = cfg.nodes[nid]
            here = 1 if ev.get(nid) == "SAVE" else 0
            allowed = None
            if n.kind == "if" and n.ast is not None:
                allowed = decide(n, assumption)
            out = set()
            for v, lab in cfg.succ[nid]:
                if lab in ("exc", "loop", "continue"):
                    continue
                if allowed is not None and lab in ("true", "false") and lab not in allowed:
                    continue
                if v == cfg.raise_exit:
                    continue
                for c in counts(v, depth + 1):
                    out.add(c + here)
            memo[nid] = out
            return out
        cs = counts(start)
        ctx.ob("R05.9", f"last iteration with step index % save_every {'== 0' if assumption == 'zero' else '!= 0'}: exactly one save",
               cs == {1}, detail={"possible_numbers_of_saves": sorted(cs)}, where=frs.fq,
               construct=f"saves on the last iteration ({assumption} residue)", loc=loc(frs, cfg.nodes[start].ast),
               message=f"on the last iteration with residue {assumption} the number of saves can be {sorted(cs)} (must be exactly 1)",
               consequence="the final step is not recorded (or recorded twice): e.g. a run that ends at step N with N % save_every == 0 "
                           "loses frame N and the last save_every per-step records",
               witness={"input": "fixed dt, N = 6 steps, save_every = 3"})


def frame_order(ctx):
    """Frame groups are named '0', '1', ..., '10', ...: iterating them must go through integers (range, or sorted with an int key)."""
    repo = ctx.repo
    n = 0
    for qual in ("DynamicsData.from_hdf5", "get_data_range"):
        f = repo.func(DATA, qual)
        for lp in own_nodes(f.node):
            its = []
            if isinstance(lp, ast.For):
                its.append(lp.iter)
            if isinstance(lp, (ast.ListComp, ast.GeneratorExp, ast.SetComp)):
                its += [g.iter for g in lp.generators]
            if isinstance(lp, ast.Call) and norm(lp.func) == "map" and len(lp.args) >= 2:      # map(int, h5file["data"]) iterates too
                its += list(lp.args[1:])
            for it in its:
                from ..dataflow import expand
                e = expand(f.node, it)
                txt = norm(e)
                if "data" not in txt and "step" not in txt:
                    continue
                n += 1
                numeric = isinstance(e, ast.Call) and norm(e.func) == "range"
                if isinstance(e, ast.Call) and norm(e.func) == "sorted":
                    a0 = e.args[0] if e.args else None
                    elt_int = isinstance(a0, (ast.ListComp, ast.GeneratorExp, ast.SetComp)) and isinstance(a0.elt, ast.Call) and norm(a0.elt.func) == "int"
                    map_int = isinstance(a0, ast.Call) and norm(a0.func) == "map" and a0.args and norm(a0.args[0]) == "int"
                    numeric = any(k.arg == "key" and norm(k.value) == "int" for k in e.keywords) or elt_int or map_int
                raw_keys = isinstance(e, ast.Call) and norm(e.func) == "sorted" and not numeric
                unordered = not isinstance(e, ast.Call) and ("h5file" in txt or "data" in txt) and isinstance(lp, ast.For) and any(
                    isinstance(c, ast.Call) and isinstance(c.func, ast.Attribute) and c.func.attr == "append" for c in ast.walk(lp))
                ctx.ob("R05.11", f"{qual}: iteration over `{txt[:60]}` is in numeric step order", not (raw_keys or unordered),
                       detail={"iter": txt}, where=f.fq, construct=f"frame iteration order in {qual}", loc=loc(f, lp),
                       message=f"{qual} iterates the frames as `{txt[:80]}`: group names are strings, so the order is '0', '1', '10', '11', ..., '2'",
                       consequence="with more than ten frames the per-step records (dt, mu, theta) are concatenated out of step order: "
                                   "Solution.times and dynamics no longer match the frame labels")
    if n < 2:
        raise AnalysisError(f"only {n} frame iterations found in the record readers")


def loop_rules(ctx, frs):
    """R05.1, R05.2, R05.3 (buffer), R05.5, R05.8, R05.9 as predicates on the traces of the simulation loop (pvs/run_trace.py:
    Runner._run_stage followed for 91 scenarios, Runner.run for 6): what is labelled, updated, advanced, saved and cleared, in
    which order - however the loop is written."""
    from ..run_rules import loop_verdicts, run_verdicts
    repo = ctx.repo
    V = loop_verdicts(repo)
    R = run_verdicts(repo)
    ctx.note("loop_trace_scenarios", V["_scenarios"])
    if V.get("_notes"):
        ctx.note("loop_trace_notes", V["_notes"][:4])
    fr = repo.func(RUNNER, "Runner.run")
    ctx.ob("R05.1", "every frame labelled (step s, time t) holds the state after exactly s updates with t = s * dt, in every uninterrupted and every "
                    "cancelled scenario (interrupt in the n-th update / n-th save)", not V["label_content"], detail=V["label_content"][:4],
           where=frs.fq, construct="typestate of _run_stage", loc=loc(frs, frs.node), message=f"{V['label_content'][:2]}",
           consequence="the final frame (when N % save_every != 0) is labelled step N but holds the state after N+1 updates; "
                       "frames with the same label differ between runs with different save_every",
           witness={"scenarios": V["label_content"][:4]})
    ctx.ob("R05.1", "after pause + resume (pause_on_interrupt, answer 'y') the step labels still count the updates applied", not V["label_content_resume"],
           detail=V["label_content_resume"][:4], where=frs.fq, construct="step label after resuming from an interrupted step", loc=loc(frs, frs.node),
           message=f"after an interrupted step is resumed the step label runs ahead of the updates applied: {V['label_content_resume'][:1]}",
           consequence="every frame saved after the resume is labelled with a step one (or more) larger than the number of updates and dt records it "
                       "has seen: Solution.times (prefix sums of dt indexed by step) disagrees with the times stamped on the frames",
           witness={"input": "pause_on_interrupt=True, Ctrl-C during an update, answer 'y' (findings/f19_resume_step_drift.py)",
                    "scenarios": V["label_content_resume"][:3]})
    ctx.ob("R05.8", "the run stops at the first step whose time reaches the requested time (N updates for N * dt, for N = 1, 3, 4, 5, 6)",
           not V["stop"], detail=V["stop"][:4], where=frs.fq, construct="stop predicate", loc=loc(frs, frs.node), message=f"{V['stop'][:2]}",
           consequence="the run performs one step too many (or too few) when a step lands exactly on the requested time")
    ctx.ob("R05.8", "the clock advances once per update by the dt the update returned", not V["clock"], detail=V["clock"][:4], where=frs.fq,
           construct="stop test position", loc=loc(frs, frs.node), message=f"{V['clock'][:2]}",
           consequence="one update beyond the requested time is computed")
    ctx.ob("R05.9", "frames are saved at steps 0, k, 2k, ... and at the final step, each exactly once (k = 1, 2, 3; both residues of N mod k)",
           not V["final_once"], detail=V["final_once"][:4], where=frs.fq, construct="saves on the last iteration", loc=loc(frs, frs.node),
           message=f"{V['final_once'][:2]}", consequence="the final step is saved twice or not at all for some (N, save_every)")
    ctx.ob("R05.9", "a cancelled stage ends with the frame of the interrupted step, saved once", not V["cancel"], detail=V["cancel"][:4], where=frs.fq,
           construct="saves after a cancellation", loc=loc(frs, frs.node), message=f"{V['cancel'][:2]}",
           consequence="the partial solution misses its last frame or holds it twice")
    ctx.ob("R05.2", "nothing is saved when the stage runs with save=False", not V["save_flag"], detail=V["save_flag"][:4], where=frs.fq,
           construct="save flag", loc=loc(frs, frs.node), message=f"{V['save_flag'][:2]}", consequence="thermalisation steps are recorded")
    ctx.ob("R05.2", "each frame handed to the writer is a container built for that frame; the update receives the state label and the named fields",
           not V["fresh_data"] and not V["update_args"], detail=(V["fresh_data"] + V["update_args"])[:4], where=frs.fq, construct="save sites",
           loc=loc(frs, frs.node), message=f"{(V['fresh_data'] + V['update_args'])[:2]}",
           consequence="a step is recorded twice or the final step is never recorded")
    ctx.ob("R05.2", "frame 0 is written without records, every later frame with the record buffer", not V["first_frame_records"],
           detail=V["first_frame_records"][:4], where=frs.fq, construct="save_step argument", loc=loc(frs, frs.node),
           message=f"{V['first_frame_records'][:2]}", consequence="frame 0 handling (no records) is applied to the wrong frame")
    ctx.ob("R05.3", "record cursor advances by one exactly where the clock advances", not V["cursor"], detail=V["cursor"][:4], where=frs.fq,
           construct="running_state.step += 1", loc=loc(frs, frs.node), message=f"the record cursor is not advanced together with the clock: {V['cursor'][:1]}",
           consequence="records of two steps overwrite each other or leave gaps")
    ctx.ob("R05.3", "the record buffer is cleared exactly at save points, after the save", not V["clear"], detail=V["clear"][:4], where=frs.fq,
           construct="running_state.clear()", loc=loc(frs, frs.node), message=f"{V['clear'][:2]}",
           consequence="records are dropped before being written, or written twice")
    ctx.ob("R05.5", "thermalisation stage: save=False until skip_time; recorded stage: save=True until solve_time", not R["thermal_unsaved"],
           detail=R["thermal_unsaved"][:4], where=fr.fq, construct="stages of Runner.run", loc=loc(fr, fr.node), message=f"{R['thermal_unsaved'][:2]}",
           consequence="thermalisation steps are recorded, or the recorded stage is not")
    ctx.ob("R05.5", "clock and labels are reset between the stages", not R["clock_reset"], detail=R["clock_reset"][:4], where=fr.fq,
           construct="reset between stages", loc=loc(fr, fr.node), message=f"{R['clock_reset'][:2]}",
           consequence="recorded time does not restart from zero after thermalisation")
    ctx.ob("R05.5", "the record buffer is cleared after thermalisation", not R["buffer_reset"], detail=R["buffer_reset"][:4], where=fr.fq,
           construct="clear after thermalisation", loc=loc(fr, fr.node), message=f"{R['buffer_reset'][:2]}",
           consequence="thermalisation records leak into the first recorded frame")
    ctx.ob("R05.5", "run() returns False only for a cancelled thermalisation", not R["result"], detail=R["result"][:4], where=fr.fq,
           construct="result of Runner.run", loc=loc(fr, fr.node), message=f"{R['result'][:2]}",
           consequence="a cancelled thermalisation is taken for a finished run (or a partial solution is dropped)")
