"""C19 - ill-posed problems are rejected before anything is written."""
from __future__ import annotations

import ast
from typing import Dict, List, Optional, Set

from ..callgraph import CallGraph
from ..cfg import build_cfg, guards_of, parent_map
from ..src import AnalysisError, loc, norm, own_nodes
from .c01 import classify_zero_test

SOLVER = "tdgl.solver.solver"
OPTIONS = "tdgl.solver.options"
TECH = ("dominance of validation sites over the first file-creating statement on the inlined flow solve() = __init__ ; solve, "
        "call-graph audit of file-creating calls and of raise sites after that point, finite-domain evaluation of the range predicates")

FILE_EXT_PREFIX = ("h5py.File", "tempfile.", "shutil.", "os.makedirs", "os.mkdir", "os.remove", "builtins.open")
FILE_ATTRS = {"mkdir", "makedirs", "create_group", "create_dataset", "write_text", "write_bytes", "touch"}
STATE_ERRORS = {"RuntimeError", "IOError", "OSError", "KeyboardInterrupt", "FileExistsError"}

# raise sites allowed after the first write: (function, reason)
ALLOW_AFTER_WRITE = {
    "tdgl.device.device:Device.__init__": "re-run by Device.copy() inside Solution.__init__ on values that already passed it when the user built the device",
    "tdgl.device.polygon:Polygon.points": "re-run by Polygon.copy() on vertices that already passed the setter",
    "tdgl.solution.solution:Solution.to_hdf5": "missing-file check cannot fire for the file the handler still holds open",
}


def file_effects(cg: CallGraph, fqs: Set[str]) -> List[str]:
    out = []
    for fq in sorted(fqs):
        for dotted, call in cg.ext.get(fq, []):
            if dotted.startswith(FILE_EXT_PREFIX) or dotted == "open":
                out.append(f"{fq} L{call.lineno}: {dotted}")
        f = cg.funcs[fq]
        for n in ast.walk(f.node):
            if isinstance(n, ast.Call) and isinstance(n.func, ast.Attribute) and n.func.attr in FILE_ATTRS:
                out.append(f"{fq} L{n.lineno}: .{n.func.attr}()")
            if isinstance(n, ast.Call) and isinstance(n.func, ast.Name) and n.func.id == "open":
                out.append(f"{fq} L{n.lineno}: open()")
    return out


def check(ctx):
    repo = ctx.repo
    ctx.rule("R19.4", "validation checks the options, it does not change them (only a solver name is replaced by its enum member)", 1)
    ctx.rule("R19.1", "every validation site precedes the first statement that can create a file or directory", 4)
    ctx.rule("R19.2", "after that point only state-dependent failures (RuntimeError, I/O) can be raised, up to a short allow-list", 1)
    ctx.rule("R19.3", "each class of ill-posed input has a guard whose predicate depends on that input and accepts/rejects the right side of the boundary", 14)
    cg = CallGraph(repo)
    f_solve_api = repo.func("tdgl.solver.solve", "solve")
    f_init = repo.func(SOLVER, "TDGLSolver.__init__")
    f_solve = repo.func(SOLVER, "TDGLSolver.solve")
    # tdgl.solve == TDGLSolver(...) ; .solve()
    body = [s for s in f_solve_api.node.body if not (isinstance(s, ast.Expr) and isinstance(s.value, ast.Constant))]
    # canonical reading (src: single-use temporaries are inlined): `return TDGLSolver(...).solve()`
    ok = (len(body) == 1 and isinstance(body[0], ast.Return) and isinstance(body[0].value, ast.Call) and not body[0].value.args
          and isinstance(body[0].value.func, ast.Attribute) and body[0].value.func.attr == "solve"
          and isinstance(body[0].value.func.value, ast.Call) and norm(body[0].value.func.value.func) == "TDGLSolver") or (
        len(body) == 2 and isinstance(body[0], ast.Assign) and isinstance(body[0].value, ast.Call) and norm(body[0].value.func) == "TDGLSolver"
        and isinstance(body[1], ast.Return) and norm(body[1].value) == f"{norm(body[0].targets[0])}.solve()")
    ctx.ob("R19.1", "tdgl.solve constructs the solver (all constructor validation) and only then calls solve()", ok,
           detail=[norm(s)[:100] for s in body], where=f_solve_api.fq, construct="tdgl.solve body", loc=loc(f_solve_api, f_solve_api.node),
           message="tdgl.solve no longer is `TDGLSolver(...)` followed by `.solve()`", consequence="validation order is unknown")
    # nothing reachable from __init__ creates files
    reach_init = cg.reachable([f_init.fq])
    eff = file_effects(cg, reach_init)
    ctx.ob("R19.1", f"no file-creating call is reachable from TDGLSolver.__init__ ({len(reach_init)} functions)", not eff,
           detail=eff, where=f_init.fq, construct="file effects of the constructor", loc=loc(f_init, f_init.node),
           message=f"the constructor can create files: {eff}", consequence="a rejected problem leaves output behind")
    # in solve(): W = the DataHandler with-statement; every statement before it is file-effect free
    withs = [n for n in own_nodes(f_solve.node) if isinstance(n, ast.With) and any(
        "DataHandler" in norm(it.context_expr) for it in n.items)]
    if len(withs) != 1:
        raise AnalysisError("TDGLSolver.solve no longer has one `with DataHandler(...)` block")
    W = withs[0]
    top = f_solve.node.body
    if W not in top:
        raise AnalysisError("the DataHandler with-block is no longer a top-level statement of solve()")
    before = top[: top.index(W)]
    pre_callees = cg.reachable(sorted(cg.calls_within(f_solve, before)))
    eff = file_effects(cg, pre_callees)
    direct = [f"L{n.lineno}: {norm(n.func)}" for s in before for n in ast.walk(s) if isinstance(n, ast.Call)
              and ((isinstance(n.func, ast.Attribute) and n.func.attr in FILE_ATTRS) or norm(n.func) in ("h5py.File", "open"))]
    ctx.ob("R19.1", "nothing before the `with DataHandler` block of solve() creates files", not eff and not direct,
           detail={"callees": sorted(pre_callees), "effects": eff + direct}, where=f_solve.fq, construct="file effects before the with block",
           loc=loc(f_solve, W), message=f"files can be created before the handler: {eff + direct}",
           consequence="a seed/device mismatch is detected after output was produced")
    # validation raises in solve() are all before W
    pm = parent_map(f_solve.node)
    late = []
    n_val = 0
    for n in own_nodes(f_solve.node):
        if isinstance(n, ast.Raise):
            n_val += 1
            if any(g is W for g, _ in guards_of(f_solve.node, n, pm)):
                late.append(f"L{n.lineno}: {norm(n)[:80]}")
    vcalls = [n for s in before for n in ast.walk(s) if isinstance(n, ast.Call) and norm(n.func).endswith("validate")]
    ctx.ob("R19.1", "solve(): options.validate() and the seed-device check precede the with block", not late and n_val >= 1 and len(vcalls) >= 1,
           detail={"raises": n_val, "inside_with": late, "validate_calls": [norm(v) for v in vcalls]}, where=f_solve.fq,
           construct="validation order in solve()", loc=loc(f_solve, W), message=f"validation inside the with block: {late}",
           consequence="a seed solution from another device is rejected after the output file was created")

    # R19.2 ---------------------------------------------------------------------------
    roots = cg.calls_within(f_solve, [W])
    reach = cg.reachable(sorted(roots))
    offenders = []
    allowed_hits = {}
    total = 0
    for fq in sorted(reach | {f_solve.fq}):
        f = cg.funcs[fq]
        nodes = ast.walk(f.node) if fq != f_solve.fq else ast.walk(W)
        for n in nodes:
            if isinstance(n, ast.Raise) and n.exc is not None:
                e = n.exc.func if isinstance(n.exc, ast.Call) else n.exc
                cls = norm(e).split(".")[-1]
                total += 1
                if cls in STATE_ERRORS:
                    continue
                if fq in ALLOW_AFTER_WRITE:
                    allowed_hits.setdefault(fq, 0)
                    allowed_hits[fq] += 1
                    continue
                offenders.append(f"{fq} L{n.lineno}: raise {cls}")
    ctx.ob("R19.2", f"raise sites reachable after the first write ({len(reach)} functions, {total} raise sites)", not offenders,
           detail={"offenders": offenders, "allow_listed": {k: f"{v} site(s): {ALLOW_AFTER_WRITE[k]}" for k, v in allowed_hits.items()}},
           where=f_solve.fq, construct="input rejections after the first write", loc=loc(f_solve, W),
           message=f"input-validation errors can be raised after output exists: {offenders}",
           consequence="an ill-posed problem is rejected only after an output file was created")
    ctx.note("unresolved_calls_after_write", sum(len(cg.unresolved.get(f, [])) for f in reach))

    guards(ctx, f_init, f_solve)
    option_ranges(ctx)
    ctx.assume("R15.1-2 cover rejections that come from the handler itself")
    from ..effects import options_readonly
    options_readonly(ctx, "R19.4", "an inconsistent or unusual option set is silently 'repaired' instead of being used as given or rejected")
    ctx.decline("'unbalanced at any time' for callable currents: the validator samples 100 random times, so a time-localised "
                "imbalance is accepted with positive probability - no static rule makes a sampling test exhaustive")


def raise_guards(fi) -> List[tuple]:
    fn = fi.node
    pm = parent_map(fn)
    out = []
    for n in own_nodes(fn):
        if isinstance(n, ast.Raise):
            gs = [(g, br) for g, br in guards_of(fn, n, pm) if isinstance(g, ast.If)]
            out.append((n, gs))
    return out


def guards(ctx, f_init, f_solve):
    repo = ctx.repo
    rg = raise_guards(f_init)

    from ..dataflow import expand

    def xt(t):
        return expand(f_init.node, t)

    def find(pred):
        return [(n, gs) for n, gs in rg if gs and pred(norm(xt(gs[-1][0].test)))]
    # epsilon > 1
    hit = find(lambda t: "epsilon" in t and ("<" in t or ">" in t))
    ok = False
    det = None
    if len(hit) == 1:
        test = xt(hit[0][1][-1][0].test)
        cmps = [c for c in ast.walk(test) if isinstance(c, ast.Compare)]
        det = norm(test)
        # canonical spelling: `epsilon > 1` reads `1 < epsilon`
        ok = len(cmps) == 1 and isinstance(cmps[0].ops[0], ast.Lt) and isinstance(cmps[0].left, ast.Constant) \
            and cmps[0].left.value == 1 and "any" in det and hit[0][1][-1][1] == "true"
    ctx.ob("R19.3", "epsilon: rejected iff any(epsilon > 1) (accepts = 1, rejects > 1)", ok, detail=det, where=f_init.fq,
           construct="epsilon guard", loc=loc(f_init, hit[0][0]) if hit else "", message=f"epsilon guard is `{det}`",
           consequence="epsilon = 1 (the clean superconductor) is rejected, or epsilon slightly above 1 accepted")
    # vector potential shape
    hit = find(lambda t: ".shape" in t and "!=" in t)
    from ..dataflow import local_stored_in_attr
    from ..src import rename_id
    an = local_stored_in_attr(f_init.node, "current_A_applied") or "current_A_applied"
    ok = len(hit) == 1 and rename_id(norm(hit[0][1][-1][0].test), an, "APPLIED").replace(" ", "") in (
        "APPLIED.shape!=self.edge_centers.shape", "self.edge_centers.shape!=APPLIED.shape")
    ctx.ob("R19.3", "vector potential of the wrong shape is rejected", ok, detail=[norm(g[-1][0].test) for _, g in hit],
           where=f_init.fq, construct="vector potential shape guard", message="no shape guard on the evaluated vector potential",
           consequence="a mis-shaped vector potential is broadcast silently")
    # empty terminal
    hit = find(lambda t: "length" in t and "== 0" in t)
    ok = len(hit) == 1 and any(isinstance(g, ast.For) for g, _ in guards_of(f_init.node, hit[0][0], parent_map(f_init.node)))
    ctx.ob("R19.3", "a terminal touching no boundary edge (length == 0) is rejected, for every terminal", ok,
           detail=[norm(g[-1][0].test) for _, g in hit], where=f_init.fq, construct="empty terminal guard",
           message="no length == 0 guard inside a loop over terminals", consequence="division by zero terminal length: inf/NaN current density")
    # terminal currents validator is called with the *scaled* current function before operators are built
    vc = [n for n in own_nodes(f_init.node) if isinstance(n, ast.Call) and norm(n.func) == "validate_terminal_currents"]
    ok = len(vc) == 1 and not guards_of(f_init.node, vc[0], parent_map(f_init.node)) and norm(vc[0].args[0]) == "self.current_func" \
        and norm(vc[0].args[1]) == "self.terminal_info"
    ctx.ob("R19.3", "validate_terminal_currents(self.current_func, self.terminal_info, ...) is called unconditionally", ok,
           detail=[norm(v) for v in vc], where=f_init.fq, construct="validate_terminal_currents call", message="terminal currents are not validated unconditionally",
           consequence="unbalanced currents reach the Poisson solve (singular system, unbounded potential)")
    fv = repo.func(SOLVER, "validate_terminal_currents")
    inner = [g for g in repo.module(SOLVER).functions.values() if g.parent is fv]
    unknown_ok = False
    balance = []
    for g in [fv] + inner:
        for n, gs in raise_guards(g):
            if not gs:
                continue
            t = gs[-1][0].test
            txt = norm(t)
            if "difference" in txt or ("set(" in txt and "-" in txt):
                unknown_ok = True
            if "total" in txt or "sum" in txt:
                balance.append((g, t))
    ctx.ob("R19.3", "unknown terminal names are rejected (key set difference)", unknown_ok, where=fv.fq, construct="unknown terminal guard",
           message="no guard on unknown terminal names", consequence="a misspelt terminal silently carries no current")
    ok = len(balance) >= 1
    det = {}
    if ok:
        g, t = balance[0]
        kind = classify_zero_test(t, {"total_current"})
        tol = [c.value for c in ast.walk(t) if isinstance(c, ast.Constant) and isinstance(c.value, float)]
        # also look at the definitions feeding the test
        for n in own_nodes(g.node):
            if isinstance(n, ast.Assign):
                tol += [c.value for c in ast.walk(n.value) if isinstance(c, ast.Constant) and isinstance(c.value, float) and c.value < 1]
        det = {"test": norm(t), "kind": kind, "tolerances": tol}
        ok = kind == "exact" or (kind == "tolerance" and tol and max(tol) <= 1e-7)
    ctx.ob("R19.3", "unbalanced currents are rejected down to one part in 1e6 (exact test, or tolerance <= 1e-7 relative)", ok,
           detail=det, where=fv.fq, construct="balance guard strength", message=f"balance guard: {det}",
           consequence="an imbalance of 1e-6 of the drive is accepted")
    called = [n for n in ast.walk(fv.node) if isinstance(n, ast.Call) and norm(n.func) == "check_total_current"]
    in_loop = [c for c in called if any(isinstance(g, ast.For) for g, _ in guards_of(fv.node, _stmt(fv.node, c), parent_map(fv.node)))]
    ctx.ob("R19.3", "callable currents are checked at sampled times, dict currents once", len(called) == 2 and len(in_loop) == 1,
           detail=[norm(c) for c in called], where=fv.fq, construct="validator dispatch", message="validator does not cover both input forms",
           consequence="time-dependent terminal currents are never checked")
    # seed device
    rs = raise_guards(f_solve)
    hit = [(n, gs) for n, gs in rs if gs and "seed_solution.device" in norm(gs[-1][0].test) and "!=" in norm(gs[-1][0].test)]
    ctx.ob("R19.3", "a seed solution from a different device is rejected", len(hit) == 1, detail=[norm(g[-1][0].test) for _, g in hit],
           where=f_solve.fq, construct="seed device guard", message="no seed-device inequality guard", consequence="a run resumes from a state on another mesh")
    # the seed guard is only as strong as Device.__eq__: sequences of holes/terminals must not be compared by a truncating zip
    feq = repo.func("tdgl.device.device", "Device.__eq__")
    nested = [g for g in repo.module("tdgl.device.device").functions.values() if g.parent is feq]
    trunc = []
    for g in [feq] + nested:
        src_g = norm(g.node)
        for node in ast.walk(g.node):
            if isinstance(node, ast.Call) and norm(node.func) == "zip" and not any(
                    isinstance(c, ast.Compare) and all(isinstance(x, ast.Call) and norm(x.func) == "len" for x in [c.left] + c.comparators)
                    for c in ast.walk(g.node)):
                trunc.append(f"{g.qual} L{node.lineno}: {norm(node)[:70]}")
    ctx.ob("R19.3", "Device equality (the seed-device guard) compares whole sequences of holes and terminals", not trunc, detail=trunc,
           where=feq.fq, construct="Device.__eq__ sequence comparison", loc=loc(feq, feq.node),
           message=f"Device.__eq__ compares holes/terminals with a truncating zip: {trunc}",
           consequence="a seed solution computed on a device with an extra hole or terminal is accepted")
    # polygon / device definitions
    fp = repo.cls("tdgl.device.polygon", "Polygon").methods["points"]
    # the setter followed for a polygon with interiors, for an invalid one and for a good one (pvs/smallstep.py)
    from .c18 import follow_points_setter
    txts = []
    ok = True
    for interiors, valid, want in ((True, True, "raise"), (False, False, "raise"), (False, True, "return")):
        k_, v_, stored_ = follow_points_setter(fp, "array", interiors, valid)
        txts.append(f"interiors={interiors} valid={valid}: {k_}")
        ok = ok and k_ == want and (want == "return" or not stored_)
    ctx.ob("R19.3", "invalid / multiply-connected polygons are rejected by the points setter", ok, detail=txts, where=fp.fq,
           construct="polygon validity guards", message=f"polygon guards: {txts}", consequence="self-intersecting outlines reach the mesher")
    fd = repo.func("tdgl.device.device", "Device.__init__")
    from ..dataflow import canon_bound_text
    txts = [canon_bound_text(fd.node, gs[-1][0].test) for n, gs in raise_guards(fd) if gs]
    need = ["each(self.terminals).name is None or each(self.terminals).name in L0", "not each([self.film] + self.holes).is_valid",
            "len(self.holes) != len({each(self.holes).name for each(self.holes) in self.holes})",
            "not self.contains_points(probe_points).all()"]
    missing = [w for w in need if w not in txts]
    ctx.ob("R19.3", "device definition checks: unique terminal/hole names, valid polygons, probe points inside the film", not missing,
           detail={"found": txts, "missing": missing}, where=fd.fq, construct="device definition guards", message=f"missing device guards: {missing}",
           consequence="duplicate names or outside probes are accepted")


def _stmt(fn, node):
    pm = parent_map(fn)
    while not isinstance(node, ast.stmt):
        node = pm[id(node)][0]
    return node


# ---------------------------------------------------------------------------
# option ranges: evaluate validate()'s predicates at interval end points
# ---------------------------------------------------------------------------

RANGES = {
    # field: (accepted samples, rejected samples)
    "adaptive_time_step_multiplier": ([0.25, 0.999, 1e-9], [0, 1, -0.1, 1.5]),
    "screening_step_drag": ([0.5, 1, 1e-9], [0, -0.1, 1.0001]),
    "screening_step_size": ([0.1, 1e-9, 10], [0, -1]),
    "screening_tolerance": ([1e-3, 1e-12], [0, -1e-3]),
    "terminal_psi": ([None, 0, 1, -1, 0.5, 1j, 0.6 + 0.8j], [1.0001, -1.5, 2j]),
}


def pyeval(e: ast.expr, env: Dict[str, object]):
    if isinstance(e, ast.Constant):
        return e.value
    if isinstance(e, ast.Attribute) and isinstance(e.value, ast.Name) and e.value.id == "self":
        if e.attr not in env:
            raise KeyError(e.attr)
        return env[e.attr]
    if isinstance(e, ast.UnaryOp):
        v = pyeval(e.operand, env)
        return (not v) if isinstance(e.op, ast.Not) else (-v if isinstance(e.op, ast.USub) else v)
    if isinstance(e, ast.BoolOp):
        if isinstance(e.op, ast.And):
            r = True
            for v in e.values:
                r = pyeval(v, env)
                if not r:
                    return r
            return r
        r = False
        for v in e.values:
            r = pyeval(v, env)
            if r:
                return r
        return r
    if isinstance(e, ast.Call) and isinstance(e.func, ast.Name) and e.func.id == "abs":
        return abs(pyeval(e.args[0], env))
    if isinstance(e, ast.Compare):
        left = pyeval(e.left, env)
        for op, c in zip(e.ops, e.comparators):
            right = pyeval(c, env)
            ok = {ast.Lt: lambda a, b: a < b, ast.LtE: lambda a, b: a <= b, ast.Gt: lambda a, b: a > b,
                  ast.GtE: lambda a, b: a >= b, ast.Eq: lambda a, b: a == b, ast.NotEq: lambda a, b: a != b,
                  ast.Is: lambda a, b: a is b, ast.IsNot: lambda a, b: a is not b}[type(op)](left, right)
            if not ok:
                return False
            left = right
        return True
    raise KeyError(norm(e))


def follow_validate(repo, overrides: Dict[str, object]):
    """SolverOptions.validate() followed (pvs/smallstep.py) on an options object whose fields have their declared defaults except
    for `overrides`: ("return", None) or ("raise", exception)."""
    from ..smallstep import Machine, Opaque as SO, module_constants
    fv = repo.func(OPTIONS, "SolverOptions.validate")
    C = repo.cls(OPTIONS, "SolverOptions")
    m0 = Machine(dict(module_constants(fv.module.tree)), lambda t: NotImplemented, lambda *a: NotImplemented)
    fields = {}
    for st in C.node.body:
        if isinstance(st, ast.AnnAssign) and isinstance(st.target, ast.Name):
            fields[st.target.id] = m0.ev(st.value) if st.value is not None else 10.0          # solve_time has no default
    fields.update(overrides)

    def attrs(text):
        if text.startswith("self.") and text.count(".") == 1 and text[5:] in fields:
            return fields[text[5:]]
        return NotImplemented

    def call(m, node, name, args, kwargs):
        if name == "isinstance" and len(args) == 2:
            v = args[0]
            if isinstance(v, SO):
                return False            # an enum member, not a string
            c = args[1]
            ctext = c.text if isinstance(c, SO) else ""
            if ctext in ("str", "int", "float", "bool", "complex") and v is not None:
                return isinstance(v, {"str": str, "int": int, "float": float, "bool": bool, "complex": complex}[ctext])
        return NotImplemented

    def undecided(text):
        # which sparse solver is selected and which optional packages are installed is not what these scenarios are about
        if "sparse_solver" in text or "SparseSolver" in text:
            return False
        return None
    mach = Machine({"self": SO("self"), **module_constants(fv.module.tree)}, attrs, call, fuel=16, undecided=undecided)
    return mach.run_function(fv.node)


def option_ranges(ctx):
    """R19.3: validate() is followed for every sample of RANGES with all other options at their defaults: samples inside the
    documented range must pass, samples outside (end points included where the range is open) must be rejected."""
    repo = ctx.repo
    fv = repo.func(OPTIONS, "SolverOptions.validate")
    base = follow_validate(repo, {})
    if base[0] != "return":
        raise AnalysisError(f"SolverOptions.validate rejects the default options in the model ({base[1]})")
    for field, (acc, rej) in RANGES.items():
        bad_acc = [v for v in acc if follow_validate(repo, {field: v})[0] != "return"]
        bad_rej = [v for v in rej if follow_validate(repo, {field: v})[0] != "raise"]
        det = {"accepted_samples": [repr(x) for x in acc], "rejected_samples": [repr(x) for x in rej],
               "wrongly_rejected": [repr(x) for x in bad_acc], "wrongly_accepted": [repr(x) for x in bad_rej]}
        ok = not bad_acc and not bad_rej
        ctx.ob("R19.3", f"SolverOptions.{field}: documented range enforced at its end points", ok, detail=det, where=fv.fq,
               construct=f"range guard of {field}", loc=loc(fv, fv.node), message=f"range guard of {field}: {det}",
               consequence=f"an out-of-range {field} is accepted (or a legal boundary value rejected)")
    outcomes = {(a_, b_): follow_validate(repo, {"dt_init": a_, "dt_max": b_})[0] for a_, b_ in ((1e-3, 1e-1), (1e-1, 1e-1), (0.2, 1e-1))}
    ok = outcomes == {(1e-3, 1e-1): "return", (1e-1, 1e-1): "return", (0.2, 1e-1): "raise"}
    ctx.ob("R19.3", "dt_init <= dt_max enforced (equality accepted)", ok, detail={f"dt_init={k[0]} dt_max={k[1]}": v for k, v in outcomes.items()}, where=fv.fq,
           construct="dt_init <= dt_max", message=f"dt_init / dt_max samples: {outcomes}", consequence="an initial step above the cap is accepted")
