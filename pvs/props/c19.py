"""C19 - ill-posed problems are rejected before anything is written."""
from __future__ import annotations

import ast
from typing import Dict, List, Optional, Set

from ..callgraph import CallGraph
from ..cfg import build_cfg, guards_of, parent_map
from ..src import AnalysisError, loc, norm, own_nodes
from .c01 import classify_zero_test

SOLVER = "tdgl.solver.solver"
OPTIONS = "tdgl.solver.options"
TECH = ("dominance of validation sites over the first file-creating statement on the inlined flow solve() = __init__ ; solve, "
        "call-graph audit of file-creating calls and of raise sites after that point, finite-domain evaluation of the range predicates")

FILE_EXT_PREFIX = ("h5py.File", "tempfile.", "shutil.", "os.makedirs", "os.mkdir", "os.remove", "builtins.open")
FILE_ATTRS = {"mkdir", "makedirs", "create_group", "create_dataset", "write_text", "write_bytes", "touch"}
STATE_ERRORS = {"RuntimeError", "IOError", "OSError", "KeyboardInterrupt", "FileExistsError"}

# raise sites allowed after the first write: (function, reason)
ALLOW_AFTER_WRITE = {
    "tdgl.device.device:Device.__init__": "re-run by Device.copy() inside Solution.__init__ on values that already passed it when the user built the device",
    "tdgl.device.polygon:Polygon.points": "re-run by Polygon.copy() on vertices that already passed the setter",
    "tdgl.solution.solution:Solution.to_hdf5": "missing-file check cannot fire for the file the handler still holds open",
}


def file_effects(cg: CallGraph, fqs: Set[str]) -> List[str]:
    out = []
    for fq in sorted(fqs):
        for dotted, call in cg.ext.get(fq, []):
            if dotted.startswith(FILE_EXT_PREFIX) or dotted == "open":
                out.append(f"{fq} L{call.lineno}: {dotted}")
        f = cg.funcs[fq]
        for n in ast.walk(f.node):
            if isinstance(n, ast.Call) and isinstance(n.func, ast.Attribute) and n.func.attr in FILE_ATTRS:
                out.append(f"{fq} L{n.lineno}: .{n.func.attr}()")
            if isinstance(n, ast.Call) and isinstance(n.func, ast.Name) and n.func.id == "open":
                out.append(f"{fq} L{n.lineno}: open()")
    return out


def check(ctx):
    repo = ctx.repo
    ctx.rule("R19.6", "what the solver's validation reads on the device (terminal data, scales) is recomputed on every access, never memoised (shared with C01 R01.8)", 6)
    ctx.rule("R19.5", "the device snapshot a Solution keeps is independent of the live device: Device.copy copies the layer, the polygons and the probe "
                      "points, so the seed-device comparison sees later edits (shared with C18 R18.3)", 2)
    ctx.rule("R19.4", "validation checks the options, it does not change them (only a solver name is replaced by its enum member)", 1)
    ctx.rule("R19.1", "every validation site precedes the first statement that can create a file or directory", 4)
    ctx.rule("R19.2", "after that point only state-dependent failures (RuntimeError, I/O) can be raised, up to a short allow-list", 1)
    ctx.rule("R19.7", "options the run divides by, or whose sign decides whether the clock advances, are range-checked by validate() "
                      "(or guarded where they are used): a zero / negative value is rejected before the output file exists", 3)
    ctx.rule("R19.3", "each class of ill-posed input has a guard whose predicate depends on that input and accepts/rejects the right side of the boundary", 14)
    cg = CallGraph(repo)
    f_solve_api = repo.func("tdgl.solver.solve", "solve")
    f_init = repo.func(SOLVER, "TDGLSolver.__init__")
    f_solve = repo.func(SOLVER, "TDGLSolver.solve")
    # tdgl.solve == TDGLSolver(...) ; .solve()
    body = [s for s in f_solve_api.node.body if not (isinstance(s, ast.Expr) and isinstance(s.value, ast.Constant))]
    # canonical reading (src: single-use temporaries are inlined): `return TDGLSolver(...).solve()`
    ok = (len(body) == 1 and isinstance(body[0], ast.Return) and isinstance(body[0].value, ast.Call) and not body[0].value.args
          and isinstance(body[0].value.func, ast.Attribute) and body[0].value.func.attr == "solve"
          and isinstance(body[0].value.func.value, ast.Call) and norm(body[0].value.func.value.func) == "TDGLSolver") or (
        len(body) == 2 and isinstance(body[0], ast.Assign) and isinstance(body[0].value, ast.Call) and norm(body[0].value.func) == "TDGLSolver"
        and isinstance(body[1], ast.Return) and norm(body[1].value) == f"{norm(body[0].targets[0])}.solve()")
    ctx.ob("R19.1", "tdgl.solve constructs the solver (all constructor validation) and only then calls solve()", ok,
           detail=[norm(s)[:100] for s in body], where=f_solve_api.fq, construct="tdgl.solve body", loc=loc(f_solve_api, f_solve_api.node),
           message="tdgl.solve no longer is `TDGLSolver(...)` followed by `.solve()`", consequence="validation order is unknown")
    # nothing reachable from __init__ creates files
    reach_init = cg.reachable([f_init.fq])
    eff = file_effects(cg, reach_init)
    ctx.ob("R19.1", f"no file-creating call is reachable from TDGLSolver.__init__ ({len(reach_init)} functions)", not eff,
           detail=eff, where=f_init.fq, construct="file effects of the constructor", loc=loc(f_init, f_init.node),
           message=f"the constructor can create files: {eff}", consequence="a rejected problem leaves output behind")
    # in solve(): W = the DataHandler with-statement; every statement before it is file-effect free
    withs = [n for n in own_nodes(f_solve.node) if isinstance(n, ast.With) and any(
        "DataHandler" in norm(it.context_expr) for it in n.items)]
    if len(withs) != 1:
        raise AnalysisError("TDGLSolver.solve no longer has one `with DataHandler(...)` block")
    W = withs[0]
    top = f_solve.node.body
    if W not in top:
        raise AnalysisError("the DataHandler with-block is no longer a top-level statement of solve()")
    before = top[: top.index(W)]
    pre_callees = cg.reachable(sorted(cg.calls_within(f_solve, before)))
    eff = file_effects(cg, pre_callees)
    direct = [f"L{n.lineno}: {norm(n.func)}" for s in before for n in ast.walk(s) if isinstance(n, ast.Call)
              and ((isinstance(n.func, ast.Attribute) and n.func.attr in FILE_ATTRS) or norm(n.func) in ("h5py.File", "open"))]
    ctx.ob("R19.1", "nothing before the `with DataHandler` block of solve() creates files", not eff and not direct,
           detail={"callees": sorted(pre_callees), "effects": eff + direct}, where=f_solve.fq, construct="file effects before the with block",
           loc=loc(f_solve, W), message=f"files can be created before the handler: {eff + direct}",
           consequence="a seed/device mismatch is detected after output was produced")
    # validation raises in solve() are all before W
    pm = parent_map(f_solve.node)
    late = []
    n_val = 0
    for n in own_nodes(f_solve.node):
        if isinstance(n, ast.Raise):
            n_val += 1
            if any(g is W for g, _ in guards_of(f_solve.node, n, pm)):
                late.append(f"L{n.lineno}: {norm(n)[:80]}")
    vcalls = [n for s in before for n in ast.walk(s) if isinstance(n, ast.Call) and norm(n.func).endswith("validate")]
    ctx.ob("R19.1", "solve(): options.validate() and the seed-device check precede the with block", not late and n_val >= 1 and len(vcalls) >= 1,
           detail={"raises": n_val, "inside_with": late, "validate_calls": [norm(v) for v in vcalls]}, where=f_solve.fq,
           construct="validation order in solve()", loc=loc(f_solve, W), message=f"validation inside the with block: {late}",
           consequence="a seed solution from another device is rejected after the output file was created")

    # R19.2 ---------------------------------------------------------------------------
    roots = cg.calls_within(f_solve, [W])
    reach = cg.reachable(sorted(roots))
    offenders = []
    allowed_hits = {}
    total = 0
    # a private helper that is only ever called from allow-listed functions (a validation block of Device.__init__ moved into
    # `_as_probe_points`) inherits their entry
    allow = dict(ALLOW_AFTER_WRITE)
    callers: Dict[str, Set[str]] = {}
    for g_, outs_ in cg.edges.items():
        for h_ in outs_:
            callers.setdefault(h_, set()).add(g_)
    changed_ = True
    while changed_:
        changed_ = False
        for fq_ in reach:
            if fq_ in allow or not fq_.split(".")[-1].split(":")[-1].startswith("_") or fq_.split(".")[-1].startswith("__"):
                continue
            cs_ = callers.get(fq_, set())
            if cs_ and all(c_ in allow for c_ in cs_):
                allow[fq_] = "private helper of " + ", ".join(sorted(c_.split(":")[1] for c_ in cs_)) + ": " + allow[sorted(cs_)[0]]
                changed_ = True
    for fq in sorted(reach | {f_solve.fq}):
        f = cg.funcs[fq]
        nodes = ast.walk(f.node) if fq != f_solve.fq else ast.walk(W)
        for n in nodes:
            if isinstance(n, ast.Raise) and n.exc is not None:
                e = n.exc.func if isinstance(n.exc, ast.Call) else n.exc
                cls = norm(e).split(".")[-1]
                total += 1
                if cls in STATE_ERRORS:
                    continue
                if fq in allow:
                    allowed_hits.setdefault(fq, 0)
                    allowed_hits[fq] += 1
                    continue
                offenders.append(f"{fq} L{n.lineno}: raise {cls}")
    ctx.ob("R19.2", f"raise sites reachable after the first write ({len(reach)} functions, {total} raise sites)", not offenders,
           detail={"offenders": offenders, "allow_listed": {k: f"{v} site(s): {allow[k]}" for k, v in allowed_hits.items()}},
           where=f_solve.fq, construct="input rejections after the first write", loc=loc(f_solve, W),
           message=f"input-validation errors can be raised after output exists: {offenders}",
           consequence="an ill-posed problem is rejected only after an output file was created")
    ctx.note("unresolved_calls_after_write", sum(len(cg.unresolved.get(f, [])) for f in reach))

    guards(ctx, f_init, f_solve)
    option_ranges(ctx)
    loop_needs(ctx, cg, sorted(reach | {f_solve.fq}))
    from ..report import Shared
    from . import c18
    from .c13 import scales_not_memoised
    scales_not_memoised(Shared(ctx, {"R19.6": "R19.6"},
                               consequence="a terminal moved or redrawn in place after a first solve is still validated against the remembered terminal data: a "
                                           "terminal that no longer touches the boundary is accepted, the simulation runs and the output file is written"), "R19.6")
    c18.check(Shared(ctx, {"R18.3": "R19.5"},
                     consequence="the device stored in a Solution follows in-place edits of the live device (e.g. layer.london_lambda): a seed solution computed "
                                 "for other parameters is accepted as matching and the run starts from a state of another problem"))
    ctx.assume("R15.1-2 cover rejections that come from the handler itself")
    from ..effects import options_readonly
    options_readonly(ctx, "R19.4", "an inconsistent or unusual option set is silently 'repaired' instead of being used as given or rejected")
    ctx.decline("'unbalanced at any time' for callable currents: the validator samples 100 random times, so a time-localised "
                "imbalance is accepted with positive probability - no static rule makes a sampling test exhaustive")


def raise_guards(fi) -> List[tuple]:
    fn = fi.node
    pm = parent_map(fn)
    out = []
    for n in own_nodes(fn):
        if isinstance(n, ast.Raise):
            gs = [(g, br) for g, br in guards_of(fn, n, pm) if isinstance(g, ast.If)]
            out.append((n, gs))
    return out


def guards(ctx, f_init, f_solve):
    repo = ctx.repo
    rg = raise_guards(f_init)

    from ..dataflow import expand

    def xt(t):
        return expand(f_init.node, t)

    def find(pred):
        return [(n, gs) for n, gs in rg if gs and pred(norm(xt(gs[-1][0].test)))]
    # epsilon > 1
    hit = find(lambda t: "epsilon" in t and ("<" in t or ">" in t))
    ok = False
    det = None
    if len(hit) == 1:
        test = xt(hit[0][1][-1][0].test)
        cmps = [c for c in ast.walk(test) if isinstance(c, ast.Compare)]
        det = norm(test)
        # canonical spelling: `epsilon > 1` reads `1 < epsilon`
        ok = len(cmps) == 1 and isinstance(cmps[0].ops[0], ast.Lt) and isinstance(cmps[0].left, ast.Constant) \
            and cmps[0].left.value == 1 and "any" in det and hit[0][1][-1][1] == "true"
    ctx.ob("R19.3", "epsilon: rejected iff any(epsilon > 1) (accepts = 1, rejects > 1)", ok, detail=det, where=f_init.fq,
           construct="epsilon guard", loc=loc(f_init, hit[0][0]) if hit else "", message=f"epsilon guard is `{det}`",
           consequence="epsilon = 1 (the clean superconductor) is rejected, or epsilon slightly above 1 accepted")
    # vector potential shape
    hit = find(lambda t: ".shape" in t and "!=" in t)
    from ..dataflow import local_stored_in_attr
    from ..src import rename_id
    an = local_stored_in_attr(f_init.node, "current_A_applied") or "current_A_applied"
    ok = len(hit) == 1 and rename_id(norm(hit[0][1][-1][0].test), an, "APPLIED").replace(" ", "") in (
        "APPLIED.shape!=self.edge_centers.shape", "self.edge_centers.shape!=APPLIED.shape")
    if not ok and len(hit) == 1:
        # the same guard on another local that holds the evaluated potential (`X.shape != self.edge_centers.shape`, X computed from
        # self.applied_vector_potential(...))
        from ..dataflow import expanded_text
        t_ = hit[0][1][-1][0].test
        if isinstance(t_, ast.Compare) and len(t_.ops) == 1 and isinstance(t_.ops[0], ast.NotEq):
            sides = [t_.left, t_.comparators[0]]
            ec = [x for x in sides if norm(x) == "self.edge_centers.shape"]
            ot = [x for x in sides if norm(x) != "self.edge_centers.shape"]
            from ..dataflow import assignments as _asg
            def _from_potential(e):
                if "self.applied_vector_potential(" in expanded_text(f_init.node, e):
                    return True
                return isinstance(e, ast.Name) and any(v is not None and "self.applied_vector_potential(" in expanded_text(f_init.node, v)
                                                       for _, v in _asg(f_init.node).get(e.id, []))
            ok = len(ec) == 1 and len(ot) == 1 and isinstance(ot[0], ast.Attribute) and ot[0].attr == "shape" and _from_potential(ot[0].value)
    ctx.ob("R19.3", "vector potential of the wrong shape is rejected", ok, detail=[norm(g[-1][0].test) for _, g in hit],
           where=f_init.fq, construct="vector potential shape guard", message="no shape guard on the evaluated vector potential",
           consequence="a mis-shaped vector potential is broadcast silently")
    # empty terminal
    hit = find(lambda t: "length" in t and "== 0" in t)
    ok = len(hit) == 1 and any(isinstance(g, ast.For) for g, _ in guards_of(f_init.node, hit[0][0], parent_map(f_init.node)))
    if not ok:
        # the same search written as an expression: `bad = next((t for t in <terminals> if t.length == 0), None)` / any(...) guarding a raise
        for n_ in own_nodes(f_init.node):
            if isinstance(n_, ast.Assign) and len(n_.targets) == 1 and isinstance(n_.targets[0], ast.Name):
                gens = [g_ for g_ in ast.walk(n_.value) if isinstance(g_, (ast.GeneratorExp, ast.ListComp)) and len(g_.generators) == 1
                        and "terminal_info" in norm(g_.generators[0].iter)
                        and any("length" in norm(c_) and "== 0" in norm(c_) for c_ in list(g_.generators[0].ifs) + [g_.elt])]
                users = [(n2, gs2) for n2, gs2 in rg if gs2 and n_.targets[0].id in norm(gs2[-1][0].test)]
                if gens and users:
                    ok = True
                    hit = users
    ctx.ob("R19.3", "a terminal touching no boundary edge (length == 0) is rejected, for every terminal", ok,
           detail=[norm(g[-1][0].test) for _, g in hit], where=f_init.fq, construct="empty terminal guard",
           message="no length == 0 guard inside a loop over terminals", consequence="division by zero terminal length: inf/NaN current density")
    # terminal currents validator is called with the *scaled* current function before operators are built
    vc = [n for n in own_nodes(f_init.node) if isinstance(n, ast.Call) and norm(n.func) == "validate_terminal_currents"]
    ok = len(vc) == 1 and not guards_of(f_init.node, vc[0], parent_map(f_init.node)) and norm(vc[0].args[0]) == "self.current_func" \
        and norm(vc[0].args[1]) == "self.terminal_info"
    ctx.ob("R19.3", "validate_terminal_currents(self.current_func, self.terminal_info, ...) is called unconditionally", ok,
           detail=[norm(v) for v in vc], where=f_init.fq, construct="validate_terminal_currents call", message="terminal currents are not validated unconditionally",
           consequence="unbalanced currents reach the Poisson solve (singular system, unbounded potential)")
    fv = repo.func(SOLVER, "validate_terminal_currents")
    terminal_current_validator(ctx, fv)
    # seed device
    rs = raise_guards(f_solve)
    hit = [(n, gs) for n, gs in rs if gs and "seed_solution.device" in norm(gs[-1][0].test) and "!=" in norm(gs[-1][0].test)]
    ctx.ob("R19.3", "a seed solution from a different device is rejected", len(hit) == 1, detail=[norm(g[-1][0].test) for _, g in hit],
           where=f_solve.fq, construct="seed device guard", message="no seed-device inequality guard", consequence="a run resumes from a state on another mesh")
    # the seed guard is only as strong as Device.__eq__: sequences of holes/terminals must not be compared by a truncating zip
    feq = repo.func("tdgl.device.device", "Device.__eq__")
    nested = [g for g in repo.module("tdgl.device.device").functions.values() if g.parent is feq]
    trunc = []
    for g in [feq] + nested:
        src_g = norm(g.node)
        for node in ast.walk(g.node):
            if isinstance(node, ast.Call) and norm(node.func) == "zip" and not any(
                    isinstance(c, ast.Compare) and all(isinstance(x, ast.Call) and norm(x.func) == "len" for x in [c.left] + c.comparators)
                    for c in ast.walk(g.node)):
                trunc.append(f"{g.qual} L{node.lineno}: {norm(node)[:70]}")
    ctx.ob("R19.3", "Device equality (the seed-device guard) compares whole sequences of holes and terminals", not trunc, detail=trunc,
           where=feq.fq, construct="Device.__eq__ sequence comparison", loc=loc(feq, feq.node),
           message=f"Device.__eq__ compares holes/terminals with a truncating zip: {trunc}",
           consequence="a seed solution computed on a device with an extra hole or terminal is accepted")
    # polygon / device definitions
    fp = repo.cls("tdgl.device.polygon", "Polygon").methods["points"]
    # the setter followed for a polygon with interiors, for an invalid one and for a good one (pvs/smallstep.py)
    from .c18 import follow_points_setter
    txts = []
    ok = True
    for interiors, valid, want in ((True, True, "raise"), (False, False, "raise"), (False, True, "return")):
        k_, v_, stored_ = follow_points_setter(fp, "array", interiors, valid)
        txts.append(f"interiors={interiors} valid={valid}: {k_}")
        ok = ok and k_ == want and (want == "return" or not stored_)
    ctx.ob("R19.3", "invalid / multiply-connected polygons are rejected by the points setter", ok, detail=txts, where=fp.fq,
           construct="polygon validity guards", message=f"polygon guards: {txts}", consequence="self-intersecting outlines reach the mesher")
    fd = repo.func("tdgl.device.device", "Device.__init__")
    # Device.__init__ followed (pvs/smallstep.py; private helpers included) on eight small devices: one good, one without optional
    # parts, and one for each way of being ill-defined
    cases = [("well defined", {}, "return"), ("no holes, terminals or probe points", {"bare": True}, "return"),
             ("a terminal without a name", {"tnames": ("source", None)}, "raise"), ("two terminals of one name", {"tnames": ("a", "a")}, "raise"),
             ("an invalid film polygon", {"invalid": "FILM"}, "raise"), ("an invalid hole polygon", {"invalid": "H1"}, "raise"),
             ("two holes of one name", {"hnames": ("h", "h")}, "raise"), ("probe points of shape (n,)", {"pp_ndim": 1}, "raise"),
             ("probe points outside the film", {"pp_inside": False}, "raise"),
             ("probe points inside the outline of the film but in a hole", {"pp_inside": "outline only"}, "raise")]
    missing, txts = [], {}
    for what, sc, want in cases:
        kind_ = follow_device_init(repo, fd, sc)
        txts[what] = kind_
        if kind_ != want:
            missing.append(f"{what}: {'accepted' if kind_ == 'return' else 'rejected'}")
    ctx.ob("R19.3", "device definition checks: unique terminal/hole names, valid polygons, probe points inside the film", not missing,
           detail={"found": txts, "missing": missing}, where=fd.fq, construct="device definition guards", message=f"missing device guards: {missing}",
           consequence="duplicate names or outside probes are accepted")


def _stmt(fn, node):
    pm = parent_map(fn)
    while not isinstance(node, ast.stmt):
        node = pm[id(node)][0]
    return node


# ---------------------------------------------------------------------------
# option ranges: evaluate validate()'s predicates at interval end points
# ---------------------------------------------------------------------------

RANGES = {
    # field: (accepted samples, rejected samples)
    "adaptive_time_step_multiplier": ([0.25, 0.999, 1e-9], [0, 1, -0.1, 1.5]),
    "screening_step_drag": ([0.5, 1, 1e-9], [0, -0.1, 1.0001]),
    "screening_step_size": ([0.1, 1e-9, 10], [0, -1]),
    "screening_tolerance": ([1e-3, 1e-12], [0, -1e-3]),
    "terminal_psi": ([None, 0, 1, -1, 0.5, 1j, 0.6 + 0.8j], [1.0001, -1.5, 2j]),
}


def pyeval(e: ast.expr, env: Dict[str, object]):
    if isinstance(e, ast.Constant):
        return e.value
    if isinstance(e, ast.Attribute) and isinstance(e.value, ast.Name) and e.value.id == "self":
        if e.attr not in env:
            raise KeyError(e.attr)
        return env[e.attr]
    if isinstance(e, ast.UnaryOp):
        v = pyeval(e.operand, env)
        return (not v) if isinstance(e.op, ast.Not) else (-v if isinstance(e.op, ast.USub) else v)
    if isinstance(e, ast.BoolOp):
        if isinstance(e.op, ast.And):
            r = True
            for v in e.values:
                r = pyeval(v, env)
                if not r:
                    return r
            return r
        r = False
        for v in e.values:
            r = pyeval(v, env)
            if r:
                return r
        return r
    if isinstance(e, ast.Call) and isinstance(e.func, ast.Name) and e.func.id == "abs":
        return abs(pyeval(e.args[0], env))
    if isinstance(e, ast.Compare):
        left = pyeval(e.left, env)
        for op, c in zip(e.ops, e.comparators):
            right = pyeval(c, env)
            ok = {ast.Lt: lambda a, b: a < b, ast.LtE: lambda a, b: a <= b, ast.Gt: lambda a, b: a > b,
                  ast.GtE: lambda a, b: a >= b, ast.Eq: lambda a, b: a == b, ast.NotEq: lambda a, b: a != b,
                  ast.Is: lambda a, b: a is b, ast.IsNot: lambda a, b: a is not b}[type(op)](left, right)
            if not ok:
                return False
            left = right
        return True
    raise KeyError(norm(e))


def follow_validate(repo, overrides: Dict[str, object]):
    """SolverOptions.validate() followed (pvs/smallstep.py) on an options object whose fields have their declared defaults except
    for `overrides`: ("return", None) or ("raise", exception)."""
    from ..smallstep import Machine, Opaque as SO, module_constants
    fv = repo.func(OPTIONS, "SolverOptions.validate")
    C = repo.cls(OPTIONS, "SolverOptions")
    m0 = Machine(dict(module_constants(fv.module.tree)), lambda t: NotImplemented, lambda *a: NotImplemented)
    fields = {}
    for st in C.node.body:
        if isinstance(st, ast.AnnAssign) and isinstance(st.target, ast.Name):
            fields[st.target.id] = m0.ev(st.value) if st.value is not None else 10.0          # solve_time has no default
    fields.update(overrides)

    def attrs(text):
        if text.startswith("self.") and text.count(".") == 1 and text[5:] in fields:
            return fields[text[5:]]
        return NotImplemented

    def call(m, node, name, args, kwargs):
        if name == "isinstance" and len(args) == 2:
            v = args[0]
            if isinstance(v, SO):
                return False            # an enum member, not a string
            c = args[1]
            ctext = c.text if isinstance(c, SO) else ""
            if ctext in ("str", "int", "float", "bool", "complex") and v is not None:
                return isinstance(v, {"str": str, "int": int, "float": float, "bool": bool, "complex": complex}[ctext])
        return NotImplemented

    def undecided(text):
        # which sparse solver is selected and which optional packages are installed is not what these scenarios are about
        if "sparse_solver" in text or "SparseSolver" in text:
            return False
        return None
    from ..smallstep import follow_private_methods
    mach = Machine({"self": SO("self"), **module_constants(fv.module.tree)}, attrs, follow_private_methods(C, call), fuel=16, undecided=undecided)
    return mach.run_function(fv.node)


def option_ranges(ctx):
    """R19.3: validate() is followed for every sample of RANGES with all other options at their defaults: samples inside the
    documented range must pass, samples outside (end points included where the range is open) must be rejected."""
    repo = ctx.repo
    fv = repo.func(OPTIONS, "SolverOptions.validate")
    base = follow_validate(repo, {})
    if base[0] != "return":
        raise AnalysisError(f"SolverOptions.validate rejects the default options in the model ({base[1]})")
    for field, (acc, rej) in RANGES.items():
        bad_acc = [v for v in acc if follow_validate(repo, {field: v})[0] != "return"]
        bad_rej = [v for v in rej if follow_validate(repo, {field: v})[0] != "raise"]
        det = {"accepted_samples": [repr(x) for x in acc], "rejected_samples": [repr(x) for x in rej],
               "wrongly_rejected": [repr(x) for x in bad_acc], "wrongly_accepted": [repr(x) for x in bad_rej]}
        ok = not bad_acc and not bad_rej
        ctx.ob("R19.3", f"SolverOptions.{field}: documented range enforced at its end points", ok, detail=det, where=fv.fq,
               construct=f"range guard of {field}", loc=loc(fv, fv.node), message=f"range guard of {field}: {det}",
               consequence=f"an out-of-range {field} is accepted (or a legal boundary value rejected)")
    outcomes = {(a_, b_): follow_validate(repo, {"dt_init": a_, "dt_max": b_})[0] for a_, b_ in ((1e-3, 1e-1), (1e-1, 1e-1), (0.2, 1e-1))}
    ok = outcomes == {(1e-3, 1e-1): "return", (1e-1, 1e-1): "return", (0.2, 1e-1): "raise"}
    ctx.ob("R19.3", "dt_init <= dt_max enforced (equality accepted)", ok, detail={f"dt_init={k[0]} dt_max={k[1]}": v for k, v in outcomes.items()}, where=fv.fq,
           construct="dt_init <= dt_max", message=f"dt_init / dt_max samples: {outcomes}", consequence="an initial step above the cap is accepted")


def _option_field(e: ast.expr, fields) -> Optional[str]:
    """`options.F`, `self.options.F`, `solver_options.F`, `self.solver.options.F` ... -> F (a declared SolverOptions field)."""
    if isinstance(e, ast.Attribute) and e.attr in fields:
        base = norm(e.value)
        if base.split(".")[-1] in ("options", "solver_options", "opts"):
            return e.attr
    return None


def loop_needs(ctx, cg, fqs):
    """R19.7.  (a) Every `%`, `//`, `/` in the functions that run after the output file exists whose divisor is a SolverOptions field
    (read directly or through a single local alias): the use is dominated by a test `0 < field`, or validate() rejects field = 0.
    (b) The clock: the loop ends when the accumulated time reaches the requested time, and with adaptivity off every step equals
    dt_init (R12.2), so validate() must reject dt_init <= 0 (0: the clock never moves and frames are written for ever; negative:
    time runs backwards)."""
    from ..dataflow import conditions_at, expand
    repo = ctx.repo
    C = repo.cls(OPTIONS, "SolverOptions")
    fv = repo.func(OPTIONS, "SolverOptions.validate")
    fields = {st.target.id for st in C.node.body if isinstance(st, ast.AnnAssign) and isinstance(st.target, ast.Name)}
    def guards_here(f, n):
        """Tests that hold where n is evaluated: the enclosing if-conditions and the earlier operands of an enclosing `and`
        (each expanded through single definitions)."""
        out = []
        try:
            out = [norm(c) for c in conditions_at(f.node, n)]
        except Exception:
            pass
        pm = parent_map(f.node)
        cur = n
        while id(cur) in pm and not isinstance(cur, ast.stmt):
            par = pm[id(cur)][0]
            if isinstance(par, ast.BoolOp) and isinstance(par.op, ast.And):
                for v in par.values:
                    if v is cur:
                        break
                    try:
                        out.append(norm(expand(f.node, v)))
                    except Exception:
                        out.append(norm(v))
            cur = par
        return out

    def positive(fld, conds):
        return any(fld in c and ("0 <" in c or "> 0" in c or "1 <=" in c or ">= 1" in c) for c in conds)

    sites = []
    for fq in fqs:
        f = cg.funcs[fq]
        if not f.module.name.startswith("tdgl.solver"):
            continue
        for n in ast.walk(f.node):
            if isinstance(n, ast.BinOp) and isinstance(n.op, (ast.Mod, ast.FloorDiv, ast.Div)):
                right = n.right
                fld = _option_field(right, fields)
                if fld is None and isinstance(right, ast.Name):
                    try:
                        fld = _option_field(expand(f.node, right), fields)
                    except Exception:
                        fld = None
                if fld is None or isinstance(n.left, ast.Constant) and isinstance(n.left.value, str):
                    continue
                sites.append((f, n, fld))
    if len(sites) < 2:
        raise AnalysisError(f"R19.7: only {len(sites)} divisions by an option field found on the run path (the save interval is one today)")
    for f, n, fld in sites:
        conds = guards_here(f, n)
        local = positive(fld, conds)
        res0 = follow_validate(repo, {fld: 0})[0]
        ok = local or res0 == "raise"
        ctx.ob("R19.7", f"divisor {fld} in `{norm(n)[:60]}` cannot be zero", ok,
               detail={"guards_at_use": conds, "validate(field=0)": res0}, where=f.fq, loc=loc(f, n), construct=f"division by options.{fld}",
               message=f"`{norm(n)[:80]}` divides by options.{fld}; nothing rejects {fld} = 0 before the run (validate() {res0}s, guards at the use: {conds})",
               consequence=f"{fld} = 0 is accepted, the output file is created, and the run dies with ZeroDivisionError in its first step - an ill-posed "
                           "option set is rejected only after output exists, and the file is left behind")
    for fld in sorted({s_[2] for s_ in sites}):
        if any(fld == s_[2] and isinstance(s_[1].op, ast.Mod) for s_ in sites):
            neg = follow_validate(repo, {fld: -3})[0]
            pos = follow_validate(repo, {fld: 1})[0]
            local_all = all(positive(fld, guards_here(s_[0], s_[1])) for s_ in sites if s_[2] == fld)
            ctx.ob("R19.7", f"interval {fld}: 1 accepted, negative rejected (or guarded at every use)", pos == "return" and (neg == "raise" or local_all),
                   detail={"validate(1)": pos, "validate(-3)": neg, "guarded_at_every_use": local_all}, where=fv.fq, loc=loc(fv, fv.node),
                   construct=f"range of {fld}", message=f"validate() with {fld} = 1: {pos}; with {fld} = -3: {neg}",
                   consequence=f"a negative {fld} reaches the run loop (as a modulus; save_every also sizes the record buffers) and fails there, after the output file exists")
    out = {v: follow_validate(repo, {"dt_init": v})[0] for v in (0, 0.0, -1e-3, 1e-9, 1e-6)}
    ok = out[0] == out[0.0] == out[-1e-3] == "raise" and out[1e-9] == out[1e-6] == "return"
    ctx.ob("R19.7", "dt_init: zero and negative rejected, small positive accepted", ok, detail={repr(k): v for k, v in out.items()}, where=fv.fq,
           loc=loc(fv, fv.node), construct="dt_init > 0",
           message=f"validate() on dt_init samples: {out}",
           consequence="dt_init = 0 (or < 0) is accepted: the clock never reaches solve_time, the run does not end and the output file grows "
                       "without bound (15 s of a 4x4 device: 40 MB)")


def terminal_current_validator(ctx, fv):
    """R19.3: validate_terminal_currents followed (pvs/smallstep.py) on concrete inputs: balanced / unbalanced / misspelt dict
    currents, and callable currents that are balanced at every time or unbalanced at every time."""
    from ..smallstep import Machine, Opaque as SO, module_constants, Closure
    params = [a.arg for a in fv.node.args.args]
    if params[:3] != ["terminal_currents", "terminal_info", "solver_options"]:
        raise AnalysisError(f"validate_terminal_currents has the parameters {params}")
    info = [SO("term_a"), SO("term_b")]
    n_calls = [0]

    def run(currents):
        n_calls[0] = 0

        def attrs(text):
            if text in ("term_a.name", "term_b.name"):
                return text[5]
            if text.endswith("solve_time"):
                return 10.0
            return NotImplemented

        def call(m, node, name, args, kwargs):
            short = name.split(".")[-1]
            if name == "callable" and len(args) == 1:
                return isinstance(args[0], SO) and args[0].text == "CURRENT_FUNCTION"
            if name == "CURRENT_FUNCTION":
                n_calls[0] += 1
                return dict(currents["value"])
            if short in ("isfinite", "isnan", "isinf") and len(args) == 1 and isinstance(args[0], (int, float)):
                import math
                return getattr(math, short)(args[0])
            if name.endswith("default_rng"):
                return SO("rng")
            if name == "rng.random":
                return SO("u")
            if name == "sum" and len(args) == 1 and isinstance(args[0], (list, tuple)) and all(isinstance(x, (int, float)) for x in args[0]):
                return sum(args[0])
            if name == "set" and args and isinstance(args[0], list) and all(isinstance(x, str) for x in args[0]):
                return frozenset(args[0])
            if short in ("difference",) and isinstance(m.callee(node.func)[1], frozenset) and args:
                return frozenset(m.callee(node.func)[1]) - frozenset(args[0])
            return NotImplemented
        env = dict(module_constants(fv.module.tree))
        env.update({"terminal_currents": SO("CURRENT_FUNCTION") if currents["callable"] else dict(currents["value"]),
                    "terminal_info": list(info), "solver_options": SO("solver_options")})
        if "num_evals" in params:
            env["num_evals"] = 3
        mach = Machine(env, attrs, call, fuel=16, undecided=None)

        base_iterate = mach.iterate

        def iterate(v, node):
            # the sampled times: three of them
            if isinstance(v, SO):
                return [SO("t0"), SO("t1"), SO("t2")]
            return base_iterate(v, node)
        mach.iterate = iterate
        return mach.run_function(fv.node)
    cases = [("balanced dict", {"callable": False, "value": {"a": 1.0, "b": -1.0}}, "return"),
             ("unbalanced dict (1e-6 of the drive)", {"callable": False, "value": {"a": 1.0, "b": -1.0 + 1e-6}}, "raise"),
             ("misspelt terminal in a dict", {"callable": False, "value": {"a": 1.0, "x": -1.0}}, "raise"),
             ("balanced function of time", {"callable": True, "value": {"a": 2.0, "b": -2.0}}, "return"),
             ("unbalanced function of time", {"callable": True, "value": {"a": 2.0, "b": -1.0}}, "raise"),
             ("function of time naming an unknown terminal", {"callable": True, "value": {"a": 2.0, "x": -2.0}}, "raise"),
             ("a current that is not a number (nan) in a dict", {"callable": False, "value": {"a": float("nan"), "b": -1.0}}, "raise"),
             ("a current that is not a number (nan) from a function of time", {"callable": True, "value": {"a": 1.0, "b": float("nan")}}, "raise")]
    res = {}
    for what, cur, want in cases:
        kind, val = run(cur)
        res[what] = (kind, want, n_calls[0])
    unknown_ok = all(res[k][0] == res[k][1] for k in res if "misspelt" in k or "unknown" in k)
    balance_ok = all(res[k][0] == res[k][1] for k in res if "balanced" in k and "nan" not in k)
    sampled = res["balanced function of time"][2] >= 2 and res["balanced dict"][2] == 0
    ctx.ob("R19.3", "unknown terminal names are rejected (key set difference)", unknown_ok, detail={k: v[0] for k, v in res.items()}, where=fv.fq,
           construct="unknown terminal guard", message=f"no guard on unknown terminal names: {res}", consequence="a misspelt terminal silently carries no current")
    ctx.ob("R19.3", "unbalanced currents are rejected down to one part in 1e6 (exact test, or tolerance <= 1e-7 relative)", balance_ok,
           detail={k: v[0] for k, v in res.items()}, where=fv.fq, construct="balance guard strength", message=f"balance guard: {res}",
           consequence="an imbalance of 1e-6 of the drive is accepted")
    nan_ok = all(res[k][0] == res[k][1] for k in res if "nan" in k)
    ctx.ob("R19.3", "currents whose sum is not a number are rejected (the balance test accepts only a sum it has compared successfully)", nan_ok,
           detail={k: v[0] for k, v in res.items() if "nan" in k}, where=fv.fq, construct="balance guard on nan",
           message=f"a nan current passes the balance test: { {k: v[0] for k, v in res.items() if 'nan' in k} }",
           consequence="terminal_currents with a nan value (a failed upstream computation) are accepted: every comparison with nan is false, so a "
                       "test of the form `if abs(total) > tol: raise` lets it through, the run starts and writes nan fields")
    ctx.ob("R19.3", "callable currents are checked at sampled times, dict currents once", sampled and balance_ok,
           detail={k: v[2] for k, v in res.items()}, where=fv.fq, construct="validator dispatch", message=f"validator does not cover both input forms: {res}",
           consequence="time-dependent terminal currents are never checked")


def follow_device_init(repo, fd, sc) -> str:
    """'return' / 'raise' of Device.__init__ in the model for one small device description"""
    from ..run_trace import _RunMachine, RunTrace
    from ..smallstep import Opaque as SO, follow_private_methods, module_constants
    D = repo.cls("tdgl.device.device", "Device")
    params = [a.arg for a in fd.node.args.args + fd.node.args.kwonlyargs]
    for need in ("film", "holes", "terminals", "probe_points"):
        if need not in params:
            raise AnalysisError(f"Device.__init__ no longer takes `{need}`")
    tn = sc.get("tnames", ("source", "drain"))
    hn = sc.get("hnames", ("h0", "h1"))
    names = {"T0.name": tn[0], "T1.name": tn[1], "H0.name": hn[0], "H1.name": hn[1], "FILM.name": "film"}

    def attrs(text):
        if text in names:
            return names[text]
        if text.endswith(".is_valid") and text.split(".")[0] in ("FILM", "H0", "H1"):
            return sc.get("invalid") != text.split(".")[0]
        if text.endswith(".ndim"):
            return sc.get("pp_ndim", 2)
        if text.endswith(".shape"):
            return (3, 2) if sc.get("pp_ndim", 2) == 2 else (3,)
        return NotImplemented

    def call(m, node, name, args, kwargs):
        if name.endswith(".all") and "contains_points" in name:
            inside = sc.get("pp_inside", True)
            if inside == "outline only":          # Device.contains_points knows the holes, the film polygon alone does not
                return not name.startswith("self.contains_points(")
            return inside
        return NotImplemented
    env = dict(module_constants(fd.module.tree))
    bare = sc.get("bare")
    given = {"self": SO("self"), "name": "dev", "layer": SO("LAYER"), "film": SO("FILM"), "holes": None if bare else [SO("H0"), SO("H1")],
             "terminals": None if bare else [SO("T0"), SO("T1")], "probe_points": None if bare else SO("PP"), "length_units": "um"}
    m0 = _RunMachine({}, lambda t: NotImplemented, lambda *a: NotImplemented)
    m0.self_state, m0.trace = {}, RunTrace({})
    defaults = dict(zip([a.arg for a in fd.node.args.args][len(fd.node.args.args) - len(fd.node.args.defaults):], fd.node.args.defaults))
    for kw_, d_ in zip(fd.node.args.kwonlyargs, fd.node.args.kw_defaults):
        if d_ is not None:
            defaults[kw_.arg] = d_
    for p_ in params:
        if p_ in given:
            env[p_] = given[p_]
        elif p_ in defaults:
            env[p_] = m0.ev(defaults[p_])
        else:
            raise AnalysisError(f"Device.__init__ has a parameter `{p_}` the model does not know")
    mach = _RunMachine(env, attrs, follow_private_methods(D, call), fuel=16, undecided=lambda t: None)
    mach.self_state, mach.trace = {}, RunTrace({})
    kind, _ = mach.run_function(fd.node)
    return kind
