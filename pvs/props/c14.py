"""C14 - save/load round trips: writer/reader sibling agreement, None handling, slots."""
from __future__ import annotations

import ast
from typing import Dict, List, Optional, Set, Tuple

from ..cfg import guards_of, parent_map
from ..src import AnalysisError, FuncInfo, loc, norm, own_nodes
from .c16 import class_slots, init_assigned

TECH = ("symbolic HDF5 round trips (the writer followed into a model group, the reader followed on that group, per optional attribute / empty "
        "collection / writer flag) for six serialisable classes and TDGLData; Optional-default rule; slot coverage of __getstate__; reader cast audit")

PAIRS = [
    # (module, class, writer, reader, group params of writer, of reader)
    ("tdgl.device.layer", "Layer", "to_hdf5", "from_hdf5"),
    ("tdgl.device.polygon", "Polygon", "to_hdf5", "from_hdf5"),
    ("tdgl.device.device", "Device", "to_hdf5", "from_hdf5"),
    ("tdgl.finite_volume.edge_mesh", "EdgeMesh", "to_hdf5", "from_hdf5"),
    ("tdgl.finite_volume.mesh", "Mesh", "to_hdf5", "from_hdf5"),
    ("tdgl.solution.data", "DynamicsData", "to_hdf5", "from_hdf5"),
]


class KeyUse:
    def __init__(self, kind, key, cond, node):
        self.kind = kind      # data | attr
        self.key = key
        self.cond = cond      # guard text list
        self.node = node


def _group_names(fn: ast.FunctionDef) -> Set[str]:
    """Names that denote the h5 group/file: params named *group*/h5*/f, `with ... as f`, aliases."""
    names = set()
    for a in fn.args.args + fn.args.kwonlyargs:
        if any(t in a.arg for t in ("group", "h5", "path_or_group")):
            names.add(a.arg)
    changed = True
    while changed:
        changed = False
        for n in ast.walk(fn):
            if isinstance(n, ast.With):
                for it in n.items:
                    if isinstance(it.optional_vars, ast.Name) and it.optional_vars.id not in names:
                        names.add(it.optional_vars.id)
                        changed = True
            if isinstance(n, ast.Assign) and len(n.targets) == 1 and isinstance(n.targets[0], ast.Name):
                v = n.value
                if isinstance(v, ast.Name) and v.id in names and n.targets[0].id not in names:
                    names.add(n.targets[0].id)
                    changed = True
    return names


def key_uses(fi: FuncInfo, include_nested=True) -> List[KeyUse]:
    fn = fi.node
    groups = _group_names(fn)
    pm = parent_map(fn)
    out = []

    def is_group(e):
        if isinstance(e, ast.Name) and e.id in groups:
            return True
        return False

    def guards(n):
        st = n
        while not isinstance(st, ast.stmt):
            st = pm[id(st)][0]
        gs = []
        for g, br in guards_of(fn, st, pm):
            if isinstance(g, ast.If):
                gs.append(("" if br == "true" else "not ") + norm(g.test))
        return gs

    for n in ast.walk(fn):
        # group["key"], group.attrs["key"]
        if isinstance(n, ast.Subscript) and isinstance(n.slice, ast.Constant) and isinstance(n.slice.value, str):
            if is_group(n.value):
                out.append(KeyUse("data", n.slice.value, guards(n), n))
            elif isinstance(n.value, ast.Attribute) and n.value.attr == "attrs" and is_group(n.value.value):
                out.append(KeyUse("attr", n.slice.value, guards(n), n))
        # "key" in group / group.attrs
        if isinstance(n, ast.Compare) and len(n.ops) == 1 and isinstance(n.ops[0], (ast.In, ast.NotIn)) and \
                isinstance(n.left, ast.Constant) and isinstance(n.left.value, str):
            c = n.comparators[0]
            if is_group(c):
                out.append(KeyUse("data?", n.left.value, guards(n), n))
            elif isinstance(c, ast.Attribute) and c.attr == "attrs" and is_group(c.value):
                out.append(KeyUse("attr?", n.left.value, guards(n), n))
        # create_group("k") / require_group("k")
        if isinstance(n, ast.Call) and isinstance(n.func, ast.Attribute) and n.func.attr in ("create_group", "require_group") \
                and is_group(n.func.value) and n.args and isinstance(n.args[0], ast.Constant):
            out.append(KeyUse("data", n.args[0].value, guards(n), n))
        # local helper get("key")  (Layer.from_hdf5)
        if isinstance(n, ast.Call) and isinstance(n.func, ast.Name) and n.func.id == "get" and n.args and \
                isinstance(n.args[0], ast.Constant) and isinstance(n.args[0].value, str):
            out.append(KeyUse("attr-get", n.args[0].value, guards(n), n))
    return out


def ctor_params(repo, mod, cls) -> List[str]:
    c = repo.cls(mod, cls)
    init = repo.method(c, "__init__")
    if init is None:   # dataclass
        return [s.target.id for s in c.node.body if isinstance(s, ast.AnnAssign)]
    a = init.node.args
    return [p.arg for p in a.args[1:] + a.kwonlyargs]


def ctor_call_kwargs(fi: FuncInfo, clsname: str) -> Optional[Set[str]]:
    for n in ast.walk(fi.node):
        if isinstance(n, ast.Call) and (getattr(n.func, "id", None) in (clsname, "cls")):
            kws = {k.arg for k in n.keywords if k.arg}
            return kws, len(n.args)
    return None


def check(ctx):
    repo = ctx.repo
    ctx.rule("R14.14", "the records of a solution exported after its raw output is gone (one frame that carries all of them) are read back: the record "
                       "reader is followed on that file (pvs/shapes.py)", 1)
    ctx.rule("R14.10", "serialisers and copy methods do not modify the object they serialise", 8)
    ctx.rule("R14.1", "writer and reader of each serialisable class agree on the key set; conditionally written keys are "
                      "read conditionally; the reader feeds every constructor parameter", 12)
    ctx.rule("R14.7", "readers never replace a stored value by a default through truthiness (`stored or default`): 0, 0.0, False and "
                      "empty arrays are legitimate stored values", 6)
    ctx.rule("R14.9", "Solution.to_hdf5: whenever the solution object is written into a file other than its own output file, that "
                      "file was first replaced by a copy of the output file (on every path) or the data is written explicitly", 2)
    ctx.rule("R14.11", "readers hand stored values to the constructors without narrowing them: no float()/int()/round() or computed type cast in a "
                       "from_hdf5 function beyond the confirmed ones (float(complex) and int(float) drop information)", 1)
    ctx.rule("R14.12", "each stored key carries the attribute that the reader feeds back into the same attribute: writer `h5[K] = self.A`, "
                       "reader `Cls(P=h5[K])`, constructor `self.A = f(P)` name one and the same A", 12)
    ctx.rule("R14.13", "a field is written whenever it is set: the guards of `h5[K] = self.A` mention no attribute other than A", 6)
    ctx.rule("R14.8", "equality of sequences of sub-objects compares lengths (no silent truncation by zip)", 2)
    ctx.rule("R14.2", "options: None values are dropped on save, so every Optional field must default to None "
                      "(or the reader must restore None)", 1)
    ctx.rule("R14.3", "Mesh.is_restorable tests exactly the keys the full writer creates; the restoring constructor uses them all", 2)
    ctx.rule("R14.4", "custom __getstate__ of a slotted class covers every slot its __init__ assigns", 1)
    ctx.rule("R14.5", "serialize_func / deserialize_func use the same two names for the same three callables and read from the group given", 3)
    ctx.rule("R14.6", "TDGLData writer and reader special-case the same fields (step in the group name, state in attrs)", 2)

    roundtrips(ctx)
    stored_value_defaulting(ctx)
    equality_truncation(ctx)
    export_carries_data(ctx)
    reader_casts(ctx)
    key_attribute_agreement(ctx)
    write_guards(ctx)
    options_none(ctx)
    mesh_restorable(ctx)
    getstate_slots(ctx)
    callables(ctx)
    tdgl_data(ctx)
    exported_records(ctx)
    dynamics_detection(ctx)
    ctx.rule("R14.15", "a device reader that rebuilds the mesh hands the mesh builder coordinates on the scale it expects: stored mesh sites are in units "
                       "of the coherence length, `_create_dimensionless_mesh` divides by it (shared with C18 R18.10)", 1)
    from ..report import Shared
    from .c18 import coordinate_scales
    coordinate_scales(Shared(ctx, {"R18.10": "R14.15"},
                             consequence="a device saved without its full mesh (save_mesh=False) and loaded back has a mesh that is scaled by 1/xi a second "
                                         "time: sites, areas, edge lengths, probe indices and terminal data differ from the original for any coherence length other than 1"),
                      repo.cls("tdgl.device.device", "Device"))
    from ..effects import serialisers_pure
    serialisers_pure(ctx, "R14.10", "saving (or pickling) an object changes it: the object in memory no longer equals what was written, "
                                    "and a second save writes something else")
    ctx.assume("h5py and cloudpickle round-trip the values they are given; equality methods use np.allclose where the code says so")
    ctx.decline("fidelity of h5py/cloudpickle themselves")


def options_none(ctx):
    repo = ctx.repo
    sw = repo.func("tdgl.solution.solution", "Solution._save_to_hdf5_file")
    sr = repo.func("tdgl.solution.solution", "Solution.from_hdf5")
    opt = repo.cls("tdgl.solver.options", "SolverOptions")
    # does the writer drop None?
    drops = any(isinstance(n, ast.If) and "is not None" in norm(n.test) and any(
        isinstance(x, ast.Subscript) and isinstance(x.value, ast.Attribute) and x.value.attr == "attrs"
        for x in ast.walk(n)) for n in own_nodes(sw.node))
    restores_none = False
    for n in ast.walk(sr.node):
        if isinstance(n, ast.For) and "fields(SolverOptions)" in norm(n.iter):
            for x in ast.walk(n):
                if isinstance(x, ast.Assign) and isinstance(x.targets[0], ast.Subscript) and isinstance(x.value, ast.Constant) \
                        and x.value.value is None and "kwargs" in norm(x.targets[0].value):
                    restores_none = True
                if isinstance(x, ast.Call) and isinstance(x.func, ast.Attribute) and x.func.attr == "setdefault" and len(x.args) == 2 \
                        and isinstance(x.args[1], ast.Constant) and x.args[1].value is None:
                    restores_none = True
    bad = []
    for s in opt.node.body:
        if isinstance(s, ast.AnnAssign) and isinstance(s.target, ast.Name):
            ann = norm(s.annotation)
            admits_none = "None" in ann or "Optional" in ann
            if admits_none and not (isinstance(s.value, ast.Constant) and s.value.value is None):
                bad.append(f"{s.target.id}: {ann} = {norm(s.value) if s.value else '<required>'}")
    # the reader recognises Optional fields by introspecting `field.type`: that only works when the annotations are real type
    # objects at run time (no `from __future__ import annotations`, no string annotations)
    introspects = any(isinstance(x, ast.Attribute) and x.attr == "type" and norm(x.value) == "field" for x in ast.walk(sr.node)) or \
        "__args__" in norm(sr.node)
    om = repo.module("tdgl.solver.options")
    postponed = any(isinstance(st, ast.ImportFrom) and st.module == "__future__" and any(a.name == "annotations" for a in st.names)
                    for st in om.tree.body)
    stringy = [s_.target.id for s_ in opt.node.body if isinstance(s_, ast.AnnAssign) and isinstance(s_.annotation, ast.Constant)
               and isinstance(s_.annotation.value, str)]
    lazy = postponed or bool(stringy)
    if bad and restores_none and introspects:
        ctx.ob("R14.2", "the reader's Optional detection sees real type objects (annotations of SolverOptions are not postponed)", not lazy,
               detail={"from __future__ import annotations": postponed, "string annotations": stringy, "optional_fields": bad},
               where=sr.fq, construct="field.type introspection vs postponed annotations", loc=loc(sr, sr.node),
               message="SolverOptions' annotations are strings at run time (postponed evaluation), so `getattr(field.type, '__args__', ())` is always empty: "
                       "no field is recognised as Optional and an unsaved None is restored as the default",
               consequence="options saved with terminal_psi=None reload with terminal_psi=0.0: loaded.options != solution.options, and a run continued "
                           "with the loaded options pins the terminals")
    ok = (not drops) or restores_none or not bad
    ctx.ob("R14.2", "every Optional option defaults to None (writer drops None, reader fills defaults)", ok,
           detail={"writer_drops_None": drops, "reader_restores_None": restores_none, "optional_fields_with_non_None_default": bad},
           where=sr.fq, construct="options None round trip", loc=loc(sr, sr.node),
           message=f"None-valued options are not written and reload as the dataclass default: {bad}",
           consequence="a solution computed with terminal_psi=None reloads with terminal_psi=0.0: options compare unequal "
                       "and a resumed run pins the terminals",
           witness={"input": "SolverOptions(solve_time=1, terminal_psi=None) -> solve -> Solution.from_hdf5(path).options.terminal_psi == 0.0"})


def mesh_restorable(ctx):
    repo = ctx.repo
    w = repo.func("tdgl.finite_volume.mesh", "Mesh.to_hdf5")
    ir = repo.func("tdgl.finite_volume.mesh", "Mesh.is_restorable")
    r = repo.func("tdgl.finite_volume.mesh", "Mesh.from_hdf5")
    written = {u.key for u in key_uses(w) if u.kind == "data"}
    tested = {u.key for u in key_uses(ir) if u.kind == "data?"}
    ctx.ob("R14.3", "is_restorable tests exactly the keys written by to_hdf5(compress=False)", written == tested,
           detail={"written": sorted(written), "tested": sorted(tested)}, where=ir.fq, construct="is_restorable key set",
           loc=loc(ir, ir.node), message=f"is_restorable tests {sorted(tested)}, writer creates {sorted(written)}",
           consequence="a fully stored mesh is needlessly recomputed, or a partial one is 'restored' with a KeyError")
    used = {u.key for u in key_uses(r) if u.kind == "data"}
    ctx.ob("R14.3", "the restoring branch reads every tested key", tested <= used, detail=sorted(tested - used),
           where=r.fq, construct="Mesh.from_hdf5 restore", loc=loc(r, r.node),
           message=f"restoring ignores {sorted(tested - used)}", consequence="restored mesh misses stored arrays")


def getstate_slots(ctx):
    repo = ctx.repo
    n = 0
    for m in repo.modules.values():
        for c in m.classes.values():
            gs = c.methods.get("__getstate__")
            if gs is None:
                continue
            slots = class_slots(repo, c)
            if not slots:
                continue
            n += 1
            assigned = init_assigned(repo, c) & slots
            src = norm(gs.node)
            covered = {s for s in slots if f"'{s}'" in src or f'"{s}"' in src or f"self.{s}" in src}
            ss = c.methods.get("__setstate__")
            if ss is not None:
                # a slot that __setstate__ re-initialises itself (a cache) need not travel in the state
                covered |= {n.attr for n in ast.walk(ss.node) if isinstance(n, ast.Attribute) and isinstance(n.ctx, ast.Store)
                            and isinstance(n.value, ast.Name) and n.value.id == "self"}
            uses_slots_generically = "__slots__" in src
            missing = sorted(assigned - covered) if not uses_slots_generically else []
            ctx.ob("R14.4", f"{c.name}.__getstate__ covers the slots {sorted(assigned)}", not missing,
                   detail={"slots_in_mro": sorted(slots), "assigned_in_init": sorted(assigned), "missing_from_state": missing},
                   where=gs.fq, construct=f"{c.name}.__getstate__", loc=loc(gs, gs.node),
                   message=f"{c.name}.__getstate__ copies only __dict__; the slots {missing} assigned by __init__ are not pickled",
                   consequence="pickle.loads(pickle.dumps(T*P)).time_dependent raises AttributeError: a pickled "
                               "composite cannot be evaluated or handed to the solver",
                   witness={"input": "pickle.loads(pickle.dumps(LinearRamp(tmin=0,tmax=1) * ConstantField(1))).time_dependent"})
    if n == 0:
        raise AnalysisError("no slotted class with a custom __getstate__ found (CompositeParameter expected)")


def callables(ctx):
    repo = ctx.repo
    sw = repo.func("tdgl.solution.solution", "Solution._save_to_hdf5_file")
    sr = repo.func("tdgl.solution.solution", "Solution.from_hdf5")
    # the two helpers are looked up in the source as written (nested in their callers today; module-level functions after an
    # "extract function"), by the stem of their names
    raw = ast.parse(repo.module("tdgl.solution.solution").source)
    fdefs = [n for n in ast.walk(raw) if isinstance(n, ast.FunctionDef)]
    sers = [n for n in fdefs if n.name.lstrip("_") == "serialize_func"]
    dess = [n for n in fdefs if n.name.lstrip("_") == "deserialize_func"]
    if len(sers) != 1 or len(dess) != 1:
        raise AnalysisError("serialize_func / deserialize_func helpers not found")

    class _H:
        def __init__(self, node):
            self.node, self.fq, self.module = node, f"tdgl.solution.solution:{node.name}", repo.module("tdgl.solution.solution")
    ser, des = _H(sers[0]), _H(dess[0])
    # the canonical reading (tables of names unrolled) is used whenever the helpers are still functions of their own there
    funcs = repo.module("tdgl.solution.solution").functions
    c_ser = funcs.get("Solution._save_to_hdf5_file.serialize_func") or funcs.get(sers[0].name)
    c_des = funcs.get("Solution.from_hdf5.deserialize_func") or funcs.get(dess[0].name)
    if c_ser is not None and c_des is not None:
        fdefs = [sw.node, sr.node, c_ser.node, c_des.node]
        sers, dess = [c_ser.node], [c_des.node]
        ser, des = c_ser, c_des
    callers_w = [n for n in fdefs if n.name == "_save_to_hdf5_file" or any(isinstance(c, ast.Call) and getattr(c.func, "id", "") == sers[0].name for c in ast.walk(n) if n is not sers[0])]
    callers_r = [n for n in fdefs if n.name == "from_hdf5" or any(isinstance(c, ast.Call) and getattr(c.func, "id", "") == dess[0].name for c in ast.walk(n) if n is not dess[0])]

    def names(_fi, helper):
        hname = sers[0].name if helper == "serialize_func" else dess[0].name
        pos = 1 if helper == "serialize_func" else 0
        out = set()
        for fn_ in (callers_w if helper == "serialize_func" else callers_r):
            for c in ast.walk(fn_):
                if isinstance(c, ast.Call) and getattr(c.func, "id", "") == hname and len(c.args) > pos and isinstance(c.args[pos], ast.Constant):
                    out.add(c.args[pos].value)
        return sorted(out)
    wn, rn = names(sw, "serialize_func"), names(sr, "deserialize_func")
    ctx.ob("R14.5", "same three callables are written and read", wn == rn and len(wn) == 3, detail={"written": wn, "read": rn},
           where=sr.fq, construct="callable names", loc=loc(sr, sr.node), message=f"written {wn}, read {rn}",
           consequence="a drive (vector potential / currents / epsilon) is lost or mis-assigned on reload")
    sfx_r = {n.values[1].value for n in ast.walk(des.node) if isinstance(n, ast.JoinedStr) and len(n.values) == 2
             and isinstance(n.values[1], ast.Constant)}
    sfx_w = {n.values[1].value for n in ast.walk(ser.node) if isinstance(n, ast.JoinedStr) and len(n.values) == 2
             and isinstance(n.values[1], ast.Constant)}
    ctx.ob("R14.5", "pickled-blob suffix agrees", sfx_w == sfx_r and len(sfx_w) == 1, detail={"w": sorted(sfx_w), "r": sorted(sfx_r)},
           where=des.fq, construct="blob suffix", message=f"suffixes {sfx_w} vs {sfx_r}", consequence="pickled callables are never found on load")
    # the helper subscripts a free group variable: harmless only while every call passes that same variable
    params = {a.arg for a in des.node.args.args}
    free = sorted({n.id for n in ast.walk(des.node) if isinstance(n, ast.Name) and isinstance(n.ctx, ast.Load)
                   and n.id not in params and any(isinstance(p, ast.Subscript) and p.value is n for p in ast.walk(des.node))})
    call_args = {norm(c.args[1]) for fn_ in callers_r for c in ast.walk(fn_) if isinstance(c, ast.Call)
                 and getattr(c.func, "id", "") == dess[0].name and len(c.args) > 1}
    ok = not free or call_args == set(free)
    ctx.ob("R14.5", "deserialize_func reads from the group it is called with", ok,
           detail={"free_group_variables": free, "call_arguments": sorted(call_args)}, where=des.fq,
           construct="deserialize_func group", loc=loc(des, des.node),
           message=f"deserialize_func reads {free} but is called with {sorted(call_args)}",
           consequence="the pickled callable is looked up in a different group than the attribute")


def tdgl_data(ctx):
    """R14.6 by a symbolic round trip (pvs/h5model.py): TDGLData.to_hdf5 is followed into the group `data` of a model file and
    TDGLData.from_hdf5 is followed on that file for the same step."""
    from ..h5model import Group, follow_writer, follow_reader, sources
    from ..smallstep import Opaque as SO, render
    repo = ctx.repo
    w = repo.func("tdgl.solution.data", "TDGLData.to_hdf5")
    r = repo.func("tdgl.solution.data", "TDGLData.from_hdf5")
    C = repo.cls("tdgl.solution.data", "TDGLData")
    fields = [s_.target.id for s_ in C.node.body if isinstance(s_, ast.AnnAssign) and isinstance(s_.target, ast.Name)]
    if not {"step", "state"} <= set(fields) or len(fields) < 6:
        raise AnalysisError(f"TDGLData no longer has the fields step, state and the per-step arrays ({fields})")
    root = Group("file")
    data = Group("file/'data'")
    root.items["data"] = data
    kind, val, root, _, _ = follow_writer(w, set(), {}, root=root, into=data)
    if kind != "return":
        raise AnalysisError(f"TDGLData.to_hdf5 raises {val} in the model")
    rparams = [a_.arg for a_ in r.node.args.args]
    if "step" not in rparams:
        raise AnalysisError("TDGLData.from_hdf5 no longer takes `step`")
    k2, v2, _, _ = follow_reader(r, root, given={"step": SO("self.step")})
    step_groups = [g for g in data.items.values() if isinstance(g, Group)]
    stored = {}
    for g in step_groups:
        for k_, v_ in g.items.items():
            stored[k_] = ("data", sources(v_))
        for k_, v_ in g.attrs.items.items():
            stored[render(k_)] = ("attr", sources(v_))
    bad = []
    if k2 != "return":
        bad.append(f"reading the written step raises {v2}")
    elif not (isinstance(v2, SO) and v2.parts and v2.parts[0] == "call" and v2.parts[1] in ("TDGLData", "cls")):
        raise AnalysisError(f"TDGLData.from_hdf5 does not return TDGLData(...) in the model ({render(v2)[:80]})")
    else:
        passed = dict(zip(fields, v2.parts[2]))
        passed.update(v2.parts[3])
        for f_ in fields:
            if f_ not in passed:
                bad.append(f"{f_} is not passed to the constructor")
                continue
            src = sources(passed[f_])
            if f_ == "state":
                ok = any(kind_ == "attr" and src_ == {"state"} for kind_, src_ in stored.values()) and "load_state_data" in render(passed[f_])
            elif f_ == "step":
                ok = src == {"step"} and len(step_groups) == 1 and sources(next(iter(data.items))) == {"step"}
            else:
                ok = src == {f_} and stored.get(f_) == ("data", {f_})
            if not ok:
                bad.append(f"{f_} is restored from {sorted(src) or render(passed[f_])[:60]} (stored: {stored.get(f_)})")
    ctx.ob("R14.6", "writer and reader special-case {step, state}: step names the group, state goes to attrs, every other field is a dataset "
                    "of its own name", not bad, detail={"constructor": render(v2)[:500], "problems": bad},
           where=w.fq, construct="TDGLData special fields", loc=loc(w, w.node), message=f"TDGLData round trip: {bad[:3]}",
           consequence="a per-step field is written as a dataset but read from attrs (or vice versa)")
    ctx.ob("R14.6", "both sides enumerate the dataclass fields", k2 == "return" and not any("not passed" in x for x in bad), where=r.fq,
           construct="TDGLData field enumeration", detail=fields,
           message="writer/reader no longer cover all dataclass fields", consequence="a new field is saved but not loaded")


def dynamics_detection(ctx):
    """Format detection of DynamicsData.from_hdf5 must key on something the writer always creates."""
    repo = ctx.repo
    w = repo.func("tdgl.solution.data", "DynamicsData.to_hdf5")
    r = repo.func("tdgl.solution.data", "DynamicsData.from_hdf5")
    wk = key_uses(w)
    always = {u.key for u in wk if u.kind == "data" and not u.cond}
    tests = [u for u in key_uses(r) if u.kind == "data?" and not u.cond]
    # the first-level test that selects the `to_hdf5` layout
    sel = [u for u in tests if isinstance(pm_parent_if(r.node, u.node), ast.If)]
    for u in sel[:1]:
        ctx.ob("R14.1", f"DynamicsData.from_hdf5 recognises its own writer's layout by {u.key!r}", u.key in always,
               detail={"always_written": sorted(always), "detected_by": u.key}, where=r.fq,
               construct=f"'{u.key}' in h5file", loc=loc(r, u.node),
               message=f"the reader recognises DynamicsData.to_hdf5 output by the key {u.key!r}, which the writer creates only "
                       f"when probe points exist",
               consequence="DynamicsData(dt=...) without probes written by to_hdf5 cannot be read back (KeyError: 'data')",
               witness={"input": "d=DynamicsData(dt=np.ones(3)); d.to_hdf5(g); DynamicsData.from_hdf5(g)"})


def pm_parent_if(fn, node):
    pm = parent_map(fn)
    cur = node
    while id(cur) in pm:
        par, fld = pm[id(cur)]
        if isinstance(par, ast.If) and fld == "test":
            return par
        if isinstance(par, ast.stmt):
            return None
        cur = par
    return None


def _reads_h5(e: ast.AST) -> bool:
    for n in ast.walk(e):
        if isinstance(n, ast.Subscript) and isinstance(n.value, (ast.Name, ast.Attribute)) and (
                norm(n.value).endswith("attrs") or any(t in norm(n.value) for t in ("group", "h5", "grp"))):
            return True
        if isinstance(n, ast.Call) and isinstance(n.func, ast.Attribute) and n.func.attr == "get" and norm(n.func.value).endswith("attrs"):
            return True
    return False


def stored_value_defaulting(ctx):
    repo = ctx.repo
    readers = [f for f in repo.all_functions() if f.qual.split(".")[-1] in ("from_hdf5", "get", "deserialize_func", "load_state_data")
               and ("from_hdf5" in f.qual)]
    n = 0
    for f in readers:
        bad = []
        for node in ast.walk(f.node):
            if isinstance(node, ast.BoolOp) and isinstance(node.op, ast.Or) and _reads_h5(node.values[0]):
                bad.append(f"L{node.lineno}: {norm(node)[:90]}")
            if isinstance(node, ast.IfExp) and _reads_h5(node.test) and not isinstance(node.test, ast.Compare):
                bad.append(f"L{node.lineno}: {norm(node)[:90]}")
        n += 1
        ctx.ob("R14.7", f"{f.qual}: no `stored or default`", not bad, detail=bad, where=f.fq, construct=f"truthiness defaulting in {f.qual}",
               loc=loc(f, f.node), message=f"{f.qual} replaces falsy stored values by a default: {bad}",
               consequence="an object saved with a legitimate falsy field (gamma=0, z0=0, mesh=False, ...) reloads with the default instead",
               witness={"input": "Layer(..., gamma=0) saved and reloaded"})
    if n < 6:
        raise AnalysisError(f"only {n} from_hdf5 readers found")


def equality_truncation(ctx):
    repo = ctx.repo
    n = 0
    for f in repo.all_functions():
        last = f.qual.split(".")
        if not any(x in ("__eq__", "equals", "dataclass_equals", "compare") for x in last):
            continue
        n += 1
        bad = []
        src = norm(f.node)
        for node in ast.walk(f.node):
            if isinstance(node, ast.Call) and norm(node.func) == "zip" and len(node.args) >= 2:
                a, b = norm(node.args[0]), norm(node.args[1])
                # accepted: both operands are dataclasses.astuple(...) of objects whose classes were compared, or a len() comparison exists
                len_checked = "len(" in src and ("!=" in src or "==" in src) and any(
                    isinstance(c, ast.Compare) and all(isinstance(x, ast.Call) and norm(x.func) == "len" for x in [c.left] + c.comparators)
                    for c in ast.walk(f.node))
                same_class_tuples = "__class__ is not" in src and "astuple" in src
                if not (len_checked or same_class_tuples):
                    bad.append(f"L{node.lineno}: {norm(node)[:80]}")
        ctx.ob("R14.8", f"{f.qual}: sequence comparison does not truncate", not bad, detail=bad, nontrivial=bool("zip(" in src),
               where=f.fq, construct=f"zip in {f.qual}", loc=loc(f, f.node),
               message=f"{f.qual} compares two sequences element-wise with zip and never compares their lengths: {bad}",
               consequence="devices with different numbers of holes/terminals compare equal: a seed solution from another device is "
                           "accepted, and a reloaded device 'equals' one with an extra hole")
    if n < 5:
        raise AnalysisError(f"only {n} equality functions found")


# ---------------------------------------------------------------------------
# R14.9 an exported file carries this solution's data
# ---------------------------------------------------------------------------

def export_carries_data(ctx):
    """`_save_to_hdf5_file(path)` writes the `solution` group only (unless save_tdgl_data=True): the frames and the dynamics
    come from the output file, so a foreign target must have been overwritten by a copy of self.path on every path."""
    from ..cfg import build_cfg
    repo = ctx.repo
    f = repo.func("tdgl.solution.solution", "Solution.to_hdf5")
    fn = f.node
    cfg = build_cfg(fn)
    pm = parent_map(fn)
    saves = [n for n in own_nodes(fn) if isinstance(n, ast.Call) and isinstance(n.func, ast.Attribute) and n.func.attr == "_save_to_hdf5_file"]
    if len(saves) < 2:
        raise AnalysisError("Solution.to_hdf5 no longer calls _save_to_hdf5_file at least twice")
    from ..dataflow import stmt_of
    for c in saves:
        tgt = norm(c.args[0]) if c.args else "?"
        explicit = any(k.arg == "save_tdgl_data" and isinstance(k.value, ast.Constant) and k.value.value is True for k in c.keywords)
        st = stmt_of(c, pm)
        if explicit or tgt == "self.path":
            ctx.ob("R14.9", f"L{c.lineno}: {norm(c)[:80]} ({'data written explicitly' if explicit else 'in place'})", True,
                   where=f.fq, construct=f"save into {tgt}")
            continue
        # nodes that make the target hold this solution's data: copy(self.path, tgt) or tgt = self.path
        good = set()
        for n in cfg.nodes:
            if n.kind != "stmt" or n.ast is None:
                continue
            for x in ast.walk(n.ast):
                if isinstance(x, ast.Call) and norm(x.func) in ("shutil.copy", "shutil.copyfile", "shutil.copy2", "copy", "copyfile") \
                        and len(x.args) >= 2 and norm(x.args[0]) == "self.path" and norm(x.args[1]) == tgt:
                    good.add(n.id)
            if isinstance(n.ast, ast.Assign) and norm(n.ast.value) == "self.path" and any(norm(t) == tgt for t in n.ast.targets):
                good.add(n.id)
        wit = cfg.path(cfg.entry, cfg.node_of(st).id, skip=good, skip_edges=("exc",))
        ctx.ob("R14.9", f"L{c.lineno}: {norm(c)[:80]} is preceded by a copy of the output file on every path", wit is None and bool(good),
               detail={"copies": len(good), "path_without_copy": cfg.describe_path(wit)[-8:] if wit else None}, where=f.fq,
               construct=f"export into {tgt} without the raw data", loc=loc(f, c),
               message=f"`{norm(c)[:80]}` can be reached without `shutil.copy(self.path, {tgt})`: only the `solution` group is written into a "
                       f"file that may already hold the frames of another run",
               consequence="exporting a second solution onto a path that holds an earlier export keeps the first run's frames and dynamics: "
                           "the loaded solution differs from the one saved, silently",
               witness={"path": cfg.describe_path(wit)[-8:] if wit else None})


# ---------------------------------------------------------------------------
# R14.11 no lossy conversion on the way back
# ---------------------------------------------------------------------------
CASTS_OK = {
    ("tdgl.solution.data:TDGLData.from_hdf5.get", "int(step)"): "the step index is part of the group name (written as str(step))",
}


def reader_casts(ctx):
    repo = ctx.repo
    n = 0
    for f in repo.all_functions():
        if f.module.name.startswith("tdgl.test") or not any(k in f.qual for k in ("from_hdf5", "load_state_data", "deserialize")):
            continue
        n += 1
        pmf = parent_map(f.node)
        for c in own_nodes(f.node):
            if not isinstance(c, ast.Call):
                continue
            fn_ = c.func
            # narrowing conversions only: bool(flag), str(name) and complex(x) keep every legal value of a field
            builtin = isinstance(fn_, ast.Name) and fn_.id in ("float", "int", "round")
            computed = isinstance(fn_, ast.Subscript) or (isinstance(fn_, ast.Attribute) and fn_.attr in ("type", "__class__"))
            if not (builtin or computed) or not c.args:
                continue
            # only conversions of a value on its way into the object: not comparisons, indices or loop bounds
            par = pmf[id(c)][0] if id(c) in pmf else None
            if isinstance(par, (ast.Compare, ast.Subscript, ast.Slice)) or (
                    isinstance(par, ast.Call) and norm(par.func) in ("range", "min", "max", "len")):
                continue
            key = (f.fq, norm(c))
            ok = key in CASTS_OK or any(f.fq.startswith(k_[0].rsplit(".", 1)[0]) and k_[1] == norm(c) for k_ in CASTS_OK)
            ctx.ob("R14.11", f"{f.qual}: `{norm(c)[:60]}` ({CASTS_OK.get(key, 'NOT in the confirmed table')[:50]})", ok, where=f.fq,
                   construct=f"cast `{norm(c)[:50]}` in reader {f.qual}", loc=loc(f, c),
                   message=f"{f.qual} converts a stored value with `{norm(c)[:70]}` before handing it to the constructor",
                   consequence="values that are legal for the field but not for the cast come back different: a complex terminal_psi loses its "
                               "imaginary part through float(), so loaded.options != solution.options")
    if n < 8:
        raise AnalysisError(f"only {n} reader functions found")
    ctx.ob("R14.11", f"{n} reader functions scanned for narrowing casts", True, detail={"readers": n}, where="package", construct="reader casts (package)")


# ---------------------------------------------------------------------------
# R14.12 a key carries one attribute in both directions
# ---------------------------------------------------------------------------

def _const_keys(e):
    return [x.slice.value for x in ast.walk(e) if isinstance(x, ast.Subscript) and isinstance(x.slice, ast.Constant) and isinstance(x.slice.value, str)]


def key_attribute_agreement(ctx):
    """R14.12 on the round trips of R14.1: the attribute a constructor argument was written from (followed through writer and
    reader) is the attribute the constructor initialises from that argument."""
    from ..h5model import sources
    repo = ctx.repo
    n = 0
    for mod, cls, wname, rname in PAIRS:
        C = repo.cls(mod, cls)
        rt = ctx._rt[cls]
        w, r = rt["writer"], rt["reader"]
        # constructor: parameter -> attribute
        init = C.methods.get("__init__")
        cmap = {}
        if init is not None:
            params = {a.arg for a in init.node.args.args + init.node.args.kwonlyargs} - {"self"}
            for st in own_nodes(init.node):
                if isinstance(st, (ast.Assign, ast.AnnAssign)) and st.value is not None:
                    tg = st.targets[0] if isinstance(st, ast.Assign) else st.target
                    if isinstance(tg, ast.Attribute) and isinstance(tg.value, ast.Name) and tg.value.id == "self":
                        import re as _re
                        used = {_re.sub(r"__h\d+$", "", x.id) for x in ast.walk(st.value) if isinstance(x, ast.Name)} & params
                        if len(used) == 1:
                            cmap.setdefault(used.pop(), tg.attr)
        else:
            for st in C.node.body:          # dataclass: field == parameter == attribute
                if isinstance(st, ast.AnnAssign) and isinstance(st.target, ast.Name):
                    cmap[st.target.id] = st.target.id
        for p_, v in sorted(rt["passed"].items()):
            src = sources(v)
            if len(src) != 1 or p_ not in cmap:
                continue
            attr = next(iter(src))
            n += 1
            back = cmap[p_]
            # a property setter may store under a private name (points -> _points)
            ok = back == attr or back.lstrip("_") == attr.lstrip("_")
            ctx.ob("R14.12", f"{cls}: self.{attr} is written, read into `{p_}` -> self.{back}", ok, where=w.fq,
                   construct=f"{cls}: written from {attr}, restored into {back}", loc=loc(w, w.node),
                   message=f"{cls}.{wname} stores `self.{attr}`, but {cls}.{rname} feeds it into `{p_}`, which initialises `self.{back}`",
                   consequence=f"a reloaded {cls} carries another quantity in `{back}` than the one that was saved (e.g. unit vectors instead of edge vectors): "
                               "it is no longer the object that was written, and operators built on it are wrong")
    if n < 12:
        raise AnalysisError(f"writer/reader/constructor agreement found only {n} constructor arguments")


# ---------------------------------------------------------------------------
# R14.13 whether a field is written depends on that field only
# ---------------------------------------------------------------------------

def write_guards(ctx):
    """R14.13 on the round trips of R14.1: unsetting one optional attribute removes from the file only what was computed from it."""
    n = 0
    for mod, cls, wname, rname in PAIRS:
        rt = ctx._rt[cls]
        w = rt["writer"]
        full = rt["keysets"].get("", {})
        n += len(full)
        for a_ in rt["tested"]:
            ks = rt["keysets"].get(a_)
            if ks is None:
                continue
            foreign = sorted(f"{k_} (from {sorted(src)})" for k_, src in full.items() if k_ not in ks and src and a_ not in src)
            ctx.ob("R14.13", f"{cls}: with self.{a_} unset (or empty) only what is computed from it is left out of the file", not foreign, detail=foreign, where=w.fq,
                   construct=f"{cls}: keys written only when {a_} is set", loc=loc(w, w.node),
                   message=f"{cls}.{wname} leaves out {foreign} when `{a_}` is unset or empty: whether those fields are saved depends on another field",
                   consequence=f"a {cls} that has the other attribute set but not `{a_}` loses it on save: the reloaded object differs from the saved one")
    if n < 12:
        raise AnalysisError(f"only {n} stored keys examined")


def roundtrips(ctx):
    """R14.1 by symbolic round trips (pvs/h5model.py): the writer is followed into a model of an HDF5 group - once with every
    optional attribute set, once per optional attribute unset, once with all of them unset, and for both values of every boolean
    writer option - and the reader is followed on exactly that group."""
    import itertools
    from ..h5model import follow_writer, follow_reader, sources, unread, all_keys, missed_keys
    from ..smallstep import Opaque as SO, render
    repo = ctx.repo
    for mod, cls, wname, rname in PAIRS:
        w = repo.func(mod, f"{cls}.{wname}")
        r = repo.func(mod, f"{cls}.{rname}")
        a = w.node.args
        bool_flags = [p.arg for p, d in zip(a.args[len(a.args) - len(a.defaults):], a.defaults) if isinstance(d, ast.Constant) and isinstance(d.value, bool)]
        _, _, _, tested, log0 = follow_writer(w, set(), {})
        emptiable = sorted(log0.get("emptiable", ()))
        unsets = [set()] + [{t} for t in sorted(tested)] + ([set(tested)] if len(tested) > 1 else [])
        ever_read: Dict[str, bool] = {}
        probed: Set[str] = set()
        raised_set, raised_unset, scen = [], [], []
        ctor = None
        keysets: Dict[str, Dict[str, set]] = {}       # scenario tag -> {key: attributes its value comes from}
        for unset in unsets:
            for vals in itertools.product((None, True, False), repeat=len(bool_flags)) if bool_flags else [()]:
                flags = {p_: v for p_, v in zip(bool_flags, vals) if v is not None}
                if any(v is None for v in vals) and any(v is not None for v in vals):
                    continue
                tag = f"unset={sorted(unset)}" + (f" {flags}" if flags else "")
                kind, val, root, _, _ = follow_writer(w, unset, flags)
                if kind != "return":
                    raise AnalysisError(f"{w.fq} raises {val} in the model ({tag})")
                k2, v2, mach, _ = follow_reader(r, root)
                scen.append(tag)
                if not flags:
                    ks = {}
                    for g_ in root.all_groups():
                        for k_, v_ in list(g_.items.items()) + list(g_.attrs.items.items()):
                            if not hasattr(v_, "all_groups"):
                                ks[f"{g_.path}[{render(k_)}]"] = sources(v_)
                    keysets[",".join(sorted(unset))] = ks
                if k2 != "return":
                    (raised_unset if unset else raised_set).append(f"{tag}: {v2}")
                    continue
                u = set(unread(root))
                probed |= set(missed_keys(root))
                for k_ in all_keys(root):
                    ever_read[k_] = ever_read.get(k_, False) or k_ not in u
                for k_ in u:
                    ever_read.setdefault(k_, False)
                if not unset and not flags:
                    ctor = v2
        # collections that the writer tests for emptiness: one scenario each with that collection empty
        for e_ in emptiable:
            kind, val, root, _, _ = follow_writer(w, set(), {}, empty={e_})
            if kind != "return":
                raise AnalysisError(f"{w.fq} raises {val} in the model (empty {e_})")
            k2, v2, mach, _ = follow_reader(r, root)
            scen.append(f"empty={e_}")
            ks = {}
            for g_ in root.all_groups():
                for k_, v_ in list(g_.items.items()) + list(g_.attrs.items.items()):
                    if not hasattr(v_, "all_groups"):
                        ks[f"{g_.path}[{render(k_)}]"] = sources(v_)
            keysets[e_] = ks
            tested = set(tested) | {e_}
            if k2 != "return":
                raised_unset.append(f"empty={e_}: {v2}")
        ctx.note(f"roundtrip_scenarios_{cls}", scen)
        nr = sorted(k_ for k_, v_ in ever_read.items() if not v_)
        # keys the reader looks for although no scenario of the writer creates them
        nw = sorted(k_ for k_ in probed if k_ not in ever_read and not (cls == "DynamicsData" and k_ == "file['data']"))
        ctx.ob("R14.1", f"{cls}: keys written == keys read", not raised_set and not nr and not nw,
               detail={"scenarios": len(scen), "reader_raises": raised_set, "never_read": nr, "looked_for_but_never_written": nw},
               where=w.fq, construct=f"{cls} key set", loc=loc(w, w.node),
               message=f"{cls}: written but never read {nr}; read but never written {nw}; reading what was written raises {raised_set}",
               consequence=f"a {cls} read back differs from the one saved (field dropped or KeyError on load)")
        ctx.ob("R14.1", f"{cls}: optional keys are optional on both sides", not raised_unset, detail=raised_unset, where=r.fq,
               construct=f"{cls} optional keys", loc=loc(r, r.node), message=f"{cls}: {raised_unset}",
               consequence="loading an object whose optional field is unset raises KeyError")
        # the constructor call of the all-set scenario
        params = ctor_params(repo, mod, cls)
        is_ctor = isinstance(ctor, SO) and ctor.parts is not None and ctor.parts[0] == "call" and ctor.parts[1] in (cls, "cls")
        if not is_ctor:
            raise AnalysisError(f"{cls}.{rname} does not return {cls}(...) for a fully written group in the model (returns {render(ctor)[:80]})")
        passed = dict(zip(params, ctor.parts[2]))
        passed.update(ctor.parts[3])
        crossed = []
        for p_, v in passed.items():
            src = sources(v)
            if src and p_ not in src and (src & set(params)):
                crossed.append(f"{p_} <- {sorted(src)}")
        c = repo.cls(mod, cls)
        init = repo.method(c, "__init__")
        derived = {s_.target.id for s_ in c.node.body if isinstance(s_, ast.AnnAssign) and s_.value is not None
                   and "init=False" in norm(s_.value)} if init is None else set()
        missing = [p_ for p_ in params if p_ not in passed and p_ not in derived]
        if not hasattr(ctx, "_rt"):
            ctx._rt = {}
        ctx._rt[cls] = {"passed": passed, "keysets": keysets, "tested": sorted(tested), "writer": w, "reader": r}
        ctx.ob("R14.1", f"{cls}: each constructor argument is read from the key its attribute was written under", not crossed,
               detail={"constructor": render(ctor)[:400], "crossed": crossed}, where=r.fq, construct=f"{cls} key-to-parameter map", loc=loc(r, r.node),
               message=f"{cls}.{rname} crosses fields: {crossed}", consequence="a field reloads with the value of another field")
        ctx.ob("R14.1", f"{cls}: reader passes every constructor parameter", not missing,
               detail={"params": params, "passed": sorted(passed), "missing": missing}, where=r.fq,
               construct=f"{cls}(...) in {rname}", loc=loc(r, r.node),
               message=f"{cls}.{rname} does not pass {missing}",
               consequence="the reloaded object silently takes the default for that field")


def exported_records(ctx):
    """R14.14.  Solution.to_hdf5(new_path) of a solution whose raw output file is gone (output_file=None, delete_hdf5()) writes a
    single frame `data/<step>` whose `running_state` holds the records of the whole run.  DynamicsData.from_hdf5 is followed on a
    model of that file: it must return all the records."""
    from ..shapes import MANY, Arr, exported_file, read_records
    repo = ctx.repo
    f = repo.func("tdgl.solution.data", "DynamicsData.from_hdf5")
    fw = repo.func("tdgl.solution.solution", "Solution._save_to_hdf5_file")
    # the writer side of the scenario: one frame named by the step, its running_state written by DynamicsData.to_hdf5
    wsrc = norm(fw.node)
    if "running_state" not in wsrc or "self.dynamics.to_hdf5" not in wsrc:
        raise AnalysisError("Solution._save_to_hdf5_file no longer writes the dynamics into <step>/running_state")
    n = 5
    kind, val = read_records(repo, exported_file(n, 7), 1, data_range=(7, 7))
    got = {}
    if kind == "return" and getattr(val, "parts", None) and val.parts[0] == "call":
        names = ["dt", "mu", "theta", "screening_iterations"]
        passed = dict(zip(names, val.parts[2]))
        passed.update(val.parts[3])
        got = {k: (v.shape if isinstance(v, Arr) else v) for k, v in passed.items()}
    want = {"dt": (n,), "mu": (MANY, n), "theta": (MANY, n), "screening_iterations": (n,)}
    ctx.ob("R14.14", "an exported solution (one frame carrying all per-step records) loads with all its records", kind == "return" and got == want,
           detail={"loaded": {k: str(v) for k, v in got.items()}, "outcome": kind if kind == "return" else f"raises {val}"}, where=f.fq,
           construct="records of an exported in-memory solution", loc=loc(f, f.node),
           message=f"a file with the single frame data/7 whose running_state holds {n} steps loads as {got if kind == 'return' else 'raises ' + str(val)}",
           consequence="Solution.to_hdf5(path) after delete_hdf5() (or of a run with output_file=None) followed by Solution.from_hdf5(path) silently "
                       "loses the dynamics: no time steps, no probe voltages, Solution.times has one entry")
