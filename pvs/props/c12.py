"""C12 - adaptive time-step rule and bounds."""
from __future__ import annotations

import ast
import re

from ..alg import AtomTable, Rat, sign_of
from ..cfg import build_cfg, guards_of, parent_map
from ..dataflow import assignments, self_attr_assignments
from ..interp import Frame, Interp, ModRef, Obj, Opaque, Unsupported
from ..specs import ADAPTIVE_LABELS, require_labels
from ..src import rename_id, AnalysisError, loc, norm, own_nodes

SOLVER = "tdgl.solver.solver"
RUNNER = "tdgl.solver.runner"
TECH = ("value numbering of the adaptive block of TDGLSolver.update against eq. dt-tentative; the retry protocol of "
        "adaptive_euler_step followed statement by statement over 48 scenarios (bound x adaptive x refusals) on a finite domain "
        "with the step as a monomial dt*m^k; def-use of dt from the last accepted solve to the record, result and clock")


def check(ctx):
    repo = ctx.repo
    docs = require_labels(ADAPTIVE_LABELS)
    ctx.note("specification", {k: v[:200] for k, v in docs.items()})
    ctx.rule("R12.8", "exhausting the retries raises *out of the run*: an error raised by the n-th update or the n-th save leaves Runner._run_stage and "
                      "Runner.run as that error (predicate on the traces of the loop, pvs/run_trace.py)", 1)
    ctx.rule("R12.7", "the step settings of SolverOptions are declared in the documented (positional) order", 1)
    ctx.rule("R12.6", "the library never rewrites the user's options (adaptive, dt_init, dt_max, multiplier, retries ...): the step rule runs with the settings given", 1)
    ctx.rule("R12.1", "proposed step == clip(1/2 (dt + dt_init / max(1e-10, mean(last `window` values))), 0, dt_max) under "
                      "adaptive and step > window; one history value max|abs_sq_psi - old_sq_psi| per update", 3)
    ctx.rule("R12.2", "with adaptive off the tentative step is never reassigned and dt_max == dt_init", 2)
    ctx.rule("R12.3", "retry loop: one multiplication by the configured factor between consecutive solves; exits are "
                      "{break on success, raise on (not adaptive or retries > max_solve_retries)} - followed over 48 scenarios (bound, adaptive, refusals)", 3)
    ctx.rule("R12.4", "the dt recorded, returned and added to the clock is the dt of the last accepted solve; "
                      "dt <- tentative_dt only in screening iteration 0", 4)
    ctx.rule("R12.5", "sign domain: the proposal is the clip of a mean of two positive terms; the positivity of dt_init that this rests on is "
                      "enforced by SolverOptions.validate()", 2)
    fu = repo.func(SOLVER, "TDGLSolver.update")
    fn = fu.node
    pm = parent_map(fn)
    # ---- R12.1: interpret the `if options.adaptive:` block ---------------------------------
    from ..dataflow import expanded_text
    blocks = [n for n in own_nodes(fn) if isinstance(n, ast.If) and expanded_text(fn, n.test) in ("options.adaptive", "self.options.adaptive")
              and not any(isinstance(g, (ast.For, ast.While)) for g, _ in guards_of(fn, n, pm))]
    if len(blocks) != 1:
        # the rule block is not under `if options.adaptive`: judge where the tentative step is assigned instead
        stores = [n for n in own_nodes(fn) if isinstance(n, ast.Assign) and any(norm(t) == "self.tentative_dt" for t in n.targets)]
        if not stores:
            raise AnalysisError("update() no longer assigns self.tentative_dt")
        st = stores[0]
        g = [("" if br == "true" else "not ") + norm(x.test) for x, br in guards_of(fn, st, pm) if isinstance(x, ast.If)]
        ctx.ob("R12.2", "the adaptive rule runs only under `options.adaptive`", False, detail={"guards": g}, where=fu.fq,
               construct="self.tentative_dt assignment guard", loc=loc(fu, st),
               message=f"`{norm(st)[:60]}` is executed under {g}, not under `options.adaptive`",
               consequence="with adaptive=False the time step changes from dt_init")
        return
    blk = blocks[0]
    T = AtomTable()
    ip = Interp(repo, T)
    dt, dt_init, dt_max, W = T.real("dt", "pos"), T.real("dt_init", "pos"), T.real("dt_max", "pos"), T.real("window")
    a2, old = T.real("abs_sq_psi"), T.real("old_sq_psi")
    hist = [T.real("h_prev", "nonneg")]
    from ..model import options_model
    opts = options_model(repo, T, adaptive=True, dt_init=dt_init, adaptive_window=W)
    me = Obj(None, {"d_psi_sq_vals": hist, "dt_max": dt_max, "tentative_dt": T.real("tentative_old"), "options": opts, "xp": ModRef("numpy")},
             label="solver")
    decided = []

    # undecidable tests inside the block (the warm-up guard, whichever way it is spelled: `if step > window: <rule>` or
    # `if step <= window: return`): follow the branch that holds the store to tentative_dt and record the condition that holds there
    from ..dataflow import holds_text
    ifs = {id(n.test): n for n in ast.walk(fn) if isinstance(n, ast.If)}

    def _stores(stmts):
        return any(isinstance(x, ast.Attribute) and x.attr == "tentative_dt" and isinstance(x.ctx, ast.Store) for s_ in stmts for x in ast.walk(s_))

    def policy(test, fr):
        node = ifs.get(id(test))
        br = True
        if node is not None and not _stores(node.body) and _stores(node.orelse):
            br = False
        decided.append(holds_text(fn, test, br))
        return br
    ip.branch_policy = policy
    # locals of update() by role, not by name
    env = {"self": me}
    calls = [n for n in own_nodes(fn) if isinstance(n, ast.Assign) and isinstance(n.value, ast.Call)
             and norm(n.value.func) == "self.adaptive_euler_step"]
    if len(calls) == 1 and isinstance(calls[0].targets[0], ast.Tuple) and len(calls[0].targets[0].elts) == 3 and len(calls[0].value.args) >= 3 \
            and all(isinstance(x, ast.Name) for x in calls[0].targets[0].elts[1:]) and isinstance(calls[0].value.args[2], ast.Name):
        tg = calls[0].targets[0].elts
        roles = {"new": norm(tg[1]), "dt": norm(tg[2]), "old": norm(calls[0].value.args[2]), "step": norm(calls[0].value.args[0])}
    else:
        # the psi solve is reached through helpers: the roles are read off one followed update (pvs/update_trace.py) - which locals of
        # update() hold what the last adaptive_euler_step returned and what it was handed
        from ..update_trace import scenarios as _scn, trace_update
        from ..smallstep import Opaque as _SO
        sc_ = next(x for x in _scn() if x["adaptive"] == "on" and not x["screening"] and x["dynamic_A"] == "off" and not x["dynamic_epsilon"] and not x["probes"])
        tr_ = trace_update(repo, sc_)
        evs_ = tr_.calls("adaptive_euler_step")
        if tr_.outcome[0] != "return" or not evs_ or len(evs_[-1].args) < 3:
            raise AnalysisError("update() does not reach adaptive_euler_step(step, psi, old_sq_psi, ...) in the model")
        k_ = len(evs_) - 1

        def holder(val):
            names_ = [n_ for n_, v_ in tr_.env.items() if isinstance(n_, str) and n_.isidentifier() and type(v_) is type(val) and v_ == val]
            used_ = {x.id for x in ast.walk(blk) if isinstance(x, ast.Name) and isinstance(x.ctx, ast.Load)}
            if len(names_) != 1:
                names_ = [n_ for n_ in names_ if n_ in used_]       # the one the rule block reads
            if len(names_) != 1:
                raise AnalysisError(f"the locals of update() that hold {val!r} after the psi solve: {names_}")
            return names_[0]
        roles = {"new": holder(_SO(f"sq#{k_}")), "dt": holder(_SO(f"dt#{k_}")), "old": holder(evs_[-1].args[2]), "step": holder(evs_[-1].args[0])}
    env[roles["new"]] = a2
    env[roles["dt"]] = dt
    env[roles["old"]] = old
    env[roles["step"]] = T.real("step")
    for n in own_nodes(fn):
        if isinstance(n, ast.Assign) and len(n.targets) == 1 and isinstance(n.targets[0], ast.Name):
            if norm(n.value) == "self.options":
                env[n.targets[0].id] = opts
            elif norm(n.value) == "self.xp":
                env[n.targets[0].id] = ModRef("numpy")
    fr = Frame(fu, fu.module, env)
    try:
        ip.exec_block(blk.body, fr)
    except Unsupported as e:
        raise AnalysisError(f"adaptive block of update outside the supported fragment: {e}")
    new = me.attrs["tentative_dt"]
    hv = T.app("max", [T.app("abs", [a2 - old], sign="nonneg")])
    ok = len(hist) == 2 and isinstance(hist[1], Rat) and hist[1] == hv
    ctx.ob("R12.1", "exactly one history value max|abs_sq_psi - old_sq_psi| is appended per update", ok,
           detail=[str(h) for h in hist], where=fu.fq, construct="d_psi_sq_vals.append", loc=loc(fu, blk),
           message=f"history after one update: {[str(h) for h in hist]}",
           consequence="the windowed mean delta_n is computed from the wrong quantity (or a value is recorded twice)")
    mean = T.app("mean_tail", [W, hv], sign="nonneg")
    e10 = Rat.const(T, ip.e_Constant(ast.Constant(1e-10), None))
    # max(1e-10, .) is positive because its first argument is a positive constant
    prop = (dt_init / T.app("max", [e10, mean], sign="pos") + dt) / 2
    want_clip = T.app("clip", [prop, Rat.const(T, 0), dt_max])
    want_min = T.app("min", [prop, dt_max])
    ok = isinstance(new, Rat) and (new == want_clip or new == want_min)
    ctx.ob("R12.1", "tentative_dt == clip(1/2 (dt_init/max(1e-10, mean(vals[-window:])) + dt), 0, dt_max)", ok,
           detail={"got": str(new), "want": str(want_clip)}, where=fu.fq, construct="self.tentative_dt",
           loc=loc(fu, blk), message=f"proposed step is {new}",
           consequence="the adaptive step does not follow the documented rule (eq. dt-tentative)")
    # canonical spelling (src._CanonCompare): `step > window` reads `window < step`
    # the counter compared with the window is the solve-step counter handed in by the runner (state["step"]), nothing else
    ok = any(d.replace('"', "'") in ("self.options.adaptive_window < state['step']", "options.adaptive_window < state['step']") for d in decided)
    ctx.ob("R12.1", "the rule applies only for step > window (warm-up)", ok, detail=decided, where=fu.fq,
           construct="warm-up guard", loc=loc(fu, blk), message=f"guards decided: {decided}",
           consequence="the step is adapted before the window is filled (mean over fewer values than documented)")
    # ---- R12.2 ---------------------------------------------------------------------------
    bad = []
    nstores = 0
    for f in repo.module(SOLVER).functions.values():
        if f.qual.endswith("__init__"):
            continue
        pmf = parent_map(f.node)
        for n in own_nodes(f.node):
            if isinstance(n, ast.Attribute) and n.attr == "tentative_dt" and isinstance(n.ctx, ast.Store):
                nstores += 1
                st = n
                while not isinstance(st, ast.stmt):
                    st = pmf[id(st)][0]
                g = [expanded_text(f.node, x.test) for x, br in guards_of(f.node, st, pmf) if isinstance(x, ast.If) and br == "true"]
                if not any(t.endswith("options.adaptive") for t in g):
                    bad.append(f"{f.qual} L{st.lineno}: {norm(st)}")
    ctx.ob("R12.2", "every reassignment of tentative_dt is under `options.adaptive`", not bad and nstores >= 1,
           detail={"stores": nstores, "unguarded": bad}, where=fu.fq, construct="stores to tentative_dt",
           message=f"tentative_dt is reassigned outside the adaptive branch: {bad}",
           consequence="with adaptive=False the time step changes from dt_init")
    fi = repo.func(SOLVER, "TDGLSolver.__init__")
    sa = self_attr_assignments(fi.node)
    dm = [norm(v) for _, v in sa.get("dt_max", []) if v is not None]
    td = [norm(v) for _, v in sa.get("tentative_dt", []) if v is not None]
    # the cap: one conditional expression, or one assignment in each arm of `if options.adaptive`
    from ..dataflow import conditions_at, expanded_text
    pmi = parent_map(fi.node)
    arms = sorted((expanded_text(fi.node, v), tuple(norm(c) for c in conditions_at(fi.node, s_, pmi))) for s_, v in sa.get("dt_max", []) if v is not None)
    adaptive_txt = ("options.adaptive", "self.options.adaptive")
    two_arms = len(arms) == 2 and {a[0].replace("self.", "") for a in arms} == {"options.dt_max", "options.dt_init"} and all(
        (a[0].endswith("dt_max") and a[1] and a[1][-1] in adaptive_txt) or
        (a[0].endswith("dt_init") and a[1] and a[1][-1] in tuple("not " + t for t in adaptive_txt)) for a in arms)
    ok = (dm == ["options.dt_max if options.adaptive else options.dt_init"] or two_arms) and td == ["options.dt_init"]
    ctx.ob("R12.2", "dt_max = options.dt_max if adaptive else options.dt_init; tentative_dt starts at dt_init", ok,
           detail={"dt_max": dm, "tentative_dt": td}, where=fi.fq, construct="self.dt_max / self.tentative_dt",
           message=f"dt_max = {dm}, tentative_dt = {td}", consequence="the first step or the cap differs from the documented values")
    from ..effects import options_readonly
    options_readonly(ctx, "R12.6", "the run silently uses other step settings than the ones configured (e.g. adaptive switched off when dt_init == dt_max: "
                                   "a refused update then raises at once instead of being retried with dt * multiplier)")
    field_order(ctx)
    retry_loop(ctx)
    step_reported(ctx, fu)
    # ---- R12.5 -----------------------------------------------------------------------------
    s = sign_of(prop)
    ctx.ob("R12.5", "the clipped argument is positive for dt_init > 0, dt > 0 (so clip(.,0,dt_max) is in (0, dt_max])",
           s == "pos", detail={"sign": s, "term": str(prop)}, where=fu.fq, construct="sign of the proposal",
           message=f"sign of the proposal is {s}", consequence="a zero or negative step can be proposed")
    from .c19 import follow_validate
    out = {v: follow_validate(ctx.repo, {"dt_init": v})[0] for v in (0, -1e-3, 1e-9)}
    fv = ctx.repo.func("tdgl.solver.options", "SolverOptions.validate")
    ctx.ob("R12.5", "validate() rejects dt_init <= 0 (the first step, and every fixed step, is dt_init)", out == {0: "raise", -1e-3: "raise", 1e-9: "return"},
           detail={repr(k): v for k, v in out.items()}, where=fv.fq, construct="dt_init > 0", message=f"validate() on dt_init samples: {out}",
           consequence="a zero or negative time step is used (dt_init = 0: the clock never advances and the run does not end)")
    ctx.assume("0 < multiplier < 1 and dt_init > 0 are enforced by SolverOptions.validate (R19.3 / R19.7 follow validate() on the boundary samples)")
    ctx.decline("the values of the windowed mean (history-dependent numbers)")


def retry_loop(ctx):
    """The retry protocol of adaptive_euler_step, followed statement by statement (pvs/smallstep.py) for every small scenario:
    bound M, adaptive on/off, number of refused solves f.  The loop may be spelled any way."""
    from ..smallstep import Machine, Mono, MULT, Opaque, follow_private_methods, module_constants
    repo = ctx.repo
    f = repo.func(SOLVER, "TDGLSolver.adaptive_euler_step")
    fn = f.node
    params = [a.arg for a in fn.args.args]
    if "dt" not in params:
        raise AnalysisError("adaptive_euler_step no longer takes the tentative step as parameter dt")
    if not any(isinstance(c, ast.Call) and norm(c.func).endswith("solve_for_psi_squared") for c in own_nodes(fn)):
        raise AnalysisError("adaptive_euler_step no longer calls solve_for_psi_squared")
    runs = []
    bad_args, bad_proto, bad_ret = [], [], []
    bounds = {}
    for M in (0, 1, 2, 3):
        for adaptive in (True, False):
            for fails in range(0, M + 4):
                calls = []

                def attrs(text, M=M, adaptive=adaptive):
                    if text.endswith(".adaptive"):
                        return adaptive
                    if text.endswith(".max_solve_retries"):
                        return M
                    if text.endswith(".adaptive_time_step_multiplier"):
                        return MULT
                    return NotImplemented

                def call(m, node, name, args, kwargs, fails=fails, calls=calls):
                    if name.endswith("solve_for_psi_squared"):
                        k = len(calls)
                        calls.append((list(args), dict(kwargs)))
                        if k < fails:
                            return None
                        return (Opaque(f"psi#{k}"), Opaque(f"sq#{k}"))
                    return NotImplemented
                env = {p: Opaque(p) for p in params}
                env["dt"] = Mono("dt", 0)
                env.update(module_constants(f.module.tree))
                env["self"] = Opaque("self")
                kind, val = Machine(env, attrs, follow_private_methods(repo.cls(SOLVER, "TDGLSolver"), call), fuel=32).run_function(fn)
                tag = f"M={M} adaptive={adaptive} refused={fails}"
                runs.append(tag)
                # every solve k is handed dt * multiplier**k and otherwise the same arguments
                for k, (a, kw) in enumerate(calls):
                    if a or kw.get("dt") != Mono("dt", k):
                        bad_args.append(f"{tag}: solve #{k} gets dt={kw.get('dt')!r}" + (" and positional arguments" if a else ""))
                    rest = {x: y for x, y in kw.items() if x != "dt"}
                    rest0 = {x: y for x, y in calls[0][1].items() if x != "dt"}
                    if rest != rest0:
                        bad_args.append(f"{tag}: solve #{k} differs from the first in {sorted(x for x in set(rest) | set(rest0) if rest.get(x) != rest0.get(x))}")
                if not calls:
                    bad_proto.append(f"{tag}: no solve")
                    continue
                if kind == "return":
                    k = len(calls) - 1
                    if k != fails:
                        bad_proto.append(f"{tag}: returns after {len(calls)} solves")
                    want = (Opaque(f"psi#{k}"), Opaque(f"sq#{k}"), Mono("dt", k))
                    if not (isinstance(val, tuple) and tuple(val) == want):
                        bad_ret.append(f"{tag}: returns {val!r}, the accepted solve was #{k} with step dt*m^{k}")
                else:
                    if len(calls) > fails:
                        bad_proto.append(f"{tag}: raises although solve #{fails} succeeded")
                    elif not adaptive:
                        if len(calls) != 1:
                            bad_proto.append(f"{tag}: {len(calls) - 1} retries although the step is fixed")
                    else:
                        bounds.setdefault(M, set()).add(len(calls) - 1)       # retries made before giving up
                if kind == "return" and not adaptive and fails > 0:
                    bad_proto.append(f"{tag}: a fixed step is retried")
    # the give-up bound: after R retries, R = M or M + 1 (the counter starts at 0 and is compared with >), the same rule for all M
    offs = {tuple(sorted(r - M for r in rs)) for M, rs in bounds.items()}
    if len(bounds) != 4 or len(offs) != 1 or next(iter(offs)) not in ((0,), (1,)):
        bad_proto.append(f"retries made before giving up, per bound M: { {M: sorted(r) for M, r in sorted(bounds.items())} }")
    ctx.note("retry_scenarios", len(runs))
    ctx.ob("R12.3", "solve #k is handed dt * multiplier**k (exactly one multiplication between two solves) and otherwise the same arguments",
           not bad_args, detail=bad_args[:6], where=f.fq, construct="retry multiplication", loc=loc(f, fn),
           message=f"{bad_args[:2]}",
           consequence="a refused update is retried with the same step, or the step shrinks by the factor squared per retry")
    ctx.ob("R12.3", "loop exits: return with the first accepted solve; raise iff the step is fixed or the retry bound is exhausted",
           not bad_proto, detail=bad_proto[:6], where=f.fq, construct="retry loop exits", loc=loc(f, fn),
           message=f"{bad_proto[:2]}",
           consequence="exhausting the retries continues with an unsolved step, or a solvable step raises")
    ctx.ob("R12.3", "the step returned is the step of the accepted solve, with its psi and |psi|^2", not bad_ret, detail=bad_ret[:6],
           where=f.fq, construct="return", loc=loc(f, fn), message=f"{bad_ret[:2]}",
           consequence="the caller records a different step than the one used")


def step_reported(ctx, fu):
    """R12.4 on the traces of update() (pvs/update_trace.py): the step handed to the first solve of an update is the tentative
    step, every later solve of the same update continues from the step its predecessor returned, and the step of the last solve
    is what is recorded and returned."""
    from ..update_trace import all_traces
    from ..smallstep import render
    repo = ctx.repo
    bad_in, bad_rec, bad_ret = [], [], []
    n = 0
    for t in all_traces(repo):
        sc = t.scenario
        tag = ", ".join(f"{k}={v}" for k, v in sc.items() if k != "max_iterations")
        eulers = t.calls("adaptive_euler_step")
        for k, ev in enumerate(eulers):
            n += 1
            got = render(ev.args[-1]) if ev.args else render(ev.kwargs.get("dt"))
            want = "self.tentative_dt" if k == 0 else f"dt#{k - 1}"
            if got != want:
                bad_in.append(f"[{tag}] solve #{k} starts from {got}, expected {want}")
        if t.outcome[0] != "return" or not eulers:
            continue
        last = f"dt#{len(eulers) - 1}"
        rec = [e for e in t.calls("append") if e.name.startswith("running_state") and e.args and e.args[0] == "dt"]
        if len(rec) != 1 or render(rec[0].args[1]) != last:
            bad_rec.append(f"[{tag}] records {[render(e.args[1]) for e in rec]}, the accepted solve used {last}")
        from ..update_trace import result_fields
        rf = result_fields(t.outcome[1])
        first = rf[0] if rf else None
        if render(first) != last:
            bad_ret.append(f"[{tag}] returns dt = {render(first)}, the accepted solve used {last}")
    if n < 100:
        raise AnalysisError(f"only {n} solves in the traces of update()")
    ctx.ob("R12.4", "dt is (re)assigned only from tentative_dt in screening iteration 0 and from adaptive_euler_step", not bad_in,
           detail=bad_in[:4], where=fu.fq, construct="definitions of dt in update", loc=loc(fu, fu.node),
           message=f"dt definitions: {bad_in[:1]}", consequence="a later screening iteration restarts from the tentative step, or dt is altered after the solve")
    ctx.ob("R12.4", "the recorded dt is the variable dt", not bad_rec, detail=bad_rec[:4], where=fu.fq,
           construct="running_state.append('dt', ...)", message=f"{bad_rec[:1]}",
           consequence="running_state/dt differs from the step actually taken")
    ctx.ob("R12.4", "SolverResult.dt is the variable dt", not bad_ret, detail=bad_ret[:4], where=fu.fq,
           construct="results[0]", message=f"the first result is not dt: {bad_ret[:1]}", consequence="the runner advances the clock by another step")
    fr = repo.func(RUNNER, "Runner._run_stage")
    from ..run_rules import loop_verdicts
    Vl = loop_verdicts(repo)
    ctx.ob("R12.4", "the runner adds the returned dt to the clock", not Vl["clock"], detail=Vl["clock"][:3], where=fr.fq, construct="clock advance",
           loc=loc(fr, fr.node), message=f"the runner no longer advances self.time by the dt returned by the update: {Vl['clock'][:1]}",
           consequence="frame times are not the sum of the steps used")
    from ..run_rules import run_verdicts
    errs = Vl["errors"] + run_verdicts(repo)["errors"]
    ctx.ob("R12.8", "an error raised by the update (retries exhausted) leaves the stage and run() as that error; no update runs after it", not errs,
           detail=errs[:4], where=fr.fq, construct="propagation of an error raised in the update", loc=loc(fr, fr.node),
           message=f"the error of a step that was refused for good does not stop the run: {errs[:2]}",
           consequence="exhausting the retries no longer raises: tdgl.solve returns a Solution (and a failed thermalisation is followed by the recorded stage)")


STEP_FIELDS = ("solve_time", "skip_time", "dt_init", "dt_max", "adaptive", "adaptive_window", "max_solve_retries", "adaptive_time_step_multiplier")


def field_order(ctx):
    """SolverOptions is a dataclass: its fields are its positional constructor parameters.  The class docstring documents them;
    the step settings must be declared in the order in which they are documented."""
    repo = ctx.repo
    opt = repo.cls("tdgl.solver.options", "SolverOptions")
    fields = [s_.target.id for s_ in opt.node.body if isinstance(s_, ast.AnnAssign) and isinstance(s_.target, ast.Name)]
    doc = ast.get_docstring(opt.node) or ""
    documented = []
    in_args = False
    for line in doc.splitlines():
        if line.strip() == "Args:":
            in_args = True
            continue
        m = re.match(r"^    (\w+):", line) if in_args else None
        if m:
            documented.append(m.group(1))
    a = [x for x in fields if x in STEP_FIELDS]
    b = [x for x in documented if x in STEP_FIELDS]
    if len(a) < 6 or len(b) < 6:
        raise AnalysisError(f"step fields not found in SolverOptions / its docstring ({a} / {b})")
    ctx.ob("R12.7", "declaration order of the step settings == documented order", a == b, detail={"declared": a, "documented": b},
           where=opt.fq, construct="SolverOptions field order (step settings)", loc=f"{opt.module.rel}:{opt.node.lineno}",
           message=f"SolverOptions declares the step settings as {a} but documents them as {b}",
           consequence="options built positionally in the documented order run with exchanged settings (e.g. the adaptive window and the retry "
                       "limit swapped): the retry bound and the windowed mean are not the configured ones")
