"""C11 - the trajectory depends only on the physics; observers are pure; resume covers the state."""
from __future__ import annotations

import ast
import inspect
from typing import Dict, List, Set

from ..cfg import guards_of, parent_map
from ..src import AnalysisError, loc, norm, own_nodes
from . import c05

SOLVER = "tdgl.solver.solver"
RUNNER = "tdgl.solver.runner"
TECH = ("who-may-read audit of the recording options over the whole library, write-effect audit of the observers "
        "(save path, probe readout), agreement between what Runner(...) receives in 32 followed scenarios (fresh/seed x dynamic drives "
        "x probes x screening) and update()'s signature; "
        "inherits the label/content typestate of C05")

RECORDING = {"save_every", "output_file", "progress_interval", "monitor", "monitor_update_interval", "pause_on_interrupt"}
RUN_CONTROL = {"solve_time", "skip_time"}
RUN_CONTROL_READERS = {
    "tdgl.solver.solver:validate_terminal_currents": "samples the times at which a time-dependent current function is checked: decides accept / reject only",
}
ALLOWED_READERS = {
    "tdgl.solver.runner:Runner.__init__": "sizes the record buffer (save_every)",
    "tdgl.solver.runner:Runner._run_stage": "decides when to save / report progress / pause",
    "tdgl.solver.solver:TDGLSolver.solve": "hands output_file / monitor to DataHandler and Runner",
    "tdgl.solver.solver:TDGLSolver.__init__": "monitor -> HDF5 locking environment switch",
    "tdgl.solution.solution:Solution.times": "post-processing: which steps were saved",
}


def _only_rejects(f, node) -> bool:
    """The read sits in the test of an `if` whose whole body is `raise ...` (no else), or inside a `raise` statement: the value can
    only decide whether the problem is rejected (a range check), it cannot reach the numerics."""
    pm = parent_map(f.node)
    cur = node
    while id(cur) in pm:
        par, fld = pm[id(cur)]
        if isinstance(par, ast.Raise):
            return True
        if isinstance(par, ast.If) and fld == "test":
            return bool(par.body) and all(isinstance(b, ast.Raise) for b in par.body) and not par.orelse
        if isinstance(par, ast.stmt):
            return False
        cur = par
    return False


def check(ctx):
    repo = ctx.repo
    ctx.rule("R11.10", "no stateful closures: callables stored on the solver keep no state between calls", 1)
    ctx.rule("R11.9", "no function writes module-level or class-level state", 1)
    ctx.rule("R11.6", "arrays handed from update() to the runner are fresh (no view of an attribute-held solver buffer)", 12)
    ctx.rule("R11.7", "no function writes into an array it was handed (output-parameter table excepted)", 1)
    ctx.rule("R11.8", "update() carries no hidden numerical state across calls beyond the confirmed table", 4)
    ctx.rule("R11.11", "the counter that gates the adaptive rule is the solve-step counter handed in by the runner, nothing the recording resets (shared with C12 R12.1)", 1)
    ctx.rule("R11.1", "recording options (save_every, output_file, progress_interval, monitor, ...) are read only by the runner, the "
                      "data handler, their construction site and post-processing - never by the numerics", 6)
    ctx.rule("R11.12", "the requested length of the run (solve_time, skip_time) is read by the runner's stage control and by validation only, never by the update", 2)
    ctx.rule("R11.2", "observers are pure: the save path and the probe readout write only to HDF5 objects, their own counters and the record buffer", 5)
    ctx.rule("R11.3", "probe indices are only used to index in load context", 1)
    ctx.rule("R11.4", "resume: fresh and seed initial-state tables have the same keys, seed values are the same-named fields, and "
                      "update() consumes exactly these (+ fixed / dynamic drives)", 3)
    ctx.rule("R11.5", "same label => same content for every save interval (typestate of C05 R05.1)", 1)
    opt = repo.cls("tdgl.solver.options", "SolverOptions")
    fields = [s.target.id for s in opt.node.body if isinstance(s, ast.AnnAssign)]
    missing = RECORDING - set(fields)
    if missing:
        raise AnalysisError(f"recording options {sorted(missing)} no longer exist in SolverOptions")
    ctx.note("physics_options", sorted(set(fields) - RECORDING))
    readers: Dict[str, Set[str]] = {}
    range_checks: List[str] = []
    from ..dataflow import expanded_text
    for f in repo.all_functions():
        if f.module.name.startswith("tdgl.visualization") or f.module.name in ("tdgl.visualize",):
            continue
        env = None
        for n in own_nodes(f.node):
            if isinstance(n, ast.Attribute) and isinstance(n.ctx, ast.Load) and n.attr in RECORDING:
                # is the base a SolverOptions object?  by type where known, else by what the (alias-expanded) base is called
                if env is None:
                    env = repo.local_types(f)
                t = repo.expr_type(f, n.value, env)
                last = expanded_text(f.node, n.value).split(".")[-1]
                if (t or "").endswith(":SolverOptions") or "option" in last.lower() or "option" in norm(n.value).split(".")[-1].lower():
                    if _only_rejects(f, n):
                        range_checks.append(f"{f.fq}: {n.attr}")
                        continue
                    readers.setdefault(f.fq, set()).add(n.attr)
    ctx.note("recording_options_read_only_to_reject", sorted(set(range_checks)))
    for fq, fl in sorted(readers.items()):
        # the runner and its recorder as a whole are the allowed readers: any method of Runner / DataHandler, and functions nested
        # in (or extracted into the same class as) an allowed reader
        ok = fq in ALLOWED_READERS or any(fq.startswith(a_ + ".") for a_ in ALLOWED_READERS) \
            or fq.startswith(("tdgl.solver.runner:Runner.", "tdgl.solver.runner:DataHandler."))
        f = repo.by_fq(fq)
        ctx.ob("R11.1", f"{fq} reads {sorted(fl)}", ok, detail=ALLOWED_READERS.get(fq), where=fq, construct=f"reads options.{sorted(fl)}",
               loc=loc(f, f.node), message=f"{fq} reads the recording option(s) {sorted(fl)}",
               consequence="the trajectory depends on how often it is recorded / where it is written")
    # R11.12: how long the run is must not enter the step map (a run of length T1 continued for T2 has to pass through the same states
    # as one run of length T1 + T2)
    rc_readers: Dict[str, Set[str]] = {}
    for f in repo.all_functions():
        if f.module.name.startswith(("tdgl.visualization", "tdgl.test")) or f.module.name in ("tdgl.visualize",):
            continue
        for n in own_nodes(f.node):
            if isinstance(n, ast.Attribute) and isinstance(n.ctx, ast.Load) and n.attr in RUN_CONTROL:
                last = expanded_text(f.node, n.value).split(".")[-1]
                if "option" in last.lower() or "option" in norm(n.value).split(".")[-1].lower():
                    if not _only_rejects(f, n):
                        rc_readers.setdefault(f.fq, set()).add(n.attr)
    if not any(fq.startswith("tdgl.solver.runner:Runner.") for fq in rc_readers):
        raise AnalysisError("no reader of solve_time / skip_time found in Runner (the stage control reads them today)")
    for fq, fl in sorted(rc_readers.items()):
        ok = fq.startswith("tdgl.solver.runner:Runner.") or fq in RUN_CONTROL_READERS or any(fq.startswith(a_ + ".") for a_ in RUN_CONTROL_READERS)
        f = repo.by_fq(fq)
        ctx.ob("R11.12", f"{fq} reads {sorted(fl)}", ok, detail=RUN_CONTROL_READERS.get(fq), where=fq, construct=f"reads options.{sorted(fl)}", loc=loc(f, f.node),
               message=f"{fq} reads the run-length option(s) {sorted(fl)}",
               consequence="the states a run passes through depend on how long the run was asked to be: a run of length T1 continued from its final state "
                           "does not reproduce the frames of one uninterrupted run of length T1 + T2")
    # in solve(): recording options flow only into DataHandler(...) / Runner(...) arguments
    fs = repo.func(SOLVER, "TDGLSolver.solve")
    pm = parent_map(fs.node)
    bad = []
    tainted = set()
    for n in own_nodes(fs.node):
        if isinstance(n, ast.Assign) and isinstance(n.value, ast.Attribute) and n.value.attr in RECORDING:
            for t in n.targets:
                if isinstance(t, ast.Name):
                    tainted.add(t.id)
    for n in own_nodes(fs.node):
        is_rec = (isinstance(n, ast.Attribute) and n.attr in RECORDING and isinstance(n.ctx, ast.Load)) or \
                 (isinstance(n, ast.Name) and n.id in tainted and isinstance(n.ctx, ast.Load))
        if not is_rec:
            continue
        par, fld = pm[id(n)]
        if isinstance(par, ast.keyword):
            call = pm[id(par)][0]
            if isinstance(call, ast.Call) and norm(call.func) in ("DataHandler", "Runner"):
                continue
        if isinstance(par, ast.Assign) and all(isinstance(t, ast.Name) for t in par.targets):
            continue
        bad.append(f"L{n.lineno}: {norm(par)[:70]}")
    ctx.ob("R11.1", "solve(): recording options flow only into DataHandler(...) / Runner(...) arguments", not bad, detail=bad,
           where=fs.fq, construct="recording options in solve()", message=f"recording options used elsewhere: {bad}",
           consequence="a recording option reaches the update function")
    # the update function receives only state, record buffer, dt and the field values
    fr = repo.func(RUNNER, "Runner._run_stage")
    from ..run_rules import loop_verdicts
    V = loop_verdicts(repo)
    ctx.ob("R11.1", "the update is called with (state, record buffer, dt, **values) and nothing else", not V["update_args"],
           detail=V["update_args"][:3], where=fr.fq, construct="self.function(...) arguments", loc=loc(fr, fr.node),
           message=f"the update receives extra arguments: {V['update_args'][:1]}", consequence="recording configuration leaks into the physics update")
    observers(ctx)
    step_counter(ctx)
    resume(ctx)
    # R11.5: the label/content agreement of C05 R05.1 on the traces of the loop, for every save interval
    frs = repo.func(RUNNER, "Runner._run_stage")
    bad5 = V["label_content"] + V["final_once"]
    ctx.ob("R11.5", "every frame is saved in the consistent typestate: a frame labelled step s holds the state after s updates for save_every = 1, 2, 3",
           not bad5, detail=bad5[:3], where=frs.fq, construct="typestate", loc=loc(frs, frs.node),
           message=f"the frames depend on N mod save_every: {bad5[:1]}",
           consequence="frames carrying the same step label differ between runs with different save intervals "
                       "(step-11 frame of a save_every=4 run equals the step-12 frame of a save_every=2 run)")
    from ..effects import no_global_state
    no_global_state(ctx, "R11.9", "state kept outside the solver object and outside the saved frames: a resumed run, or a run recorded "
                                  "differently earlier in the same process, does not reproduce the uninterrupted one")
    from ..effects import no_stateful_closures
    no_stateful_closures(ctx, "R11.10", "state hidden in a closure is neither saved in a frame nor reset at the start of a run: resumed and "
                                        "uninterrupted runs differ")
    from ..effects import cross_call_state, fresh_outputs, input_purity
    fresh_outputs(ctx, "R11.6", 'the field arrays kept by the Runner for the next frame alias a solver buffer that the next (possibly abandoned) update overwrites: frames depend on when they were written, and an interrupted step corrupts the previous state')
    input_purity(ctx, "R11.7", 'the solve modifies arrays owned by the caller or the recorder (seed solution fields, the state kept for the next frame): what is observed/resumed is no longer what was computed')
    cross_call_state(ctx, "R11.8", 'state that is neither saved in a frame nor listed as reset at the start of a run: a run resumed from a seed solution (or a second solve() on the same solver) does not reproduce the uninterrupted run')
    ctx.assume("HDF5 round-trips float64/complex128 exactly; resume is claimed for fixed steps and a constant drive only")
    ctx.decline("bit-equality of a resumed run as a whole (follows from R11.4 + determinism C09 + R11.5 in exact terms)")


def step_counter(ctx):
    from ..report import Shared
    from . import c12
    c12.check(Shared(ctx, {"R12.1": "R11.11"}, only=lambda inst: inst.startswith("the rule applies only"),
                     consequence="the adaptive rule is switched by a counter that the recording resets (the record-buffer cursor restarts at every save): "
                                 "the sequence of time steps, and with it every frame, depends on save_every"))


def observers(ctx):
    repo = ctx.repo
    H5_ROOTS = ("self.tmp_file", "self.output_file", "self.time_step_group", "self.mesh_group")
    bad = []
    writers = c05.frame_writer_funcs(repo)
    fsv = writers[0]
    for fw in writers:
        # names that denote HDF5 objects or host copies: parameters annotated h5py.Group, names bound to expressions rooted
        # at the handler's files/groups or to create_group(...), and names bound to _get(...)
        h5names = {a.arg for a in fw.node.args.args if a.annotation is not None and "h5py" in norm(a.annotation)}
        changed = True
        while changed:
            changed = False
            for n in own_nodes(fw.node):
                if isinstance(n, ast.Assign) and len(n.targets) == 1 and isinstance(n.targets[0], ast.Name):
                    v = n.value
                    root = v
                    while isinstance(root, (ast.Subscript, ast.Attribute, ast.Call)):
                        if norm(root) in H5_ROOTS:
                            break
                        root = root.func if isinstance(root, ast.Call) else root.value
                    is_h5 = norm(root) in H5_ROOTS or (isinstance(root, ast.Name) and root.id in h5names) or \
                        (isinstance(v, ast.Call) and norm(v.func) == "_get")
                    if is_h5 and n.targets[0].id not in h5names:
                        h5names.add(n.targets[0].id)
                        changed = True
        for n in own_nodes(fw.node):
            tg = []
            if isinstance(n, ast.Assign):
                tg = n.targets
            elif isinstance(n, ast.AugAssign):
                tg = [n.target]
            elif isinstance(n, ast.Delete):
                tg = n.targets
            for t in tg:
                if isinstance(t, ast.Name):
                    continue
                root = t
                while isinstance(root, (ast.Subscript, ast.Attribute)):
                    if norm(root) in H5_ROOTS or norm(root) == "self.save_number":
                        break
                    root = root.value
                ok_root = norm(root) in H5_ROOTS or norm(root) == "self.save_number" or (isinstance(root, ast.Name) and root.id in h5names)
                if not ok_root:
                    bad.append(f"{fw.qual} L{n.lineno}: {norm(t)}")
    ctx.ob("R11.2", f"the frame writer ({', '.join(w.qual for w in writers)}) stores only into HDF5 groups and its own counter", not bad,
           detail=bad, where=fsv.fq, construct="write effects of the frame writer", loc=loc(fsv, fsv.node),
           message=f"the frame writer mutates {bad}", consequence="saving a frame changes the simulation state")
    fg = repo.func(RUNNER, "_get")
    src = norm(fg.node)
    ok = "item.get()" in src and not any(isinstance(n, (ast.AugAssign,)) or (isinstance(n, ast.Assign) and not all(isinstance(t, ast.Name) for t in n.targets))
                                          for n in own_nodes(fg.node))
    ctx.ob("R11.2", "_get returns its argument or a host copy without mutating it", ok, where=fg.fq, construct="_get",
           message="_get mutates its argument", consequence="saving alters device arrays")
    frs = repo.func(RUNNER, "Runner._run_stage")
    from ..run_rules import loop_verdicts
    Vl = loop_verdicts(repo)
    ctx.ob("R11.2", "self.values is only ever rebound; the dict handed to the writer is built fresh", not Vl["fresh_data"] and not Vl["label_content"],
           detail=(Vl["fresh_data"] + Vl["label_content"])[:3], where=frs.fq, construct="self.values mutation",
           message=f"{(Vl['fresh_data'] + Vl['label_content'])[:1]}", consequence="the writer can alias and alter the state of the next step")
    ra = repo.func(RUNNER, "RunningState.append")
    stores = [norm(n) for n in own_nodes(ra.node) if isinstance(n, ast.Assign)]
    ok = stores == ["self.values[name][:, self.step] = value"]
    if not ok:
        # the same store spelled through locals (`buffer = self.values[name]; column = (slice(None), self.step); buffer[column] = value`):
        # exactly one element store, into a column of the own buffer, of the value handed in; nothing is rebound on self
        from ..dataflow import expand as _exp
        sub = [n for n in own_nodes(ra.node) if isinstance(n, ast.Assign) and len(n.targets) == 1 and isinstance(n.targets[0], ast.Subscript)]
        attr_st = [n for n in own_nodes(ra.node) if isinstance(n, ast.Assign) and any(isinstance(t, ast.Attribute) for t in n.targets)]
        if len(sub) == 1 and not attr_st:
            t = sub[0].targets[0]
            try:
                base = norm(_exp(ra.node, t.value)) if isinstance(t.value, ast.Name) else norm(t.value)
                sl = _exp(ra.node, t.slice) if isinstance(t.slice, ast.Name) else t.slice
            except Exception:
                base, sl = norm(t.value), t.slice
            sl_t = norm(sl).replace(" ", "")
            ok = base == "self.values[name]" and sl_t in ("(:,self.step)", ":,self.step", "(slice(None),self.step)", "slice(None),self.step") \
                and norm(sub[0].value) == "value"
    ctx.ob("R11.2", "RunningState.append copies the value into its own buffer column", ok, detail=stores, where=ra.fq,
           construct="RunningState.append", message=f"append does {stores}", consequence="the record buffer aliases solver arrays")
    fu = repo.func(SOLVER, "TDGLSolver.update")
    # on the traces of update() (pvs/update_trace.py): no array is written element by element, and the state returned with probes
    # is the state returned without them
    from ..update_trace import all_traces
    from ..smallstep import Opaque as SO, render
    traces = all_traces(repo)
    muts = sorted({repr(e) for t in traces for e in t.events if e.kind == "elemstore"})
    by = {}
    for t in traces:
        sc = t.scenario
        key = tuple(v for k, v in sorted(sc.items()) if k != "probes")
        by.setdefault(key, {})[sc["probes"]] = (t.outcome[0], render(t.outcome[1]))
    differs = [f"{k}: without probes {v.get(False)}, with probes {v.get(True)}" for k, v in by.items() if v.get(False) != v.get(True)]
    ctx.ob("R11.2", "the probe readout / bookkeeping tail of update() does not modify psi, mu or the currents", not muts and not differs and len(by) >= 20,
           detail={"element_stores": muts[:4], "result_depends_on_probes": differs[:2]}, where=fu.fq, construct="tail of update()",
           message=f"fields modified after the solve: {muts[:2]} {differs[:1]}",
           consequence="the presence of voltage probes changes the trajectory")
    # R11.3: the probe indices appear only as the index of a read
    misuse = []
    n_use = [0]

    def walk(v, where, as_index=False):
        if isinstance(v, SO):
            if v.text == "self.probe_points":
                n_use[0] += 1
                if not as_index:
                    misuse.append(where)
                return
            if v.parts:
                if v.parts[0] == "index":
                    walk(v.parts[1], where)
                    walk(v.parts[2], where, as_index=True)
                    return
                for x in v.parts[1:]:
                    walk(x, where)
        elif isinstance(v, (list, tuple)):
            for x in v:
                walk(x, where)
        elif isinstance(v, dict):
            for x in v.values():
                walk(x, where)
        elif hasattr(v, "rtype"):                  # a NamedTuple of the model
            for x in v.values.values():
                walk(x, where)
    for t in traces:
        for e in t.events:
            if e.kind == "elemstore":
                walk(e.args, repr(e)[:80])              # an element store indexed by the probe points is a write through them
            else:
                walk(e.args, repr(e)[:80])
                walk(e.kwargs, repr(e)[:80])
            walk(e.value, repr(e)[:80])
        walk(t.outcome[1], "the returned state")
    misuse = sorted(set(misuse))
    ctx.ob("R11.3", "self.probe_points is used only as a load index and in `is not None` tests", n_use[0] > 0 and not misuse,
           detail=misuse[:4], where=fu.fq, construct="uses of probe_points", message=f"{misuse[:3]}",
           consequence="probes write into the fields they observe")


def resume(ctx):
    """R11.4 over what Runner(...) receives in each of the 32 scenarios of pvs/tables.py (however solve() builds its tables)."""
    repo = ctx.repo
    fs = repo.func(SOLVER, "TDGLSolver.solve")
    fu = repo.func(SOLVER, "TDGLSolver.update")
    from ..tables import runner_arguments, SEED
    runs = runner_arguments(repo)
    ctx.note("runner_argument_scenarios", len(runs))
    key = lambda sc: tuple(v for k, v in sorted(sc.items()) if k != "seed")
    fresh = {key(sc): t for sc, t in runs if not sc["seed"]}
    seeded = {key(sc): t for sc, t in runs if sc["seed"]}
    diff = [f"{k}: fresh {fresh[k]['names']} vs seed {seeded[k]['names']}" for k in fresh if fresh[k]["names"] != seeded[k]["names"]
            or fresh[k]["fixed_names"] != seeded[k]["fixed_names"]]
    ctx.ob("R11.4", "fresh-start and seed tables have the same keys in the same order", not diff, detail=diff[:4], where=fs.fq,
           construct="parameters tables", loc=loc(fs, fs.node), message=f"{diff[:1]}",
           consequence="a resumed run starts from a state missing a field (e.g. the induced potential)")
    drives = {"applied_vector_potential": "self.current_A_applied", "epsilon": "self.epsilon"}
    bad = set()
    for sc, t in runs:
        if not sc["seed"]:
            continue
        for n, v in zip(t["names"], t["values"]):
            if n not in drives and v != f"{SEED}.tdgl_data.{n}":
                bad.add(f"{n}: {v.replace(SEED, 'seed_solution')}")
    ctx.ob("R11.4", "every seed value is the same-named field of seed_solution.tdgl_data", not bad,
           detail={"mismatched": sorted(bad)}, where=fs.fq, construct="seed values", loc=loc(fs, fs.node),
           message=f"seed table mismatches: {sorted(bad)}", consequence="a resumed run swaps fields (e.g. normal current for supercurrent)")
    kwonly = [a.arg for a in fu.node.args.kwonlyargs]
    bad = []
    for sc, t in runs:
        allnames = t["names"] + t["fixed_names"]
        if sorted(allnames) != sorted(kwonly) or len(t["names"]) != len(t["values"]) or len(t["fixed_names"]) != len(t["fixed_values"]):
            bad.append(f"{sc}: state {t['names']} + fixed {t['fixed_names']}")
            continue
        for flag, nm in (("dynamic_vector_potential", "applied_vector_potential"), ("dynamic_epsilon", "epsilon")):
            where_ = t["names"] if sc[flag] else t["fixed_names"]
            vals = t["values"] if sc[flag] else t["fixed_values"]
            if nm not in where_ or vals[where_.index(nm)] != drives[nm]:
                bad.append(f"{sc}: {nm} is not handed over as {drives[nm]} among the {'evolving' if sc[flag] else 'fixed'} values")
    ctx.ob("R11.4", "update()'s keyword parameters == table keys + {applied_vector_potential, epsilon} (evolving when dynamic, else fixed)",
           not bad, detail={"update_kwonly": kwonly, "mismatches": bad[:4]}, where=fu.fq,
           construct="update signature vs state table", message=f"update takes {kwonly}; {bad[:1]}",
           consequence="part of the evolving state is not carried from step to step (or from the seed)")
