"""C16 - parameter arithmetic is pointwise arithmetic of its operands."""
from __future__ import annotations

import ast
from typing import Dict, List, Set, Tuple

from ..alg import AtomTable, Rat
from ..cfg import guards_of, parent_map
from ..interp import ExtFunc, Frame, Interp, ModRef, Obj, Opaque, PyFunc, Unsupported
from ..src import AnalysisError, ClassInfo, loc, norm, own_nodes

PARAM = "tdgl.parameter"
TECH = ("operator-table exhaustiveness, abstract interpretation of CompositeParameter.__init__/__call__ over a finite "
        "operand-kind domain, isinstance-dominance rule for operand attribute access, slot definite-assignment")

DUNDER = {"add": "+", "sub": "-", "mul": "*", "truediv": "/", "pow": "**"}


def class_slots(repo, c: ClassInfo) -> Set[str]:
    out = set()
    for k in repo.mro(c):
        for st in k.node.body:
            if isinstance(st, ast.Assign) and any(isinstance(t, ast.Name) and t.id == "__slots__" for t in st.targets):
                if isinstance(st.value, (ast.Tuple, ast.List)):
                    out |= {e.value for e in st.value.elts if isinstance(e, ast.Constant)}
    return out


def init_assigned(repo, c: ClassInfo) -> Set[str]:
    """self attributes assigned by c's effective __init__ (following super().__init__)."""
    for k in repo.mro(c):
        if "__init__" in k.methods:
            fn = k.methods["__init__"].node
            out = {n.attr for n in ast.walk(fn) if isinstance(n, ast.Attribute) and isinstance(n.ctx, ast.Store)
                   and isinstance(n.value, ast.Name) and n.value.id == "self"}
            calls_super = any(isinstance(n, ast.Call) and isinstance(n.func, ast.Attribute) and n.func.attr == "__init__"
                              and isinstance(n.func.value, ast.Call) and getattr(n.func.value.func, "id", "") == "super"
                              for n in ast.walk(fn))
            if calls_super:
                rest = repo.mro(k)[1:]
                if rest:
                    out |= init_assigned(repo, rest[0])
            return out
    return set()


def subclasses(repo, base: ClassInfo) -> List[ClassInfo]:
    out = []
    for m in repo.modules.values():
        for c in m.classes.values():
            if base in repo.mro(c):
                out.append(c)
    return out


def check(ctx):
    repo = ctx.repo
    P = repo.cls(PARAM, "Parameter")
    C = repo.cls(PARAM, "CompositeParameter")
    ctx.rule("R16.12", "evaluating, comparing or printing a parameter does not modify it: no method other than the constructors / __setstate__ "
                       "writes into self.kwargs (directly or through a local that may be the same dict)", 1)
    ctx.rule("R16.11", "leaf equality compares the functions as wholes (code objects or the functions themselves), the keyword names and the keyword values", 3)
    ctx.rule("R16.10", "clearing the cache of a composite clears both operands whenever they are parameters (all four operand-kind combinations)", 4)
    ctx.rule("R16.9", "pickling / copying a parameter leaves the parameter itself unchanged (no write to self or to its live __dict__)", 1)
    ctx.rule("R16.1", "each of the five operators has a forward dunder (self, other, operator.X) and a reflected dunder "
                      "(other, self, operator.X); the table VALID_OPERATORS has exactly these", 11)
    ctx.rule("R16.2", "CompositeParameter.__call__ == operator(left value, right value); t is passed to exactly the time-dependent operands", 8)
    ctx.rule("R16.3", "time_dependent == (left is a time-dependent parameter) or (right is); the composite keeps the operands and operator it was given", 12)
    ctx.rule("R16.4", "every attribute access on an operand is dominated by isinstance(<that operand>, <class defining it>); "
                      "left and right are treated alike", 4)
    ctx.rule("R16.5", "every attribute read on an operand exists on every class the dominating guard admits (slots definitely assigned)", 4)
    ctx.rule("R16.6", "structural equality compares left, right and operator only", 1)
    ctx.rule("R16.8", "cached evaluation: the cache key covers every call argument and the keyword arguments", 2)
    ctx.rule("R16.7", "what the solver touches on a parameter (call, time_dependent, _clear_cache) exists on every Parameter class", 3)

    # R16.1 -------------------------------------------------------------------------
    table = None
    for st in C.node.body:
        if isinstance(st, ast.Assign) and any(isinstance(t, ast.Name) and t.id == "VALID_OPERATORS" for t in st.targets):
            table = st.value
    if not isinstance(table, ast.Dict):
        raise AnalysisError("CompositeParameter.VALID_OPERATORS is not a dict literal")
    ops = {}
    for k, v in zip(table.keys, table.values):
        if isinstance(k, ast.Attribute) and isinstance(k.value, ast.Name) and k.value.id == "operator":
            ops[k.attr] = v.value if isinstance(v, ast.Constant) else None
    ok = ops == DUNDER
    ctx.ob("R16.1", "VALID_OPERATORS == {add:'+', sub:'-', mul:'*', truediv:'/', pow:'**'}", ok, detail=ops,
           where=C.fq, construct="VALID_OPERATORS", loc=f"{C.module.rel}:{C.node.lineno}",
           message=f"operator table is {ops}", consequence="an operator is rejected or printed/parsed as a different one")
    for opn in DUNDER:
        for refl in (False, True):
            name = f"__{'r' if refl else ''}{opn}__"
            m = P.methods.get(name)
            ok, det = False, None
            if m is not None:
                # the dunder is followed (pvs/smallstep.py, private helpers of the class included): what it returns must be
                # CompositeParameter(<left>, <right>, operator.<op>) with the operands in the order of the expression
                from ..smallstep import Machine as _SM, Opaque as _SO, follow_private_methods as _fpm, module_constants as _mc, render as _rd
                env_ = dict(_mc(m.module.tree))
                params_ = [a_.arg for a_ in m.node.args.args]
                if len(params_) != 2:
                    raise AnalysisError(f"Parameter.{name} takes {params_}")
                env_.update({params_[0]: _SO("self"), params_[1]: _SO("other")})
                kind_, val_ = _SM(env_, lambda t: NotImplemented, _fpm(P), fuel=8, undecided=lambda t: None).run_function(m.node)
                det = _rd(val_)[:120]
                if kind_ == "return" and isinstance(val_, _SO) and val_.parts and val_.parts[0] == "call":
                    a = [_rd(x) for x in val_.parts[2]] + [f"{k_}={_rd(v_)}" for k_, v_ in val_.parts[3].items()]
                    want = ["other", "self", f"operator.{opn}"] if refl else ["self", "other", f"operator.{opn}"]
                    ok = val_.parts[1] == "CompositeParameter" and a == want
            ctx.ob("R16.1", f"Parameter.{name}", ok, detail=det, where=f"{P.fq}.{name}", construct=name,
                   loc=loc(m, m.node) if m else "", message=f"Parameter.{name} is {det}",
                   consequence=f"`{'2 ' + DUNDER[opn] + ' P' if refl else 'P ' + DUNDER[opn] + ' 2'}` evaluates with swapped operands or another operator")
    extra = [n for n in P.methods if n.startswith("__") and n[2:-2].lstrip("r") in
             ("floordiv", "mod", "matmul", "and", "or", "xor", "lshift", "rshift") ]
    ctx.ob("R16.1", "no arithmetic dunder outside the table", not extra, detail=extra, where=P.fq, construct="extra dunders",
           message=f"dunders without table entry: {extra}", consequence="an expression builds a composite that __init__ rejects")

    # R16.2 / R16.3 by abstract interpretation -------------------------------------------------
    f_init = C.methods["__init__"]
    f_call = C.methods["__call__"]
    kinds = ["static", "timedep", "number", "composite"]
    for lk in kinds:
        for rk in kinds:
            if lk == rk == "number" or lk == rk == "composite":
                continue
            T = AtomTable()
            ip = Interp(repo, T)
            ip.ext_overrides.update(operator_table(ip))
            calls = []

            def pcall(I, args, kwargs, _calls=calls):
                me = args[0]
                _calls.append((me.label, "t" in kwargs and kwargs["t"] is not None, len(args) - 1))
                nm = f"{me.label}(x,y,z{',t' if kwargs.get('t') is not None else ''})"
                return I.T.real(nm)
            ip.func_overrides[f"{PARAM}:Parameter.__call__"] = pcall

            OP = ModRef("operator.sub")

            def mk(kind, label):
                if kind == "number":
                    return T.real(label + "_num")  # a plain number
                if kind == "composite":
                    # an operand that is itself `<parameter> - <number>` (same operator as the one being built), number on the
                    # side that makes a chain with a numeric sibling
                    inner_p = Obj(P, {"time_dependent": False, "_use_cache": None, "_cache": {}}, label=label + label)
                    inner_n = T.real(label + label + "_num")
                    a_, b_ = (inner_p, inner_n) if label == "L" else (inner_n, inner_p)
                    return Obj(C, {"left": a_, "right": b_, "operator": OP, "time_dependent": False, "_use_cache": None,
                                   "_cache": {}}, label=label)
                return Obj(P, {"time_dependent": kind == "timedep", "_use_cache": None, "_cache": {}}, label=label)
            left, right = mk(lk, "L"), mk(rk, "R")
            ip.ext_overrides["builtins.isinstance"] = lambda I, a, k: _isinst(I, repo, a)
            comp = Obj(C, {}, label="comp")
            needs_outcomes = {}
            try:
                ip.call_function(f_init, [comp, left, right, OP], {})
                kept = comp.attrs.get("left") is left and comp.attrs.get("right") is right and \
                    isinstance(comp.attrs.get("operator"), ModRef) and comp.attrs["operator"].dotted == "operator.sub"
                ctx.ob("R16.3", f"the composite keeps the operands and the operator it was given ({lk}, {rk})", kept,
                       detail={"left": str(comp.attrs.get("left")), "right": str(comp.attrs.get("right")), "operator": str(comp.attrs.get("operator"))},
                       where=f_init.fq, construct=f"stored operands ({lk},{rk})", loc=loc(f_init, f_init.node),
                       message=f"CompositeParameter.__init__ given ({lk}, {rk}, operator.sub) stores left={comp.attrs.get('left')}, right={comp.attrs.get('right')}, "
                               f"operator={comp.attrs.get('operator')}: not the objects it was given",
                       consequence="the expression tree is rewritten at construction: equality is no longer structural ((p - 1) - 2 compares equal to p - 3), and a "
                                   "rewrite that is only valid on part of the domain ((p ** a) ** b -> p ** (a * b)) changes the value")
                td = comp.attrs.get("time_dependent")
                want_td = (lk == "timedep") or (rk == "timedep")
                ctx.ob("R16.3", f"time_dependent for ({lk}, {rk})", td is want_td, detail={"got": td, "want": want_td},
                       where=f_init.fq, construct=f"time_dependent ({lk},{rk})", loc=loc(f_init, f_init.node),
                       message=f"composite of ({lk}, {rk}) has time_dependent={td}",
                       consequence="the solver treats a time-dependent field as static (never re-evaluated) or vice versa")
                for tval, eq_outcome in [(tv_, oc_) for tv_ in (None, T.real("t")) for oc_ in (None, True, False)]:
                    # two operands are arbitrary, independent parameters: whether they *compare* equal (same code, same keyword
                    # arguments - two closures of one factory do) says nothing about their values.  A comparison between them that
                    # the evaluation makes is followed with both outcomes, and the value must be right in both.
                    if eq_outcome is None:
                        ip.compare_policy = None
                    else:
                        if not needs_outcomes.get(str(tval)):
                            continue
                        ip.compare_policy = (lambda node, a_, b_, oc=eq_outcome: (oc if isinstance(node.ops[0], ast.Eq) else not oc)
                                             if isinstance(node.ops[0], (ast.Eq, ast.NotEq)) else None)
                    calls.clear()
                    x, y, z = T.real("x"), T.real("y"), T.real("z")
                    try:
                        val = ip.call_function(f_call, [comp, x, y, z], {"t": tval})
                    except Unsupported as e_:
                        if eq_outcome is None and "undecidable comparison" in str(e_):
                            needs_outcomes[str(tval)] = True
                            continue
                        raise
                    finally:
                        ip.compare_policy = None

                    def ev(kind, label):
                        if kind == "number":
                            return T.real(label + "_num")
                        if kind == "composite":
                            pv, nv = T.real(f"{label}{label}(x,y,z)"), T.real(label + label + "_num")
                            return (pv - nv) if label == "L" else (nv - pv)
                        return T.real(f"{label}(x,y,z{',t' if (kind == 'timedep' and tval is not None) else ''})")
                    want = ev(lk, "L") - ev(rk, "R")
                    ctx.ob("R16.2", f"(L - R)(x,y,z,t={'t' if tval is not None else 'None'}) for ({lk}, {rk})" +
                           ("" if eq_outcome is None else f" when the operands compare {'equal' if eq_outcome else 'unequal'}"),
                           isinstance(val, Rat) and val == want, detail={"got": str(val), "want": str(want), "calls": list(calls)},
                           where=f_call.fq, construct=f"__call__ ({lk},{rk},t={'given' if tval is not None else 'None'})",
                           loc=loc(f_call, f_call.node), message=f"composite evaluates to {val}, expected {want}",
                           consequence="the composite's value differs from the operator applied to its operands' values")
            except Unsupported as e:
                if str(e).startswith("attribute .") and "_num" in str(e):
                    ctx.ob("R16.2", f"composite of ({lk}, {rk}) can be built and evaluated", False, detail=str(e),
                           where=f_init.fq, construct=f"operands ({lk},{rk})", loc=loc(f_init, f_init.node),
                           message=f"building/evaluating a composite of ({lk}, {rk}) touches an attribute of the numeric operand: {e}",
                           consequence="AttributeError for expressions mixing a parameter and a number")
                else:
                    raise AnalysisError(f"CompositeParameter.__init__/__call__ outside the supported fragment for ({lk},{rk}): {e}")

    operand_rules(ctx, P, C)

    # R16.6 -------------------------------------------------------------------------
    # CompositeParameter.__eq__ followed (pvs/smallstep.py) for the eight combinations "left / right / operator agree or not":
    # equal exactly when all three agree; an operand of another type is unequal.  However the comparison is spelled.
    feq = C.methods.get("__eq__")
    if feq is None:
        raise AnalysisError("CompositeParameter.__eq__ not found")
    from ..smallstep import Machine, Opaque as SO2, module_constants as _mc, follow_private_methods as _fpm2
    import itertools as _it
    wrong = []
    for same in _it.product([True, False], repeat=3):
        vals = {"left": same[0], "right": same[1], "operator": same[2]}

        def attrs(text, vals=vals):
            side, _, rest = text.partition(".")
            if rest in vals and side in ("self", "other"):
                return ("value", rest, "mine" if side == "self" or vals[rest] else "theirs")
            return NotImplemented

        def call(m, node, name, args, kwargs):
            if name == "isinstance" and len(args) == 2 and args[0] == SO2("other"):
                return True
            if name == "type" and len(args) == 1:
                return SO2("CompositeParameter")
            return NotImplemented

        def undecided(text):
            return False if text.replace(" ", "") in ("otherisself", "selfisother") else None
        env = dict(_mc(feq.module.tree))
        env.update({"self": SO2("self"), "other": SO2("other")})
        kind, val = Machine(env, attrs, _fpm2(C, call), fuel=16, undecided=undecided).run_function(feq.node)
        if kind != "return" or val not in (True, False):
            raise AnalysisError(f"CompositeParameter.__eq__ does not decide the case {vals} in the model ({kind} {val!r})")
        if val != all(same):
            wrong.append(f"left {'same' if same[0] else 'differs'}, right {'same' if same[1] else 'differs'}, operator {'same' if same[2] else 'differs'}: __eq__ gives {val}")
    ctx.ob("R16.6", "CompositeParameter.__eq__ is true exactly when left, right and operator all agree (8 cases)", not wrong,
           detail=wrong, where=feq.fq, construct="__eq__", loc=loc(feq, feq.node),
           message=f"equality decides wrongly: {wrong[:3]}", consequence="structurally different expressions compare equal (or equal ones differ)")

    # R16.7 -------------------------------------------------------------------------
    for cls in subclasses(repo, P):
        has_call = repo.method(cls, "__call__") is not None
        has_clear = repo.method(cls, "_clear_cache") is not None
        has_td = "time_dependent" in init_assigned(repo, cls)
        ctx.ob("R16.7", f"{cls.name}: __call__, _clear_cache, time_dependent", has_call and has_clear and has_td,
               detail={"__call__": has_call, "_clear_cache": has_clear, "time_dependent": has_td}, where=cls.fq,
               construct=f"{cls.name} solver interface", message=f"{cls.name} lacks part of the interface the solver uses",
               consequence="tdgl.solve(..., applied_vector_potential=<this parameter>) raises AttributeError")
    # R16.8 ------------------------------------------------------------------------
    fh = P.methods.get("_hash_args")
    fc = P.methods.get("__call__")
    if fh is None or fc is None:
        raise AnalysisError("Parameter._hash_args / __call__ not found")
    params = [a.arg for a in fh.node.args.args[1:]]
    # may-reach analysis (pvs/flows.py): every parameter and the keyword arguments influence the returned key, however the
    # function is arranged (helpers, comprehensions over (x, y, z), temporaries)
    from ..flows import reaching_labels

    def key_source(x):
        if isinstance(x, ast.Name) and isinstance(x.ctx, ast.Load) and x.id in params:
            return x.id
        if isinstance(x, ast.Attribute) and norm(x) == "self.kwargs":
            return "self.kwargs"
        return None
    reach = reaching_labels(fh.node, key_source).get("<return>", set())
    rets = [n for n in own_nodes(fh.node) if isinstance(n, ast.Return)]
    used = {p_: 1 for p_ in params if p_ in reach}
    uses_kwargs = "self.kwargs" in reach
    missing = [p_ for p_ in params if p_ not in used]
    if len(rets) != 1:
        rets = rets[:1] or [None]
    ctx.ob("R16.8", "the cache key depends on every call argument (x, y, z, t) and on the keyword arguments", not missing and uses_kwargs
           and len(rets) == 1, detail={"parameters": params, "used": used, "kwargs": uses_kwargs}, where=fh.fq,
           construct="_hash_args coverage", loc=loc(fh, fh.node),
           message=f"the cache key of a cached parameter ignores {missing or 'self.kwargs'}",
           consequence="a cached (time-dependent) parameter evaluated at different z (or t) returns the value cached for another "
                       "argument: the composite no longer equals the pointwise arithmetic of its operands")
    # __call__ followed (pvs/smallstep.py; private helpers included) with a model cache: caching on with the key absent / present,
    # caching off.  _hash_args and _evaluate are the two primitives.
    from ..run_trace import _RunMachine, RunTrace
    from ..smallstep import Opaque as _SO, follow_private_methods as _fpm, module_constants as _mc, render as _rd
    cparams = [a_.arg for a_ in fc.node.args.args + fc.node.args.kwonlyargs]
    if cparams != ["self", "x", "y", "z", "t"]:
        raise AnalysisError(f"Parameter.__call__ takes {cparams}")
    problems, seen = [], {}
    for use_cache, present in ((True, False), (True, True), (False, False)):
        log = {"hash": [], "evaluate": []}

        def prim(m_, node, name, args, kwargs, log=log):
            if name == "self._hash_args":
                log["hash"].append([_rd(x) for x in args] + [f"{k_}={_rd(v_)}" for k_, v_ in kwargs.items()])
                return ("key",) + tuple(_rd(x) for x in args)
            if name == "self._evaluate":
                log["evaluate"].append([_rd(x) for x in args] + [f"{k_}={_rd(v_)}" for k_, v_ in kwargs.items()])
                return _SO("value of (" + ", ".join(_rd(x) for x in args) + ")")
            return NotImplemented
        hook = _fpm(P, prim)
        env_ = dict(_mc(fc.module.tree))
        env_.update({"self": _SO("self"), "x": _SO("x"), "y": _SO("y"), "z": _SO("z"), "t": _SO("t")})
        mach = _RunMachine(env_, lambda t_: NotImplemented, lambda m_, n_, nm_, a_, k_: prim(m_, n_, nm_, a_, k_) if nm_ in ("self._hash_args", "self._evaluate") else hook(m_, n_, nm_, a_, k_),
                           fuel=16, undecided=lambda t_: None)
        key = ("key", "x", "y", "z", "t")
        cache = {key: _SO("stored value")} if present else {("key", "x", "y", "z", "t2"): _SO("value for another t")}
        mach.self_state = {"_use_cache": use_cache, "_cache": cache}
        mach.trace = RunTrace({})
        kind_, val_ = mach.run_function(fc.node)
        tag = f"caching {'on' if use_cache else 'off'}, key {'present' if present else 'absent'}"
        seen[tag] = {"returns": _rd(val_)[:80], **log}
        if kind_ != "return":
            problems.append(f"[{tag}] raises {val_}")
            continue
        full = ["x", "y", "z", "t"]
        if any(a_ != full for a_ in log["hash"] + log["evaluate"]):
            problems.append(f"[{tag}] hash args {log['hash']}, evaluate args {log['evaluate']}")
        if use_cache and present and (_rd(val_) != "stored value" or log["evaluate"]):
            problems.append(f"[{tag}] returns {_rd(val_)[:60]} after {len(log['evaluate'])} evaluation(s)")
        if use_cache and not present and (_rd(val_) != "value of (x, y, z, t)" or _rd(cache.get(key)) != "value of (x, y, z, t)" or len(log["evaluate"]) != 1):
            problems.append(f"[{tag}] returns {_rd(val_)[:60]}, stores {_rd(cache.get(key))[:60]}")
        if not use_cache and (_rd(val_) != "value of (x, y, z, t)" or len(cache) != 1 or log["hash"]):
            problems.append(f"[{tag}] returns {_rd(val_)[:60]}; the cache holds {len(cache)} entr(ies)")
    ctx.ob("R16.8", "__call__ hashes and evaluates the same (x, y, z, t): a hit returns the stored value, a miss evaluates once and stores "
                    "under that key, caching off never touches the cache", not problems, detail=seen, where=fc.fq,
           construct="__call__ cache protocol", loc=loc(fc, fc.node), message="; ".join(problems[:3]),
           consequence="the value stored under a key was computed for other arguments")
    leaf_equality(ctx, P)
    kwargs_untouched(ctx, P)
    clear_reaches_operands(ctx, C)
    from ..effects import serialisers_pure
    serialisers_pure(ctx, "R16.9", "after a composite parameter has been pickled once (tdgl.solve pickles the applied vector potential into the "
                                   "output file) its operands are byte strings: evaluating it again, comparing it or nesting it further fails "
                                   "or silently concatenates bytes", classes=("Parameter", "CompositeParameter", "Constant"), floor=1)
    ctx.assume("operands' own values are opaque; `operator.X` is Python's operator module")
    ctx.decline("numerical value of an evaluated tree (it is operator.X of the operand values by R16.2)")


def operator_table(ip):
    import ast as _a
    tbl = {}
    for nm, op in (("add", _a.Add()), ("sub", _a.Sub()), ("mul", _a.Mult()), ("truediv", _a.Div()), ("pow", _a.Pow())):
        tbl[f"operator.{nm}"] = (lambda I, a, k, _op=op: I.binop(_op, a[0], a[1]))
    return tbl


def _isinst(I, repo, a):
    v, c = a
    cs = c if isinstance(c, tuple) else (c,)
    for k in cs:
        if isinstance(k, ClassInfo):
            if isinstance(v, Obj) and v.cls is not None and k in repo.mro(v.cls):
                return True
        elif isinstance(k, ModRef) and k.dotted in ("numbers.Number", "numbers.Real"):
            if isinstance(v, (Rat, int)) and not isinstance(v, bool):
                return True
        elif isinstance(k, ExtFunc) and k.dotted == "builtins.str":
            if isinstance(v, str):
                return True
    return False


# ---------------------------------------------------------------------------
# R16.4 / R16.5: operand attribute access discipline
# ---------------------------------------------------------------------------

def operand_of(e: ast.AST):
    """'left'/'right' if e is self.left / self.right, 'operand' for a loop variable over them."""
    if isinstance(e, ast.Attribute) and isinstance(e.value, ast.Name) and e.value.id == "self" and e.attr in ("left", "right"):
        return e.attr
    return None


def isinstance_facts(test: ast.expr, positive=True) -> List[Tuple[str, str, bool]]:
    """[(operand text, class name, polarity)] established when `test` is true (positive) / false."""
    out = []
    if isinstance(test, ast.Call) and getattr(test.func, "id", "") == "isinstance" and len(test.args) == 2:
        cls = test.args[1]
        names = [c.id for c in (cls.elts if isinstance(cls, ast.Tuple) else [cls]) if isinstance(c, ast.Name)]
        for nme in names:
            out.append((norm(test.args[0]), nme, positive))
    elif isinstance(test, ast.BoolOp) and isinstance(test.op, ast.And) and positive:
        for v in test.values:
            out += isinstance_facts(v, True)
    elif isinstance(test, ast.UnaryOp) and isinstance(test.op, ast.Not):
        out += isinstance_facts(test.operand, not positive)
    return out


def operand_rules(ctx, P, C):
    repo = ctx.repo
    hierarchy = subclasses(repo, P)
    byname = {c.name: c for c in hierarchy}
    per_side: Dict[str, Dict[str, Set[Tuple[str, str]]]] = {}
    for m in C.methods.values():
        fn = m.node
        pm = parent_map(fn)
        loopvars = {}
        for n in own_nodes(fn):
            if isinstance(n, ast.For) and isinstance(n.target, ast.Name) and isinstance(n.iter, (ast.Tuple, ast.List)) \
                    and all(operand_of(e) for e in n.iter.elts):
                loopvars[n.target.id] = "both"
        for n in own_nodes(fn):
            if not (isinstance(n, ast.Attribute) and isinstance(n.ctx, ast.Load)):
                continue
            side = operand_of(n.value)
            if side is None and isinstance(n.value, ast.Name) and n.value.id in loopvars:
                side = "both"
            if side is None:
                continue
            optxt = norm(n.value)
            # facts from enclosing ifs + from earlier conjuncts of an `and` + elif chains
            facts = []
            st = n
            chain = []
            while id(st) in pm:
                par, fld = pm[id(st)]
                if isinstance(par, ast.BoolOp) and isinstance(par.op, ast.And):
                    idx = par.values.index(st) if st in par.values else -1
                    for v in par.values[:max(idx, 0)]:
                        facts += isinstance_facts(v, True)
                if isinstance(par, ast.If) and fld == "body":
                    facts += isinstance_facts(par.test, True)
                if isinstance(par, ast.If) and fld == "orelse":
                    facts += isinstance_facts(par.test, False)
                if isinstance(par, ast.IfExp):
                    if fld == "body":
                        facts += isinstance_facts(par.test, True)
                    elif fld == "orelse":
                        facts += isinstance_facts(par.test, False)
                # early exits: `if <test>: continue / break / return / raise` before this statement establishes `not <test>`
                if isinstance(st, ast.stmt) and fld in ("body", "orelse", "finalbody") and isinstance(getattr(par, fld, None), list):
                    sibs = getattr(par, fld)
                    for prev in sibs[:sibs.index(st)] if st in sibs else []:
                        if isinstance(prev, ast.If) and not prev.orelse and prev.body and \
                                isinstance(prev.body[-1], (ast.Continue, ast.Break, ast.Return, ast.Raise)):
                            facts += isinstance_facts(prev.test, False)
                st = par
            pos = {c for (o, c, pol) in facts if o == optxt and pol}
            neg = {c for (o, c, pol) in facts if o == optxt and not pol}
            admitted = []
            if pos:
                for c in hierarchy:
                    names = {k.name for k in repo.mro(c)}
                    if (names & pos) and not (names & neg):
                        admitted.append(c)
            guarded = bool(pos) and all(p in byname for p in pos)
            inst = f"{m.qual}: {norm(n)}"
            ctx.ob("R16.4", f"{inst} guarded by isinstance({optxt}, ...)", guarded,
                   detail={"facts": [f"{o} {'is' if p else 'is not'} {c}" for o, c, p in facts]}, where=m.fq,
                   construct=norm(n), loc=loc(m, n),
                   message=f"`{norm(n)}` is evaluated although `{optxt}` may be a plain number (no dominating "
                           f"isinstance({optxt}, Parameter))",
                   consequence=f"for a numeric operand (e.g. P*2 or 2*P) `{norm(n)}` raises AttributeError; "
                               f"tdgl.solve(applied_vector_potential=P*2) dies in _clear_cache()")
            if guarded:
                missing = []
                for c in admitted:
                    if repo.method(c, n.attr) is None and n.attr not in init_assigned(repo, c):
                        missing.append(c.name)
                ctx.ob("R16.5", f"{inst} defined on every admitted class", not missing,
                       detail={"admitted": [c.name for c in admitted], "missing_on": missing}, where=m.fq,
                       construct=f"{norm(n)} on {missing}", loc=loc(m, n),
                       message=f"`{n.attr}` is read on an operand that may be a {missing}, whose __init__ never assigns it",
                       consequence="nesting a time-dependent composite ((T*P)+P, (T*P)*2) raises AttributeError: "
                                   "composites cannot be nested to any depth")
            sides = ("left", "right") if side == "both" else (side,)
            for sd in sides:
                per_side.setdefault(m.qual, {}).setdefault(sd, set()).add((n.attr, "guarded" if guarded else "unguarded"))
    for q, d in per_side.items():
        l, r = d.get("left", set()), d.get("right", set())
        ctx.ob("R16.4", f"{q}: left and right operands treated alike", l == r,
               detail={"left": sorted(l), "right": sorted(r)}, where=f"{C.module.name}:{q}", construct=f"{q} symmetry",
               message=f"{q} treats the operands differently: left {sorted(l)}, right {sorted(r)}",
               consequence="`2*P` and `P*2` behave differently (e.g. only one side's cache is cleared)")


# ---------------------------------------------------------------------------
# R16.10 _clear_cache reaches every parameter operand
# ---------------------------------------------------------------------------

def clear_reaches_operands(ctx, C):
    """Interpret CompositeParameter._clear_cache for the four combinations (parameter | number) x (parameter | number)."""
    from ..alg import AtomTable
    from ..interp import Interp, Obj, PyFunc, Unsupported
    repo = ctx.repo
    f = C.methods.get("_clear_cache")
    if f is None:
        raise AnalysisError("CompositeParameter._clear_cache no longer exists")
    P = repo.cls("tdgl.parameter", "Parameter")
    for lk in ("parameter", "number"):
        for rk in ("parameter", "number"):
            T = AtomTable()
            ip = Interp(repo, T)
            cleared = []

            def mk(kind, side):
                if kind == "number":
                    return 2
                return Obj(P, {"_clear_cache": PyFunc(lambda _s=side: cleared.append(_s))}, label=side)
            own = Obj(None, {"clear": PyFunc(lambda: cleared.append("own"))}, label="cache")
            me = Obj(C, {"left": mk(lk, "left"), "right": mk(rk, "right"), "_cache": own}, label="composite")
            try:
                ip.call_function(f, [me], {})
                err = None
            except Unsupported as e:
                err = str(e)
            want = sorted(["own"] + [s_ for s_, k_ in (("left", lk), ("right", rk)) if k_ == "parameter"])
            ok = err is None and sorted(cleared) == want
            ctx.ob("R16.10", f"left is a {lk}, right is a {rk}: operands cleared == {want}", ok,
                   detail={"cleared": sorted(cleared), "error": err}, where=f.fq, construct=f"_clear_cache with left {lk}, right {rk}",
                   loc=loc(f, f.node), message=f"with a {lk} on the left and a {rk} on the right, _clear_cache() clears {sorted(cleared)} "
                                               f"instead of {want}" + (f" ({err})" if err else ""),
                   consequence="memoised values of a time-dependent operand survive the solver's cache clearing: a second solve with the same "
                               "composite (e.g. (1 - ramp) * field) evaluates stale values instead of the pointwise combination of its operands")


def leaf_equality(ctx, P):
    """Two leaf parameters are equal only if their functions are: comparing a projection of the code object (co_code, co_consts)
    identifies functions that call different names (sin vs cos) and makes structurally different expressions equal."""
    f = P.methods.get("__eq__")
    if f is None:
        raise AnalysisError("Parameter.__eq__ no longer exists")
    cmps = [n for n in own_nodes(f.node) if isinstance(n, ast.Compare) and len(n.ops) == 1 and isinstance(n.ops[0], (ast.Eq, ast.NotEq))]
    whole = [c for c in cmps if {norm(c.left), norm(c.comparators[0])} in ({"self.func.__code__", "other.func.__code__"}, {"self.func", "other.func"})]
    projections = [norm(n) for n in own_nodes(f.node) if (isinstance(n, ast.Attribute) and n.attr.startswith("co_"))
                   or (isinstance(n, ast.Call) and norm(n.func).endswith("attrgetter") and any(isinstance(a, ast.Constant) and str(a.value).startswith("co_") for a in n.args))]
    ctx.ob("R16.11", "the functions are compared as wholes", not projections, detail={"comparisons": [norm(c) for c in cmps][:6], "projections": projections},
           where=f.fq, construct="function comparison in Parameter.__eq__", loc=loc(f, whole[0] if whole else f.node),
           message=f"Parameter.__eq__ compares {projections or 'no'} projection(s) of the code objects instead of the code objects themselves",
           consequence="two leaves whose functions have the same bytecode and constants but call different names (np.sin vs np.cos) compare equal, "
                       "and so does every composite built on them: equality is no longer structural")
    # the decision of __eq__ followed (pvs/smallstep.py) for pairs of leaves that differ in exactly one respect
    from ..smallstep import Machine, Opaque as SO, module_constants
    mine = {"a": 1, "b": 2}
    cases = [("identical function and keywords", "codeA", {"a": 1, "b": 2}, True),
             ("keywords given in another order", "codeA", {"b": 2, "a": 1}, True),
             ("another function with the same bytecode and constants", "codeB", {"a": 1, "b": 2}, False),
             ("a keyword missing", "codeA", {"a": 1}, False),
             ("an extra keyword", "codeA", {"a": 1, "b": 2, "c": 3}, False),
             ("a keyword value differs", "codeA", {"a": 1, "b": 3}, False)]
    wrong_names, wrong_vals, wrong_func, wrong_same = [], [], [], []
    for what, ocode, okw, want in cases:
        def attrs(text, ocode=ocode, okw=okw):
            side, _, rest = text.partition(".")
            code = "codeA" if side == "self" else ocode
            if rest == "kwargs":
                return dict(mine) if side == "self" else dict(okw)
            if rest == "func":
                return ("function", code)
            if rest == "func.__code__":
                return ("code", code)
            if rest.startswith("func.__code__.co_"):
                # codeA and codeB differ only in the names they call
                return ("names", code) if rest.endswith("co_names") else ("part", rest.split(".")[-1])
            return NotImplemented

        def call(m, node, name, args, kwargs):
            if name == "isinstance" and len(args) == 2:
                if args[0] == SO("other"):
                    return True
                return False            # keyword values are plain numbers here, not arrays
            return NotImplemented

        def undecided(text):
            return False if text.replace(" ", "") in ("otherisself", "selfisother") else None
        env = dict(module_constants(f.module.tree))
        env.update({"self": SO("self"), "other": SO("other")})
        kind, val = Machine(env, attrs, call, fuel=16, undecided=undecided).run_function(f.node)
        got = kind == "return" and val is True
        if kind != "return" or val not in (True, False):
            raise AnalysisError(f"Parameter.__eq__ does not decide `{what}` in the model ({kind} {val!r})")
        if got != want:
            {"another function with the same bytecode and constants": wrong_func, "a keyword missing": wrong_names, "an extra keyword": wrong_names,
             "a keyword value differs": wrong_vals}.get(what, wrong_same).append(f"{what}: __eq__ gives {got}")
    ctx.ob("R16.11", "leaves with the same function and keywords are equal (in any keyword order); another function is not", not wrong_func and not wrong_same,
           detail=wrong_func + wrong_same, where=f.fq, construct="function comparison in Parameter.__eq__ (decision table)", loc=loc(f, f.node),
           message=f"{(wrong_func + wrong_same)[:2]}", consequence="equality is no longer structural")
    ctx.ob("R16.11", "the keyword names are compared as sets", not wrong_names, detail=wrong_names, where=f.fq,
           construct="kwargs name comparison in Parameter.__eq__", message=f"Parameter.__eq__ no longer compares the sets of keyword names: {wrong_names}",
           consequence="parameters with different keyword arguments compare equal")
    ctx.ob("R16.11", "every keyword value is compared", not wrong_vals, detail=wrong_vals, where=f.fq,
           construct="kwargs value comparison in Parameter.__eq__", message=f"Parameter.__eq__ no longer compares the keyword values one by one: {wrong_vals}",
           consequence="parameters with different keyword values compare equal")


def kwargs_untouched(ctx, P):
    """R16.12: flow-ordered may-alias analysis (pvs/alias.py) of every Parameter method with self.kwargs as the protected storage."""
    from ..alias import analyse
    bad = []
    n = 0
    for name, f in P.methods.items():
        if name in ("__init__", "__setstate__"):
            continue
        n += 1
        res = analyse(f.node, roots_params=False, root_expr=lambda e: "self.kwargs" if norm(e) == "self.kwargs" else None)
        for node, lab, what in res.writes:
            bad.append(f"{f.qual} L{node.lineno}: {what}")
        for c in own_nodes(f.node):
            if isinstance(c, ast.Call) and isinstance(c.func, ast.Attribute) and norm(c.func.value) == "self.kwargs" \
                    and c.func.attr in ("update", "setdefault", "pop", "popitem", "clear", "__setitem__", "__delitem__"):
                bad.append(f"{f.qual} L{c.lineno}: {norm(c)[:50]}")
            if isinstance(c, ast.Delete) and any("self.kwargs" in norm(t) for t in c.targets):
                bad.append(f"{f.qual} L{c.lineno}: {norm(c)[:50]}")
    if n < 6:
        raise AnalysisError(f"only {n} Parameter methods examined")
    ctx.ob("R16.12", f"{n} Parameter methods leave self.kwargs as it was", not bad, detail=bad, where=P.fq, construct="stores into Parameter.kwargs",
           message=f"a method of Parameter writes into the keyword arguments the parameter was created with: {bad[:2]}",
           consequence="evaluating a parameter changes it: equality of leaves and composites (which compares kwargs) depends on the evaluation "
                       "history instead of the structure, and a later call sees the arguments of an earlier one")
