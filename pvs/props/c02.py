"""C02 - each step solves the discretised TDGL update on the physical branch."""
from __future__ import annotations

import ast

from ..alg import AlgError, Rat, sign_of
from ..cfg import build_cfg, guards_of, parent_map
from ..interp import LinOp, Unsupported
from ..model import new_interp
from ..specs import EULER_LABELS, euler_update, require_labels
from ..src import AnalysisError, loc, norm, own_nodes

SOLVER = "tdgl.solver.solver"
TECH = ("symbolic value numbering of TDGLSolver.solve_for_psi_squared (exact complex rational normal forms, "
        "sqrt atom with s^2=discriminant) compared with the documented z, w, quad-root, psi-sol; CFG rule on refusals")
LEVEL = "other"


def interpret(repo, gamma_zero=False):
    T, ip = new_interp(repo)
    f = repo.func(SOLVER, "TDGLSolver.solve_for_psi_squared")
    psi = T.cplx("psi")
    a2 = T.real("abs_sq_psi", "nonneg")
    mu = T.real("mu")
    eps = T.real("epsilon")
    gamma = Rat.const(T, 0) if gamma_zero else T.real("gamma", "nonneg")
    u = T.real("u", "pos")
    dt = T.real("dt", "pos")
    Lpsi = T.cplx("Lpsi")
    lap = LinOp("psi_laplacian", apply=lambda I, x: Lpsi if (isinstance(x, Rat) and x == psi) else
                (_ for _ in ()).throw(Unsupported("psi_laplacian applied to something other than psi")))
    decided = []
    special_cases = []

    def policy(test, fr):
        # the only data-dependent branch: refuse when some discriminant is negative.
        txt = ast.unparse(test)
        cmps = [n for n in ast.walk(test) if isinstance(n, ast.Compare)]
        in_any = any(isinstance(c_, ast.Call) and norm(c_.func).split(".")[-1] == "any" for c_ in ast.walk(test))
        if len(cmps) == 1 and isinstance(cmps[0].ops[0], (ast.Lt, ast.LtE)) and \
                ((isinstance(cmps[0].comparators[0], ast.Constant) and cmps[0].comparators[0].value == 0) or in_any):
            decided.append(txt)
            # the accepted path: no negative discriminant - whichever way the test is spelled (`if any(d < 0)` / `if not any(d < 0)`)
            nots = 0
            t_ = test
            while isinstance(t_, ast.UnaryOp) and isinstance(t_.op, ast.Not):
                nots += 1
                t_ = t_.operand
            return nots % 2 == 1
        # a special case selected by comparing an input with a constant (`if gamma == 0:`): the generic run takes the branch of a
        # generic value, the run with that input set to the constant (gamma_zero) takes the other one - both are judged
        t_, nots = test, 0
        while isinstance(t_, ast.UnaryOp) and isinstance(t_.op, ast.Not):
            nots += 1
            t_ = t_.operand
        if isinstance(t_, ast.Compare) and len(t_.ops) == 1 and isinstance(t_.ops[0], (ast.Eq, ast.NotEq)):
            try:
                a_, b_ = ip.eval(t_.left, fr), ip.eval(t_.comparators[0], fr)
            except Unsupported:
                return None
            if isinstance(a_, (Rat, int, float)) and isinstance(b_, (Rat, int, float)) and (isinstance(a_, Rat) or isinstance(b_, Rat)):
                d_ = a_ - b_
                eq = d_.is_zero() if isinstance(d_, Rat) else d_ == 0
                special_cases.append((ast.unparse(t_), eq))
                r_ = eq if isinstance(t_.ops[0], ast.Eq) else not eq
                return r_ if nots % 2 == 0 else not r_
        return None
    ip.branch_policy = policy
    kw = dict(psi=psi, abs_sq_psi=a2, mu=mu, epsilon=eps, gamma=gamma, u=u, dt=dt, psi_laplacian=lap)
    ret = ip.call_function(f, [], kw)
    sym = dict(T=T, psi=psi, a2=a2, mu=mu, eps=eps, gamma=gamma, u=u, dt=dt, Lpsi=Lpsi)
    return f, ip, ret, sym, decided


def check(ctx):
    repo = ctx.repo
    docs = require_labels(EULER_LABELS)
    ctx.note("specification", {k: v[:200] for k, v in docs.items()})
    ctx.rule("R02.10", "every psi solve of an update is handed the inputs of *this* step: the step index, the psi / mu of the previous solve of the same "
                       "update (or the ones handed in), |psi^n|^2 of the psi handed in, and the epsilon of this time (re-evaluated when time dependent)", 1)
    ctx.rule("R02.9", "the dt with which the accepted psi solve ran is the dt that is returned, recorded and added to the clock (shared with C12 R12.3/R12.4)", 5)
    ctx.rule("R02.8", "the psi update never writes into the arrays it is handed: a refused attempt leaves psi^n, |psi^n|^2 and mu^n as they were for the retry", 1)
    ctx.rule("R02.7", "z and w are computed from the psi, |psi|^2 and mu of *this* call: update() keeps no hidden numerical state "
                      "across calls beyond the confirmed carried-state table", 4)
    ctx.rule("R02.1", "returned |psi'|^2 equals the documented quad-root and returned psi' the documented psi-sol, with z, w from the documentation", 2)
    ctx.rule("R02.2", "psi' + z x - w == 0 (update equation quad-1)", 1)
    ctx.rule("R02.3", "|psi'|^2 - x == 0 modulo sqrt(disc)^2 = disc; x is real", 2)
    ctx.rule("R02.4", "physical branch: x stays finite at gamma = 0 (denominator (2c+1)+sqrt(disc), never division by |z|^2)", 2)
    ctx.rule("R02.5", "refusal discipline: value return dominated by the false branch of `any(discriminant < 0)`; strict test; sqrt/division after the test", 3)
    ctx.rule("R02.6", "floating-point underflow is not promoted to a refusal", 1)
    f, ip, ret, S, decided = interpret(repo)
    T = S["T"]
    if not (isinstance(ret, tuple) and len(ret) == 2 and all(isinstance(r, Rat) for r in ret)):
        raise AnalysisError("solve_for_psi_squared no longer returns (psi, new_sq_psi) terms on the accepted path")
    psi_new, x = ret
    spec = euler_update(T, S["psi"], S["a2"], S["mu"], S["eps"], S["gamma"], S["u"], S["dt"], S["Lpsi"])
    L = loc(f, f.node)
    ctx.ob("R02.1", "new_sq_psi == 2|w|^2 / ((2c+1) + sqrt((2c+1)^2 - 4|z|^2|w|^2))", x == spec["x"],
           detail={"code": str(x)[:400], "spec": str(spec["x"])[:400]}, where=f.fq, construct="new_sq_psi vs quad-root",
           loc=L, message="returned |psi'|^2 is not the documented root (eq. quad-root with z, w of eqs. z, w)",
           consequence="the step advances with a different superfluid density than the documented implicit Euler update")
    ctx.ob("R02.1", "psi == w - z * new_sq_psi", psi_new == spec["psi_new"],
           detail={"code": str(psi_new)[:400]}, where=f.fq, construct="psi vs psi-sol", loc=L,
           message="returned psi' is not w - z|psi'|^2 with the documented z, w",
           consequence="the order parameter does not solve the documented update equation")
    r22 = psi_new + spec["z"] * x - spec["w"]
    ctx.ob("R02.2", "psi' + z*|psi'|^2 - w == 0", r22.is_zero(), detail={"residual": str(r22)[:300]},
           where=f.fq, construct="update equation residual", loc=L,
           message=f"update equation residual is not identically zero: {str(r22)[:200]}",
           consequence="psi' + z|psi'|^2 != w at every site with a non-zero residual term")
    r23 = psi_new.abs2() - x
    ctx.ob("R02.3", "|psi'|^2 - new_sq_psi == 0 (mod sigma^2 = discriminant)", r23.is_zero(),
           detail={"residual": str(r23)[:300]}, where=f.fq, construct="modulus consistency", loc=L,
           message="reported |psi'|^2 is not the squared modulus of the reported psi'",
           consequence="|psi|^2 used for the next step's time-step rule and nonlinearity disagrees with psi")
    ctx.ob("R02.3", "new_sq_psi is real; numerator is 2|w|^2 (a sum of squares)", x.is_real() and
           (x * (spec["b"] + T.sqrt_of(spec["disc"])) - 2 * spec["w"].abs2()).is_zero(),
           detail={"lemma": "disc>=0 implies 4c+1 >= disc >= 0 (Cauchy-Schwarz |z|^2|w|^2 >= c^2), hence 2c+1 >= 1/2 > 0 and x >= 0"},
           where=f.fq, construct="realness / sign form", loc=L,
           message="reported |psi'|^2 is not of the form 2|w|^2/((2c+1)+sigma)",
           consequence="|psi'|^2 may be complex or negative on the accepted path")
    # R02.4: gamma -> 0
    try:
        f0, ip0, ret0, S0, _ = interpret(repo, gamma_zero=True)
        x0 = ret0[1]
        spec0 = euler_update(S0["T"], S0["psi"], S0["a2"], S0["mu"], S0["eps"], S0["gamma"], S0["u"], S0["dt"], S0["Lpsi"])
        ok = x0 == spec0["w"].abs2() and ret0[0] == spec0["w"]
        det = {"x_at_gamma0": str(x0)[:300], "psi_at_gamma0": str(ret0[0])[:300], "documented_w_at_gamma0": str(spec0["w"])[:300]}
    except (AlgError, Unsupported) as e:
        ok, det = False, {"error": str(e)}
    ctx.ob("R02.4", "at gamma = 0 (z = 0): psi' == w and new_sq_psi == |w|^2 with the documented w, finite", ok, detail=det, where=f.fq,
           construct="branch at z = 0", loc=L,
           message=f"at gamma=0 the returned (psi', |psi'|^2) is not (w, |w|^2) with the documented w, or is undefined: {det}",
           consequence="gamma = 0 or psi = 0 at a site gives inf/NaN (wrong branch or division by |z|^2)")
    den_ok = not (x * (spec["b"] - T.sqrt_of(spec["disc"])) == 2 * spec["w"].abs2())
    ctx.ob("R02.4", "denominator is (2c+1) + sqrt(disc), not (2c+1) - sqrt(disc)", den_ok, where=f.fq,
           construct="sign of the root", loc=L, message="the '-' root of the quadratic is used",
           consequence="|psi'|^2 diverges as |z| -> 0")
    check_refusals(ctx, f, decided)
    from ..report import Shared
    from . import c12
    sh = Shared(ctx, {"R12.3": "R02.9", "R12.4": "R02.9"},
                consequence="the answered psi' solves psi' + z|psi'|^2 = w for the reduced dt of the retry, but the step is reported (and the clock "
                            "advanced) with another dt: with the reported dt the update equation does not hold")
    c12.retry_loop(sh)
    c12.step_reported(sh, repo.func("tdgl.solver.solver", "TDGLSolver.update"))
    step_inputs(ctx)
    from ..effects import input_purity
    input_purity(ctx, "R02.8", functions=("TDGLSolver.solve_for_psi_squared", "TDGLSolver.adaptive_euler_step"), min_functions=2,
                 consequence="a refused attempt has already modified psi^n in place: the retry (with a smaller dt) solves the update equation "
                             "for another state, so the answered psi' does not satisfy psi' + z|psi'|^2 = w with z, w of the true psi^n")
    from ..effects import cross_call_state
    cross_call_state(ctx, "R02.7", "when update() is handed a psi it did not produce itself (second solve() on the same solver, seed "
                                   "solution, retry after an interrupt) the remembered quantity belongs to another psi: z and w of "
                                   "the update equation are built from inconsistent inputs and psi' + z|psi'|^2 = w is solved for the wrong step")
    ctx.assume("psi_laplacian @ psi is an arbitrary complex vector (atom Lpsi); abs_sq_psi is the caller's |psi|^2")
    ctx.assume("exact arithmetic: cancellation error of the citardauq form over ten decades of dt is not bounded")
    ctx.decline("floating-point accuracy of the root; behaviour on overflow")


def check_refusals(ctx, f, decided):
    fn = f.node
    g = build_cfg(fn)
    pm = parent_map(fn)
    rets = [n for n in own_nodes(fn) if isinstance(n, ast.Return)]
    val_rets = [r for r in rets if not (r.value is None or (isinstance(r.value, ast.Constant) and r.value.value is None))]
    none_rets = [r for r in rets if r not in val_rets]
    tests = [n for n in own_nodes(fn) if isinstance(n, ast.If) and any(
        isinstance(c, ast.Compare) and isinstance(c.comparators[0], ast.Constant) and c.comparators[0].value == 0
        and isinstance(c.ops[0], (ast.Lt, ast.LtE, ast.Gt, ast.GtE)) for c in ast.walk(n.test))]
    # `result = None ... result = (psi, x) ... return result`: the value sites are the non-None definitions of the returned name
    if len(val_rets) == 1 and isinstance(val_rets[0].value, ast.Name):
        nm_ = val_rets[0].value.id
        defs_ = [n for n in own_nodes(fn) if isinstance(n, ast.Assign) and any(isinstance(t_, ast.Name) and t_.id == nm_ for t_ in n.targets)]
        nonnone = [d for d in defs_ if not (isinstance(d.value, ast.Constant) and d.value.value is None)]
        if defs_ and len(nonnone) == 1 and len(defs_) > 1:
            val_rets = nonnone
    ok = len(val_rets) == 1 and len(tests) >= 1
    L = loc(f, fn)
    if not ok:
        # a refusal test that is not a sign test of the quantity under the square root (e.g. `2c+1 < 2|z||w|`, the same condition in
        # exact arithmetic): the decision and the root then use two floating-point expressions for one sign
        other = [n for n in own_nodes(fn) if isinstance(n, ast.If) and any(isinstance(c, ast.Compare) for c in ast.walk(n.test))
                 and any(isinstance(c, ast.Call) and norm(c.func).split(".")[-1] == "any" for c in ast.walk(n.test))]
        roots = sorted({norm(c.args[0]) for c in own_nodes(fn) if isinstance(c, ast.Call) and isinstance(c.func, ast.Attribute) and c.func.attr == "sqrt"
                        and c.args and isinstance(c.args[0], ast.Name)})
        msg = (f"the refusal test `{norm(other[0].test)}` is not a sign test of {roots or 'the discriminant'}, the quantity whose square root is "
               f"taken: at a (numerical) double root the two floating-point expressions disagree and the step is answered with nan") if other and len(val_rets) == 1 \
            else f"found {len(val_rets)} value returns and {len(tests)} sign tests"
        ctx.ob("R02.5", "one value return guarded by a discriminant sign test", False, where=f.fq,
               construct="exits", loc=loc(f, other[0]) if other else L, message=msg,
               consequence="an answer can be returned without testing the discriminant")
        return
    vr = val_rets[0]
    t = tests[0]
    dom = g.dominators()
    tnode = g.node_of(t).id
    vnode = g.node_of(vr).id
    # the value return must be reachable only through the 'false' edge of the test
    p = g.path(g.entry, vnode, skip_edges=())
    nots_ = 0
    t__ = t.test
    while isinstance(t__, ast.UnaryOp) and isinstance(t__.op, ast.Not):
        nots_ += 1
        t__ = t__.operand
    via_true = g.path(tnode, vnode, skip_edges=("true" if nots_ % 2 else "false",))
    ok = tnode in dom[vnode] and via_true is None
    ctx.ob("R02.5", "value return dominated by the false branch of the negative-discriminant test", ok,
           detail={"test": norm(t.test), "return": norm(vr),
                   "witness": g.describe_path(via_true) if via_true else None},
           where=f.fq, construct=f"if {norm(t.test)}", loc=loc(f, t),
           message="the value return is reachable without passing the false branch of the discriminant test",
           consequence="a step with a negative discriminant is answered (complex/NaN |psi|^2)")
    cmp_ = [c for c in ast.walk(t.test) if isinstance(c, ast.Compare)][0]
    strict = isinstance(cmp_.ops[0], ast.Lt) and any(
        isinstance(c, ast.Call) and isinstance(c.func, ast.Attribute) and c.func.attr == "any" for c in ast.walk(t.test))
    ctx.ob("R02.5", "refusal predicate is any(discriminant < 0): refuses '-', accepts '0' and '+'", strict,
           detail={"test": norm(t.test), "sign_domain": {"-": "refuse", "0": "accept", "+": "accept"}},
           where=f.fq, construct=f"if {norm(t.test)}", loc=loc(f, t),
           message=f"refusal predicate `{norm(t.test)}` is not `any(discriminant < 0)`",
           consequence="a double root (discriminant == 0) is refused although the solution exists, or a negative one accepted")
    # sqrt of the discriminant / the division only after the test
    tested = {n.id for n in ast.walk(cmp_.left) if isinstance(n, ast.Name)}
    early = []
    for n in own_nodes(fn):
        if isinstance(n, ast.Call) and isinstance(n.func, ast.Attribute) and n.func.attr == "sqrt" and \
                any(isinstance(x, ast.Name) and x.id in tested for a in n.args for x in ast.walk(a)):
            st = n
            while not isinstance(st, ast.stmt):
                st = pm[id(st)][0]
            sn = g.node_of(st).id
            if tnode not in dom.get(sn, set()):
                early.append(f"L{st.lineno}: {norm(st)}")
    ctx.ob("R02.5", "sqrt(discriminant) is evaluated only after the sign test", not early,
           detail={"early": early}, where=f.fq, construct="sqrt(discriminant) placement", loc=L,
           message=f"sqrt of the discriminant evaluated before the sign test: {early}",
           consequence="NaNs are produced (or an exception raised) before the refusal decision")
    # R02.6 errstate
    es = [n for n in own_nodes(fn) if isinstance(n, ast.Call) and isinstance(n.func, ast.Attribute)
          and n.func.attr == "errstate"]
    if not es:
        ctx.ob("R02.6", "no errstate promotion at all", True, nontrivial=False, where=f.fq, construct="errstate")
    for e in es:
        kw = {k.arg: (k.value.value if isinstance(k.value, ast.Constant) else None) for k in e.keywords}
        under = kw.get("under", kw.get("all"))
        ok = under != "raise"
        ctx.ob("R02.6", f"{norm(e)}: underflow handling = {under!r}", ok, detail=kw, where=f.fq,
               construct=norm(e), loc=loc(f, e),
               message=f"`{norm(e)}` promotes floating-point underflow to an exception, which the handler turns into a refusal",
               consequence="psi ~ 1e-160 (|psi|^2 = 1e-320 underflows): the update returns None although the root exists; "
                           "the caller exhausts its retries and aborts the run",
               witness={"input": "psi=[1e-160], abs_sq_psi=[1e-320], mu=0, epsilon=1, gamma=10, u=5.79, dt=1e-3"})


def step_inputs(ctx):
    """R02.10 on the traces of update() (pvs/update_trace.py): what each adaptive_euler_step call is handed."""
    from ..update_trace import all_traces
    from ..smallstep import render
    repo = ctx.repo
    fu = repo.func("tdgl.solver.solver", "TDGLSolver.update")
    bad = []
    n = 0
    for t in all_traces(repo):
        sc = t.scenario
        tag = ", ".join(f"{k}={v}" for k, v in sc.items() if k != "max_iterations")
        want_eps = "eps_new" if sc["dynamic_epsilon"] else "self.epsilon"
        for k, ev in enumerate(t.calls("adaptive_euler_step")):
            n += 1
            a = [render(x) for x in ev.args]
            if len(a) < 6:
                raise AnalysisError(f"adaptive_euler_step is called with {len(a)} positional arguments in the model")
            step_, psi_, sq_, mu_, eps_ = a[0], a[1], a[2], a[3], a[4]
            want_psi = "psi" if k == 0 else f"psi#{k - 1}"
            want_mu = "mu" if k == 0 else f"mu#{k - 1}"
            probs = []
            if psi_ != want_psi:
                probs.append(f"psi = {psi_} (expected {want_psi})")
            if mu_ != want_mu:
                probs.append(f"mu = {mu_} (expected {want_mu})")
            if eps_ != want_eps:
                probs.append(f"epsilon = {eps_} (expected {want_eps})")
            if "absolute(psi)" not in sq_ or "#" in sq_:
                probs.append(f"|psi^n|^2 = {sq_[:50]} (expected |psi handed in|^2)")
            if step_ not in ("5", "20"):
                probs.append(f"step = {step_}")
            if probs:
                bad.append(f"[{tag}] solve #{k}: " + "; ".join(probs))
        if t.outcome[0] == "return" and sc["dynamic_epsilon"]:
            from ..update_trace import result_fields
            res = [render(x) for x in (result_fields(t.outcome[1]) or [])]
            if "eps_new" not in res:
                bad.append(f"[{tag}] the epsilon of this step is not among the returned state ({res})")
    if n < 100:
        raise AnalysisError(f"only {n} psi solves in the traces of update()")
    ctx.ob("R02.10", "each psi solve is handed the step, psi, mu, |psi^n|^2 and epsilon of this step", not bad, detail=bad[:4], where=fu.fq,
           construct="inputs of the psi solve", loc=loc(fu, fu.node), message=f"{bad[:2]}",
           consequence="psi' + z|psi'|^2 = w is solved with z, w built from the epsilon (or psi, mu) of another step: with a time-dependent "
                       "disorder parameter every update uses epsilon(r, 0) instead of epsilon(r, t^n)")
