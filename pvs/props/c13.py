"""C13 - screening: self-consistent induced vector potential or failure."""
from __future__ import annotations

import ast

from ..alg import AtomTable, Rat
from ..cfg import build_cfg, guards_of, parent_map
from ..dataflow import assignments
from ..interp import ExtFunc, Interp, ModRef, Obj, Opaque, PyFunc, Unsupported
from ..kernel import KernelError, summarise
from ..specs import SCREENING_LABELS, require_labels
from ..src import AnalysisError, loc, norm, own_nodes

SOLVER = "tdgl.solver.solver"
SCREEN = "tdgl.solver.screening"
TECH = ("loop-nest summarisation of the numba/cupy kernels compared with eq. polyak (1st line) and with each other; "
        "value numbering of the Polyak step; exit discipline of the screening loop of TDGLSolver.update from the conditions that hold "
        "at each exit (else-branches and guard clauses read alike); initial induced potential from the followed Runner arguments")

SITE_COUNT = lambda ps: {f"{ps[0]}.shape[0]", f"{ps[1]}.shape[0]", f"{ps[2]}.shape[0]"}


def kernel_spec(T, ps):
    """A[v0,v1] = sum_v2 J[v2,v1] * area[v2] / |ec[v0] - site[v2]|   (eq. polyak, first line; prefactor is in `area`)."""
    J, area, sites, ec, out = ps
    dx = T.real(f"{ec}[v0,0]") - T.real(f"{sites}[v2,0]")
    dy = T.real(f"{ec}[v0,1]") - T.real(f"{sites}[v2,1]")
    return T.real(f"{J}[v2,v1]") * T.real(f"{area}[v2]") / T.sqrt_of(dx * dx + dy * dy)


def kernel_obligations(ctx, fi, rule, label):
    T = AtomTable()
    fn = fi.node
    ps = [a.arg for a in fn.args.args]
    if len(ps) != 5:
        raise AnalysisError(f"{fi.fq} no longer takes (J_site, site_areas, sites, edge_centers, A_induced)")
    try:
        sm = summarise(T, fn)
    except KernelError as e:
        raise AnalysisError(f"{fi.fq}: {e}")
    spec = kernel_spec(T, ps)
    ok = len(sm.stores) == 1
    st = sm.stores[0] if sm.stores else None
    det = {}
    if ok:
        val = st.value
        ok = st.array == ps[4] and st.index == ("v0", "v1")
        ext = {l.canon: l.extent for l in st.loops}
        inner = [l for l in sm.loops if l.canon == "v2"]
        want_inner = T.app(f"sum[v2<{inner[0].extent}]", [spec]) if inner else None
        ok = ok and want_inner is not None and val == want_inner
        ok = ok and ext.get("v0") == f"{ps[3]}.shape[0]" and ext.get("v1") == f"{ps[0]}.shape[1]" \
            and inner[0].extent in SITE_COUNT(ps) and not sm.problems
        det = {"store": f"{st.array}{list(st.index)} = {str(val)[:300]}", "extents": ext,
               "inner_extent": inner[0].extent if inner else None, "problems": sm.problems}
    ctx.ob(rule, f"{label}: A[i,k] = sum_j J[j,k] area[j] / |r_edge_i - r_site_j| over all i, k, j", ok, detail=det,
           where=fi.fq, construct=f"{label} kernel body", loc=loc(fi, fn),
           message=f"{label} kernel does not compute the documented sum: {det}",
           consequence="the induced vector potential is not the Coulomb-kernel sum of the sheet current (missing area weight, "
                       "wrong distance, transposed index or shortened range)")
    return T, sm, ps


def check(ctx):
    repo = ctx.repo
    docs = require_labels(SCREENING_LABELS)
    ctx.note("specification", {k: v[:160] for k, v in docs.items()})
    ctx.rule("R13.9", "the scales entering the screening prefactor (Device.K0, A0, Bc2, Lambda, coherence_length ...) are recomputed from the "
                      "layer on every access: none of the Device members the solver reads is memoised (the Layer is mutable)", 6)
    ctx.rule("R13.8", "the area weights handed to the kernel carry mu0/(4 pi) K0/A0 xi^2 in 1/length_units (shared with C08 R08.1)", 1)
    ctx.rule("R13.7", "the screening iteration never writes into the arrays it is handed: a stored induced potential stays paired with its currents", 1)
    ctx.rule("R13.1", "numba kernel == eq. polyak line 1 (direct double sum with area weights)", 1)
    ctx.rule("R13.2", "cupy kernel == the same sum (accelerated == direct)", 1)
    ctx.rule("R13.3", "both call sites pass (J_site, weighted areas, xi*sites, xi*edge_centers, output) in parameter order; J is the total current", 3)
    ctx.rule("R13.4", "Polyak step: dA = K - A_prev, v' = (1-beta) v + alpha dA, A' = A_prev + v', "
                      "error = max(|dA_i| / max(|A'_i|, 1e-20))", 3)
    ctx.rule("R13.5", "accepted steps are converged steps: loop exits are {error < tolerance, raise on iteration bound, "
                      "not include_screening}; no exit by exhaustion; initial error is +inf", 5)
    ctx.rule("R13.6", "screening off: induced potential is passed through unchanged and starts as zeros", 2)
    fnum = repo.func(SCREEN, "get_A_induced_numba")
    kernel_obligations(ctx, fnum, "R13.1", "numba")
    fcu = repo.module(SCREEN).functions.get("get_A_induced_cupy")
    if fcu is None:
        raise AnalysisError("cupy kernel get_A_induced_cupy not found")
    kernel_obligations(ctx, fcu, "R13.2", "cupy")

    fg = repo.func(SOLVER, "TDGLSolver.get_induced_vector_potential")
    call_sites(ctx, fg)
    polyak(ctx, fg)
    loop_discipline(ctx)
    scales_not_memoised(ctx, "R13.9")
    from ..report import Shared
    from . import c08
    c08.check(Shared(ctx, {"R08.1": "R13.8"}, only=lambda inst: inst.startswith("screening weights") or inst.startswith("dimension typing"),
                     consequence="the stored induced potential is (mu0/4pi) x the Biot-Savart sum of the stored currents only in one unit system: "
                                 "for a device stated in nm it is 1000 times too strong, and every step is still accepted"))
    from ..effects import input_purity
    input_purity(ctx, "R13.7", modules=("tdgl.solver.screening",), functions=("TDGLSolver.get_induced_vector_potential", "TDGLSolver.update"), min_functions=4, consequence="the induced vector potential stored in a finished Solution (handed in as seed) is overwritten by the next run's "
                               "iterate: the stored potential no longer reproduces the Biot-Savart sum of the stored currents")
    ctx.assume("prefactor mu0/(4 pi) K0/A0 and the xi^2 area scaling are inside `self.areas` (checked with exact unit factors by C08 R08.1)")
    ctx.decline("convergence of the fixed-point iteration; 'stored potential reproduces the sum within a modest multiple of the "
                "tolerance' (needs a contraction bound); the site-averaging convention of get_quantity_on_site")


def call_sites(ctx, fg):
    fn = fg.node
    asg = assignments(fn)

    from ..dataflow import expanded_text
    want = ["self.device.mesh.get_quantity_on_site(current_density, use_cupy=self.use_cupy)", "self.areas", "self.sites",
            "self.edge_centers", "self.new_A_induced"]
    n = 0
    for c in own_nodes(fn):
        if not isinstance(c, ast.Call):
            continue
        fname = getattr(c.func, "id", "")
        if fname == "get_A_induced_numba":
            args = c.args
        elif fname == "get_A_induced_cupy":
            args = c.args[2].elts if len(c.args) == 3 and isinstance(c.args[2], ast.Tuple) else []
        else:
            continue
        n += 1
        got = [expanded_text(fn, a) for a in args]
        ctx.ob("R13.3", f"{fname}{tuple(norm(a) for a in args)}", got == want, detail={"resolved": got, "expected": want},
               where=fg.fq, construct=f"{fname} arguments", loc=loc(fg, c),
               message=f"{fname} is called with {got}", consequence="areas/sites/edge centres are swapped: the kernel sums the wrong quantity")
    if n < 2:
        raise AnalysisError("expected a numba and a cupy kernel call in get_induced_vector_potential")
    # the current handed to the screening step is the total (super + normal) current of the same iteration
    repo = ctx.repo
    fu = repo.func(SOLVER, "TDGLSolver.update")
    calls = [c for c in own_nodes(fu.node) if isinstance(c, ast.Call) and norm(c.func) == "self.get_induced_vector_potential"]
    ok = len(calls) == 1 and calls[0].args and isinstance(calls[0].args[0], ast.BinOp) and isinstance(calls[0].args[0].op, ast.Add) \
        and {norm(calls[0].args[0].left), norm(calls[0].args[0].right)} == {"supercurrent", "normal_current"}
    obs = [x for x in own_nodes(fu.node) if isinstance(x, ast.Assign) and isinstance(x.value, ast.Call) and norm(x.value.func) == "self.solve_for_observables"]
    ok = ok and len(obs) == 1 and [norm(t) for t in obs[0].targets[0].elts] == ["mu", "supercurrent", "normal_current"] \
        and obs[0].lineno < calls[0].lineno
    ctx.ob("R13.3", "the screening step receives supercurrent + normal_current of the current iteration", ok,
           detail=[norm(c)[:120] for c in calls], where=fu.fq, construct="current passed to get_induced_vector_potential",
           loc=loc(fu, calls[0]) if calls else "", message="the induced potential is computed from something else than the total sheet current",
           consequence="the stored induced potential does not correspond to the stored currents (normal current ignored, or stale currents)")


def polyak(ctx, fg):
    repo = ctx.repo
    T = AtomTable()
    ip = Interp(repo, T)
    K = T.real("K")           # kernel output (new_A_induced)
    Aprev = T.real("A_prev")
    v = T.real("v")
    alpha, beta = T.real("alpha"), T.real("beta")
    opts = Obj(None, {"screening_step_size": alpha, "screening_step_drag": beta}, label="options")
    mesh = Obj(None, {"get_quantity_on_site": PyFunc(lambda *a, **k: T.real("J_site"))}, label="mesh")
    me = Obj(repo.cls(SOLVER, "TDGLSolver"), {
        "xp": ModRef("numpy"), "use_cupy": False, "options": opts, "device": Obj(None, {"mesh": mesh}, label="device"),
        "areas": T.real("areas"), "sites": T.real("sites"), "edge_centers": T.real("ec"), "new_A_induced": K,
        "num_edges": 7}, label="solver")
    ip.func_overrides[f"{SCREEN}:get_A_induced_numba"] = lambda I, a, k: None
    vals, vel = [Aprev], [v]
    try:
        ret = ip.call_function(fg, [me, T.real("J"), vals, vel], {})
    except Unsupported as e:
        raise AnalysisError(f"get_induced_vector_potential outside the supported fragment: {e}")
    A_new, err = ret
    dA = K - Aprev
    v_new = (1 - beta) * v + alpha * dA
    ctx.ob("R13.4", "velocity' == (1 - drag) * velocity + step_size * (K - A_prev)", len(vel) >= 2 and vel[-1] == v_new,
           detail=str(vel[-1]), where=fg.fq, construct="velocity update", loc=loc(fg, fg.node),
           message=f"velocity update is {vel[-1]}", consequence="the heavy-ball iteration uses swapped/incorrect step and drag")
    ctx.ob("R13.4", "A' == A_prev + velocity'", isinstance(A_new, Rat) and A_new == Aprev + v_new and vals[-1] == A_new,
           detail=str(A_new), where=fg.fq, construct="A_induced update", loc=loc(fg, fg.node),
           message=f"new induced potential is {A_new}", consequence="the iterate is not Polyak's update of the previous iterate")
    want_err = T.app("max", [T.app("rownorm", [dA]) / T.app("max", [T.app("rownorm", [Aprev + v_new]), Rat.const(T, ip.e_Constant(ast.Constant(1e-20), None))])])
    ctx.ob("R13.4", "error == max_i |dA_i| / max(|A'_i|, 1e-20)", isinstance(err, Rat) and err == want_err,
           detail={"got": str(err), "want": str(want_err)}, where=fg.fq, construct="screening_error", loc=loc(fg, fg.node),
           message=f"relative error is computed as {err}",
           consequence="the convergence test measures something else than the relative mismatch between iterate and kernel sum")


def loop_discipline(ctx):
    repo = ctx.repo
    fu = repo.func(SOLVER, "TDGLSolver.update")
    fn = fu.node
    pm = parent_map(fn)
    loops = [n for n in own_nodes(fn) if isinstance(n, (ast.For, ast.While)) and any(
        isinstance(c, ast.Call) and norm(c.func) == "self.get_induced_vector_potential" for c in ast.walk(n))]
    if len(loops) != 1:
        raise AnalysisError("TDGLSolver.update no longer has exactly one loop around get_induced_vector_potential")
    lp = loops[0]
    exits = [n for n in ast.walk(lp) if isinstance(n, (ast.Break, ast.Return, ast.Raise))]
    infinite = (isinstance(lp, ast.For) and norm(lp.iter) in ("itertools.count()", "count()")) or \
               (isinstance(lp, ast.While) and isinstance(lp.test, ast.Constant) and lp.test.value is True)
    ctx.ob("R13.5", "the screening loop cannot run out of iterations silently (unbounded iterator; the bound is enforced by raising)",
           infinite, detail={"loop": norm(lp).split("\n")[0]}, where=fu.fq, construct="screening loop iterator", loc=loc(fu, lp),
           message=f"`{norm(lp).splitlines()[0]}` ends by exhaustion: after the last iteration control falls out of the loop without "
                   f"the convergence test having succeeded",
           consequence="a step whose screening iteration did not converge is accepted and recorded instead of raising",
           witness={"input": "include_screening=True with max_iterations_per_step smaller than the iterations needed"})
    err_names = set()
    for n in ast.walk(lp):
        if isinstance(n, ast.Assign) and isinstance(n.value, ast.Call) and "get_induced_vector_potential" in norm(n.value.func):
            t = n.targets[0]
            if isinstance(t, ast.Tuple) and len(t.elts) == 2 and isinstance(t.elts[1], ast.Name):
                err_names.add(t.elts[1].id)
    if not err_names:
        raise AnalysisError("the screening error returned by get_induced_vector_potential is no longer bound in the loop")
    bad = []
    kinds = {"converged": 0, "bound": 0, "off": 0}
    from ..dataflow import conditions_at
    lpvar = lp.target.id if isinstance(getattr(lp, "target", None), ast.Name) else None
    for e in exits:
        # the enclosing tests of the exit, each as the condition that holds there (`else` of `if c` and `if not c` read alike)
        cs = conditions_at(fn, e, pm, within=lp, normal=False, stop=tuple(err_names) + ((lpvar,) if lpvar else ()))
        txt = [norm(c) for c in cs]
        c = cs[0] if len(cs) == 1 else None
        cmp1 = isinstance(c, ast.Compare) and len(c.ops) == 1
        if isinstance(e, ast.Break) and cmp1 and isinstance(c.ops[0], (ast.Lt, ast.LtE)) and isinstance(c.left, ast.Name) \
                and c.left.id in err_names and "screening_tolerance" in norm(c.comparators[0]):
            kinds["converged"] += 1
        elif isinstance(e, ast.Raise) and cmp1 and lpvar is not None and isinstance(c.ops[0], ast.Lt) and norm(c.comparators[0]) == lpvar \
                and "max_iterations_per_step" in norm(c.left):      # canonical: `it > max` reads `max < it`
            kinds["bound"] += 1
        elif isinstance(e, ast.Break) and c is not None and isinstance(c, ast.UnaryOp) and isinstance(c.op, ast.Not) \
                and norm(c.operand).endswith("include_screening"):
            kinds["off"] += 1
        else:
            bad.append(f"L{e.lineno}: {norm(e)[:60]} under {txt}")
    ctx.ob("R13.5", "exits of the screening loop are {error < tolerance, raise on iteration bound, screening disabled}",
           not bad and kinds["converged"] == 1 and kinds["bound"] == 1 and kinds["off"] == 1,
           detail={"kinds": kinds, "other_exits": bad}, where=fu.fq, construct="screening loop exits", loc=loc(fu, lp),
           message=f"the screening loop can be left through {bad} (exits found: {kinds})",
           consequence="a step is accepted with an unconverged induced vector potential (or non-convergence does not raise)")
    # initial error is +inf and is assigned before the loop
    asg = assignments(fn)
    inits = [(s, v) for nm in err_names for s, v in asg.get(nm, []) if v is not None and not any(x is s for x in ast.walk(lp))]
    ok = len(inits) == 1 and norm(inits[0][1]) in ("np.inf", "float('inf')", "math.inf", "numpy.inf")
    ctx.ob("R13.5", "the error starts at +inf, so iteration 0 cannot exit as converged", ok,
           detail=[norm(v) for _, v in inits], where=fu.fq, construct="initial screening_error",
           loc=loc(fu, inits[0][0]) if inits else "", message=f"initial screening error is {[norm(v) for _, v in inits]}",
           consequence="the very first iteration is accepted without evaluating the induced potential")
    # the convergence test precedes the work of each iteration and the error is reassigned every screening iteration
    body = lp.body
    first_if = body[0] if body and isinstance(body[0], ast.If) else None
    ok = first_if is not None and any(isinstance(x, ast.Break) for x in first_if.body)
    ctx.ob("R13.5", "the convergence test is the first statement of each iteration (tests the error of the last evaluation)",
           ok, where=fu.fq, construct="position of the convergence test", loc=loc(fu, lp),
           message="the convergence test is not evaluated on the most recent error before starting a new iteration",
           consequence="the returned psi/currents belong to a different iteration than the one whose error was tested")
    reass = [n for n in ast.walk(lp) if isinstance(n, ast.Assign) and any(
        isinstance(x, ast.Name) and x.id in err_names and isinstance(x.ctx, ast.Store) for t in n.targets for x in ast.walk(t))]
    gtxt = [[norm(c) for c in conditions_at(fn, r, pm, within=lp)] for r in reass]
    ok = len(reass) == 1 and any(t.endswith(".include_screening") and not t.startswith("not ") for t in gtxt[0])
    ctx.ob("R13.5", "the tested error is the one returned by the last get_induced_vector_potential (one assignment, under include_screening)",
           ok, detail=gtxt, where=fu.fq, construct="screening_error assignment", loc=loc(fu, reass[0]) if reass else "",
           message=f"screening error is assigned {len(reass)} times under {gtxt}",
           consequence="the tolerance test reads a stale or unrelated quantity")
    # R13.6
    from .c10 import update_roles
    a_defs = asg.get(update_roles(fn)[0], [])
    outside = [(s, v) for s, v in a_defs if not any(x is s for x in ast.walk(lp))]
    inside = [(s, v) for s, v in a_defs if any(x is s for x in ast.walk(lp))]
    ok = len(outside) == 1 and norm(outside[0][1]) == "induced_vector_potential" and all(
        any(norm(c).endswith("include_screening") and not norm(c).startswith("not ") for c in conditions_at(fn, s, pm, within=lp))
        for s, _ in inside)
    ctx.ob("R13.6", "with screening off A_induced reaches the result unchanged from the input", ok,
           detail={"outside_loop": [norm(s) for s, _ in outside], "inside_loop": [norm(s)[:80] for s, _ in inside]},
           where=fu.fq, construct="A_induced definitions", loc=loc(fu, fn),
           message="A_induced is modified although include_screening is false",
           consequence="a non-zero induced vector potential appears with screening disabled")
    fs = repo.func(SOLVER, "TDGLSolver.solve")
    import re
    from ..tables import runner_arguments, SEED
    a_name = "induced_vector_potential"
    init = sorted({t["values"][t["names"].index(a_name)] if a_name in t["names"] else "<missing>" for sc, t in runner_arguments(repo)})
    ok = len(init) == 2 and any(re.fullmatch(r"(np|numpy|xp)\.zeros\(\(.+, 2\)\)", v.replace("shape=", "")) for v in init) \
        and f"{SEED}.tdgl_data.{a_name}" in init
    ctx.ob("R13.6", "the initial induced potential is zeros((num_edges, 2)) (or the seed's)", ok, detail=init, where=fs.fq,
           construct="initial induced_vector_potential", loc=loc(fs, fs.node), message=f"initial induced potential: {init}",
           consequence="the run starts with a spurious induced vector potential")


def _dict_items(fn, name):
    out = []
    for n in own_nodes(fn):
        if isinstance(n, ast.Assign) and any(isinstance(t, ast.Name) and (name is None or t.id == name) for t in n.targets) \
                and isinstance(n.value, ast.Dict):
            for k, v in zip(n.value.keys, n.value.values):
                if isinstance(k, ast.Constant):
                    out.append((k.value, v))
    return out


def scales_not_memoised(ctx, rule):
    from ..effects import _memoised_members
    repo = ctx.repo
    D = repo.cls("tdgl.device.device", "Device")
    fi = repo.func(SOLVER, "TDGLSolver.__init__")
    getters = {d.name: d for d in D.node.body if isinstance(d, ast.FunctionDef) and any(norm(x) == "property" for x in d.decorator_list)}
    plain = {d.name: d for d in D.node.body if isinstance(d, ast.FunctionDef)}
    # members of Device the solver constructor reads (through the parameter `device` or self.device), closed under what they read on self
    used, todo = set(), []
    for x in own_nodes(fi.node):
        if isinstance(x, ast.Attribute) and norm(x.value) in ("device", "self.device") and x.attr in plain:
            todo.append(x.attr)
    while todo:
        m = todo.pop()
        if m in used:
            continue
        used.add(m)
        for x in ast.walk(plain[m]):
            if isinstance(x, ast.Attribute) and isinstance(x.value, ast.Name) and x.value.id == "self" and x.attr in plain:
                todo.append(x.attr)
    memo = {name: (kind, cache) for name, kind, cache, _ in _memoised_members(D)}
    if len(used) < 6:
        raise AnalysisError(f"the solver constructor reads only {sorted(used)} on the device")
    for m in sorted(used):
        f = D.methods.get(m)
        ctx.ob(rule, f"Device.{m} (read by the solver) is computed from the layer on every access", m not in memo, detail=memo.get(m),
               where=f.fq if f else D.fq, construct=f"Device.{m} memoised", loc=loc(f, f.node) if f else "",
               message=f"Device.{m} is memoised ({memo.get(m)}) although it is derived from the mutable Layer (london_lambda, thickness, coherence_length can "
                       f"be assigned at any time) and nothing invalidates it",
               consequence="a penetration-depth sweep that sets device.layer.london_lambda and solves again weights the screening kernel with the first "
                           "run's Lambda: every step converges, but the stored potential is Lambda_new/Lambda_first times the Biot-Savart sum of the stored currents")
