"""C13 - screening: self-consistent induced vector potential or failure."""
from __future__ import annotations

import ast

from ..alg import AtomTable, Rat
from ..cfg import build_cfg, guards_of, parent_map
from ..dataflow import assignments
from ..interp import ExtFunc, Interp, ModRef, Obj, Opaque, PyFunc, Unsupported
from ..kernel import KernelError, summarise
from ..specs import SCREENING_LABELS, require_labels
from ..src import AnalysisError, loc, norm, own_nodes

SOLVER = "tdgl.solver.solver"
SCREEN = "tdgl.solver.screening"
TECH = ("loop-nest summarisation of the numba/cupy kernels compared with eq. polyak (1st line) and with each other; "
        "value numbering of the Polyak step; exit discipline of the screening loop of TDGLSolver.update from the conditions that hold "
        "at each exit (else-branches and guard clauses read alike); initial induced potential from the followed Runner arguments")

SITE_COUNT = lambda ps: {f"{ps[0]}.shape[0]", f"{ps[1]}.shape[0]", f"{ps[2]}.shape[0]"}


def kernel_spec(T, ps, k="v1", j="v2"):
    """A[v0,k] = sum_j J[j,k] * area[j] / |ec[v0] - site[j]|   (eq. polyak, first line; prefactor is in `area`)."""
    J, area, sites, ec, out = ps
    dx = T.real(f"{ec}[v0,0]") - T.real(f"{sites}[{j},0]")
    dy = T.real(f"{ec}[v0,1]") - T.real(f"{sites}[{j},1]")
    return T.real(f"{J}[{j},{k}]") * T.real(f"{area}[{j}]") / T.sqrt_of(dx * dx + dy * dy)


def kernel_obligations(ctx, fi, rule, label):
    T = AtomTable()
    fn = fi.node
    ps = [a.arg for a in fn.args.args]
    if len(ps) != 5:
        raise AnalysisError(f"{fi.fq} no longer takes (J_site, site_areas, sites, edge_centers, A_induced)")
    try:
        sm = summarise(T, fn)
    except KernelError as e:
        raise AnalysisError(f"{fi.fq}: {e}")
    from ..kernel import output_coverage
    form = output_coverage(sm, fn, ps)
    ok = form is not None
    det = {"form": form, "stores": [f"{st.array}{list(st.index)}" for st in sm.stores], "problems": sm.problems}
    if ok:
        # "loop": out[v0, v1] = sum_v2 ...; "unrolled": out[v0, 0] and out[v0, 1], each summed over its own site loop (v1)
        jname = "v2" if form == "loop" else "v1"
        for st in sm.stores:
            # the site loop that feeds this store: the last one that closed before it
            cands = [l for l in sm.loops if l.canon == jname and l.node.lineno <= st.node.lineno]
            if not cands:
                ok = False
                break
            lj = cands[-1]
            spec = kernel_spec(T, ps, k=st.index[1], j=jname)
            want = T.app(f"sum[{jname}<{lj.extent}]", [spec])
            ok = ok and st.value == want and lj.extent in SITE_COUNT(ps)
            det[f"{st.array}{list(st.index)}"] = str(st.value)[:300]
            det.setdefault("inner_extents", []).append(lj.extent)
        ok = ok and not sm.problems
    ctx.ob(rule, f"{label}: A[i,k] = sum_j J[j,k] area[j] / |r_edge_i - r_site_j| over all i, k, j", ok, detail=det,
           where=fi.fq, construct=f"{label} kernel body", loc=loc(fi, fn),
           message=f"{label} kernel does not compute the documented sum: {det}",
           consequence="the induced vector potential is not the Coulomb-kernel sum of the sheet current (missing area weight, "
                       "wrong distance, transposed index or shortened range)")
    return T, sm, ps


def check(ctx):
    repo = ctx.repo
    docs = require_labels(SCREENING_LABELS)
    ctx.note("specification", {k: v[:160] for k, v in docs.items()})
    ctx.rule("R13.10", "the edge centres at which the induced potential is evaluated are those of the current sites: a Mesh never pairs new site "
                       "coordinates with the EdgeMesh of old ones (shared with C07 R07.10)", 1)
    from .c07 import mesh_pairs_sites_and_edges
    mesh_pairs_sites_and_edges(ctx, "R13.10", "the screening kernel sums K a / |r_i - r_j| between sites at their new position and edge centres at the old one (e.g. "
                                              "after an in-place translation of a meshed device): the iteration converges on that far field, every step is accepted, "
                                              "and the stored potential differs from the sum over the stored currents by order one")
    ctx.rule("R13.9", "the scales entering the screening prefactor (Device.K0, A0, Bc2, Lambda, coherence_length ...) are recomputed from the "
                      "layer on every access: none of the Device members the solver reads is memoised (the Layer is mutable)", 6)
    ctx.rule("R13.8", "the area weights handed to the kernel carry mu0/(4 pi) K0/A0 xi^2 in 1/length_units (shared with C08 R08.1)", 1)
    ctx.rule("R13.7", "the screening iteration never writes into the arrays it is handed: a stored induced potential stays paired with its currents", 1)
    ctx.rule("R13.1", "numba kernel == eq. polyak line 1 (direct double sum with area weights)", 1)
    ctx.rule("R13.2", "cupy kernel == the same sum (accelerated == direct)", 1)
    ctx.rule("R13.3", "both call sites pass (J_site, weighted areas, xi*sites, xi*edge_centers, output) in parameter order; J is the total current", 3)
    ctx.rule("R13.4", "Polyak step: dA = K - A_prev, v' = (1-beta) v + alpha dA, A' = A_prev + v', "
                      "error = max(|dA_i| / max(|A'_i|, 1e-20)); second and third iteration of one step continue from the latest values", 5)
    ctx.rule("R13.5", "accepted steps are converged steps: loop exits are {error < tolerance, raise on iteration bound, "
                      "not include_screening}; no exit by exhaustion; initial error is +inf (predicates on the 180 traces of update())", 3)
    ctx.rule("R13.6", "screening off: induced potential is passed through unchanged and starts as zeros", 2)
    fnum = repo.func(SCREEN, "get_A_induced_numba")
    kernel_obligations(ctx, fnum, "R13.1", "numba")
    fcu = repo.module(SCREEN).functions.get("get_A_induced_cupy")
    if fcu is None:
        raise AnalysisError("cupy kernel get_A_induced_cupy not found")
    kernel_obligations(ctx, fcu, "R13.2", "cupy")

    fg = repo.func(SOLVER, "TDGLSolver.get_induced_vector_potential")
    call_sites(ctx, fg)
    polyak(ctx, fg)
    loop_discipline(ctx)
    scales_not_memoised(ctx, "R13.9")
    from ..report import Shared
    from . import c08
    c08.check(Shared(ctx, {"R08.1": "R13.8"}, only=lambda inst: inst.startswith("screening weights") or inst.startswith("dimension typing") or "converts into the user's units" in inst,
                     consequence="the stored induced potential is (mu0/4pi) x the Biot-Savart sum of the stored currents only in one unit system: "
                                 "for a device stated in nm it is 1000 times too strong, and every step is still accepted"))
    from ..effects import input_purity
    input_purity(ctx, "R13.7", modules=("tdgl.solver.screening",), functions=("TDGLSolver.get_induced_vector_potential", "TDGLSolver.update"), min_functions=4, consequence="the induced vector potential stored in a finished Solution (handed in as seed) is overwritten by the next run's "
                               "iterate: the stored potential no longer reproduces the Biot-Savart sum of the stored currents")
    ctx.assume("prefactor mu0/(4 pi) K0/A0 and the xi^2 area scaling are inside `self.areas` (checked with exact unit factors by C08 R08.1)")
    ctx.decline("convergence of the fixed-point iteration; 'stored potential reproduces the sum within a modest multiple of the "
                "tolerance' (needs a contraction bound); the site-averaging convention of get_quantity_on_site")


def call_sites(ctx, fg):
    fn = fg.node
    asg = assignments(fn)

    from ..dataflow import expanded_text
    want = ["self.device.mesh.get_quantity_on_site(current_density, use_cupy=self.use_cupy)", "self.areas", "self.sites",
            "self.edge_centers", "self.new_A_induced"]
    n = 0
    for c in own_nodes(fn):
        if not isinstance(c, ast.Call):
            continue
        fname = getattr(c.func, "id", "")
        from ..dataflow import expand

        def _tuple(e):
            """the elements of an argument tuple, written in place or bound to a local first"""
            e2 = expand(fn, e) if isinstance(e, ast.Name) else e
            return list(e2.elts) if isinstance(e2, (ast.Tuple, ast.List)) else None
        if fname == "get_A_induced_numba":
            args = c.args
            if len(args) == 1 and isinstance(args[0], ast.Starred) and _tuple(args[0].value) is not None:
                args = _tuple(args[0].value)
        elif fname == "get_A_induced_cupy":
            args = (_tuple(c.args[2]) or []) if len(c.args) == 3 else []
        else:
            continue
        n += 1
        got = [expanded_text(fn, a) for a in args]
        ctx.ob("R13.3", f"{fname}{tuple(norm(a) for a in args)}", got == want, detail={"resolved": got, "expected": want},
               where=fg.fq, construct=f"{fname} arguments", loc=loc(fg, c),
               message=f"{fname} is called with {got}", consequence="areas/sites/edge centres are swapped: the kernel sums the wrong quantity")
    if n < 2:
        raise AnalysisError("expected a numba and a cupy kernel call in get_induced_vector_potential")



def polyak(ctx, fg):
    repo = ctx.repo
    T = AtomTable()
    ip = Interp(repo, T)
    K = T.real("K")           # kernel output (new_A_induced)
    Aprev = T.real("A_prev")
    v = T.real("v")
    alpha, beta = T.real("alpha"), T.real("beta")
    opts = Obj(None, {"screening_step_size": alpha, "screening_step_drag": beta}, label="options")
    mesh = Obj(None, {"get_quantity_on_site": PyFunc(lambda *a, **k: T.real("J_site"))}, label="mesh")
    me = Obj(repo.cls(SOLVER, "TDGLSolver"), {
        "xp": ModRef("numpy"), "use_cupy": False, "options": opts, "device": Obj(None, {"mesh": mesh}, label="device"),
        "areas": T.real("areas"), "sites": T.real("sites"), "edge_centers": T.real("ec"), "new_A_induced": K,
        "num_edges": 7}, label="solver")
    ip.func_overrides[f"{SCREEN}:get_A_induced_numba"] = lambda I, a, k: None
    vals, vel = [Aprev], [v]
    try:
        ret = ip.call_function(fg, [me, T.real("J"), vals, vel], {})
    except Unsupported as e:
        raise AnalysisError(f"get_induced_vector_potential outside the supported fragment: {e}")
    A_new, err = ret
    dA = K - Aprev
    v_new = (1 - beta) * v + alpha * dA
    ctx.ob("R13.4", "velocity' == (1 - drag) * velocity + step_size * (K - A_prev)", len(vel) >= 1 and vel[-1] == v_new,
           detail=str(vel[-1]), where=fg.fq, construct="velocity update", loc=loc(fg, fg.node),
           message=f"velocity update is {vel[-1]}", consequence="the heavy-ball iteration uses swapped/incorrect step and drag")
    ctx.ob("R13.4", "A' == A_prev + velocity'", isinstance(A_new, Rat) and A_new == Aprev + v_new and vals[-1] == A_new,
           detail=str(A_new), where=fg.fq, construct="A_induced update", loc=loc(fg, fg.node),
           message=f"new induced potential is {A_new}", consequence="the iterate is not Polyak's update of the previous iterate")
    want_err = T.app("max", [T.app("rownorm", [dA]) / T.app("max", [T.app("rownorm", [Aprev + v_new]), Rat.const(T, ip.e_Constant(ast.Constant(1e-20), None))])])
    ctx.ob("R13.4", "error == max_i |dA_i| / max(|A'_i|, 1e-20)", isinstance(err, Rat) and err == want_err,
           detail={"got": str(err), "want": str(want_err)}, where=fg.fq, construct="screening_error", loc=loc(fg, fg.node),
           message=f"relative error is computed as {err}",
           consequence="the convergence test measures something else than the relative mismatch between iterate and kernel sum")


    # the same function called again with the lists as the previous call left them (a second and a third screening iteration of
    # one step): every call must continue from the *latest* iterate and velocity, and keep the lists bounded
    A_last, v_last = A_new, v_new
    for it in (2, 3):
        Kn = T.real(f"K{it}")
        me.attrs["new_A_induced"] = Kn
        try:
            A_n, _ = ip.call_function(fg, [me, T.real(f"J{it}"), vals, vel], {})
        except Unsupported as e:
            raise AnalysisError(f"get_induced_vector_potential (iteration {it}) outside the supported fragment: {e}")
        v_want = (1 - beta) * v_last + alpha * (Kn - A_last)
        ok = isinstance(A_n, Rat) and isinstance(v_want, Rat) and A_n == A_last + v_want and len(vel) >= 1 and vel[-1] == v_want and vals[-1] == A_n \
            and len(vals) <= 3 and len(vel) <= 3
        ctx.ob("R13.4", f"iteration {it} of one step continues from the latest iterate and velocity; the lists stay bounded", ok,
               detail={"A": str(A_n)[:200], "want": str(A_last + v_want)[:200], "len(A_induced_vals)": len(vals), "len(velocity)": len(vel)},
               where=fg.fq, construct=f"Polyak iteration {it}", loc=loc(fg, fg.node),
               message=f"screening iteration {it} gives A = {str(A_n)[:160]}, expected {str(A_last + v_want)[:160]} (lists of length {len(vals)}, {len(vel)})",
               consequence="from the second screening iteration of a step on, the heavy-ball update uses a stale velocity or iterate (an index into the running lists "
                           "that is only right while they hold two entries): the iteration converges to something else, or not at all")
        A_last, v_last = A_n, v_want


def loop_discipline(ctx):
    """R13.3 / R13.5 / R13.6 on the traces of update() (pvs/update_trace.py): what the screening iteration evaluates, when it
    stops, what it returns - for convergence at the first, second and third evaluation, for non-convergence within the bound
    and with screening off - however the loop is written."""
    import re
    from ..update_trace import all_traces
    from ..smallstep import Opaque as SO, render
    repo = ctx.repo
    fu = repo.func(SOLVER, "TDGLSolver.update")

    def terms(v):
        if isinstance(v, SO) and v.parts and v.parts[0] == "Add":
            return terms(v.parts[1]) + terms(v.parts[2])
        return [render(v)]
    bad_arg, bad_exit, bad_ret, bad_off, silent = [], [], [], [], []
    n = 0
    for t in all_traces(repo):
        sc = t.scenario
        tag = ", ".join(f"{k}={v}" for k, v in sc.items() if k != "max_iterations")
        eulers, evals = t.calls("adaptive_euler_step"), t.calls("get_induced_vector_potential")
        n += 1
        for k, ev in enumerate(evals):
            cur = sorted(terms(ev.args[0])) if ev.args else None
            if cur != [f"Jn#{k}", f"Js#{k}"]:
                bad_arg.append(f"[{tag}] evaluation #{k} of the induced potential is handed {cur}")
        res = None
        if t.outcome[0] == "return":
            from ..update_trace import result_fields
            v = t.outcome[1]
            rf = result_fields(v)
            if rf is None:
                raise AnalysisError(f"update() does not return SolverResult(...) in the model ({render(v)[:60]})")
            res = [render(x) for x in rf]
        if not sc["screening"]:
            if t.outcome[0] != "return" or len(eulers) != 1 or evals:
                bad_off.append(f"[{tag}] {len(eulers)} psi updates, {len(evals)} evaluations of the induced potential, outcome {t.outcome[0]}")
            elif "induced_vector_potential" not in res:
                bad_off.append(f"[{tag}] returns {res}: the induced potential handed in does not reach the result")
            continue
        K = sc["converges_at"]
        if K is None:
            if t.outcome[0] != "raise":
                silent.append(f"[{tag}] returns {res} although no evaluation was below the tolerance")
            continue
        if t.outcome[0] != "return":
            bad_exit.append(f"[{tag}] raises {t.outcome[1]} although evaluation #{K - 1} is below the tolerance")
            continue
        if len(eulers) != K or len(evals) != K:
            bad_exit.append(f"[{tag}] {len(eulers)} psi updates and {len(evals)} evaluations; the error drops below the tolerance at evaluation #{K - 1}")
            continue
        want = [f"psi#{K - 1}", f"mu#{K - 1}", f"Js#{K - 1}", f"Jn#{K - 1}", f"A#{K - 1}"]
        if res[1:6] != want:
            bad_ret.append(f"[{tag}] returns {res[1:6]}, the converged iteration produced {want}")
    ctx.note("update_trace_scenarios", n)
    ctx.ob("R13.3", "the induced potential is evaluated from the total sheet current of the same iteration (supercurrent + normal current)",
           not bad_arg, detail=bad_arg[:4], where=fu.fq, construct="argument of get_induced_vector_potential", loc=loc(fu, fu.node),
           message=f"the induced potential is computed from something else than the total sheet current: {bad_arg[:1]}",
           consequence="the screening field misses the normal (or the super-) current")
    ctx.ob("R13.5", "the screening loop cannot run out of iterations silently (the bound is enforced by raising)", not silent, detail=silent[:4],
           where=fu.fq, construct="screening loop iterator", loc=loc(fu, fu.node),
           message=f"update() ends without the convergence test having succeeded: {silent[:1]}",
           consequence="a step whose screening iteration did not converge is accepted and recorded instead of raising",
           witness={"input": "include_screening=True with max_iterations_per_step smaller than the iterations needed"})
    ctx.ob("R13.5", "exits of the screening loop are {error < tolerance, raise on iteration bound, screening disabled}: the loop stops at the "
                    "first evaluation whose error is below the tolerance, never before the first evaluation", not bad_exit,
           detail=bad_exit[:4], where=fu.fq, construct="screening loop exits", loc=loc(fu, fu.node),
           message=f"the screening loop stops elsewhere: {bad_exit[:1]}",
           consequence="a step is accepted with an unconverged induced vector potential (or non-convergence does not raise)")
    ctx.ob("R13.5", "the state returned is the one of the converged iteration (psi, mu, currents and induced potential of the last evaluation)",
           not bad_ret, detail=bad_ret[:4], where=fu.fq, construct="result of the screening loop", loc=loc(fu, fu.node),
           message=f"{bad_ret[:1]}", consequence="the returned psi/currents belong to a different iteration than the one whose error was tested")
    ctx.ob("R13.6", "with screening off A_induced reaches the result unchanged from the input (one psi update, no evaluation)", not bad_off,
           detail=bad_off[:4], where=fu.fq, construct="A_induced definitions", loc=loc(fu, fu.node),
           message=f"A_induced is modified although include_screening is false: {bad_off[:1]}",
           consequence="a non-zero induced vector potential appears with screening disabled")
    fs = repo.func(SOLVER, "TDGLSolver.solve")
    from ..tables import runner_arguments, SEED
    a_name = "induced_vector_potential"
    init = sorted({t["values"][t["names"].index(a_name)] if a_name in t["names"] else "<missing>" for sc, t in runner_arguments(repo)})
    ok = len(init) == 2 and any(re.fullmatch(r"(np|numpy|xp)\.zeros\(\(.+, 2\)\)", v.replace("shape=", "")) for v in init) \
        and f"{SEED}.tdgl_data.{a_name}" in init
    ctx.ob("R13.6", "the initial induced potential is zeros((num_edges, 2)) (or the seed's)", ok, detail=init, where=fs.fq,
           construct="initial induced_vector_potential", loc=loc(fs, fs.node), message=f"initial induced potential: {init}",
           consequence="the run starts with a spurious induced vector potential")


def _dict_items(fn, name):
    out = []
    for n in own_nodes(fn):
        if isinstance(n, ast.Assign) and any(isinstance(t, ast.Name) and (name is None or t.id == name) for t in n.targets) \
                and isinstance(n.value, ast.Dict):
            for k, v in zip(n.value.keys, n.value.values):
                if isinstance(k, ast.Constant):
                    out.append((k.value, v))
    return out


def scales_not_memoised(ctx, rule):
    from ..effects import _memoised_members
    repo = ctx.repo
    D = repo.cls("tdgl.device.device", "Device")
    fi = repo.func(SOLVER, "TDGLSolver.__init__")
    getters = {d.name: d for d in D.node.body if isinstance(d, ast.FunctionDef) and any(norm(x) == "property" for x in d.decorator_list)}
    plain = {d.name: d for d in D.node.body if isinstance(d, ast.FunctionDef)}
    # members of Device the solver constructor reads (through the parameter `device` or self.device), closed under what they read on self
    used, todo = set(), []
    for x in own_nodes(fi.node):
        if isinstance(x, ast.Attribute) and norm(x.value) in ("device", "self.device") and x.attr in plain:
            todo.append(x.attr)
    while todo:
        m = todo.pop()
        if m in used:
            continue
        used.add(m)
        for x in ast.walk(plain[m]):
            if isinstance(x, ast.Attribute) and isinstance(x.value, ast.Name) and x.value.id == "self" and x.attr in plain:
                todo.append(x.attr)
    memo = {name: (kind, cache) for name, kind, cache, _ in _memoised_members(D)}
    if len(used) < 6:
        raise AnalysisError(f"the solver constructor reads only {sorted(used)} on the device")
    for m in sorted(used):
        f = D.methods.get(m)
        ctx.ob(rule, f"Device.{m} (read by the solver) is computed from the layer on every access", m not in memo, detail=memo.get(m),
               where=f.fq if f else D.fq, construct=f"Device.{m} memoised", loc=loc(f, f.node) if f else "",
               message=f"Device.{m} is memoised ({memo.get(m)}) although it is derived from mutable parts of the device (the Layer's london_lambda, thickness, "
                       f"coherence_length can be assigned at any time; polygons can be moved in place) and nothing invalidates it",
               consequence="a penetration-depth sweep that sets device.layer.london_lambda and solves again weights the screening kernel with the first "
                           "run's Lambda: every step converges, but the stored potential is Lambda_new/Lambda_first times the Biot-Savart sum of the stored currents")


def no_absolute_length_tolerance(ctx, rule, consequence):
    """R08.10: the geometric data the solver constructor reads on the device (terminal_info, ..., closed under what they read on self) is
    computed without an absolute tolerance in length units: every call of a Polygon membership method (`contains_points`,
    `on_boundary`) in those members passes `radius` 0 - explicitly, or through a default of 0.  A non-zero radius is a pure number
    compared with coordinates in `length_units`, so the same device stated in another length unit selects other sites."""
    repo = ctx.repo
    D = repo.cls("tdgl.device.device", "Device")
    Pc = repo.cls("tdgl.device.polygon", "Polygon")
    fi = repo.func(SOLVER, "TDGLSolver.__init__")
    plain = {d.name: d for d in D.node.body if isinstance(d, ast.FunctionDef)}
    used, todo = set(), []
    for x in own_nodes(fi.node):
        if isinstance(x, ast.Attribute) and norm(x.value) in ("device", "self.device") and x.attr in plain:
            todo.append(x.attr)
    while todo:
        m = todo.pop()
        if m in used:
            continue
        used.add(m)
        for x in ast.walk(plain[m]):
            if isinstance(x, ast.Attribute) and isinstance(x.value, ast.Name) and x.value.id == "self" and x.attr in plain:
                todo.append(x.attr)
    # module-level helpers of the device module that those members call (`terminal_info` as a thin method over a pure function)
    dev_mod = D.module
    bodies = {m: plain[m] for m in used}
    todo_f = [n_.func.id for m in used for n_ in ast.walk(plain[m]) if isinstance(n_, ast.Call) and isinstance(n_.func, ast.Name)]
    todo_f += [a_.id for m in used for n_ in ast.walk(plain[m]) if isinstance(n_, ast.Call) for a_ in n_.args if isinstance(a_, ast.Name)]
    seen_f = set()
    while todo_f:
        fnm = todo_f.pop()
        if fnm in seen_f or fnm not in dev_mod.functions:
            continue
        seen_f.add(fnm)
        bodies[fnm] = dev_mod.functions[fnm].node
        todo_f += [n_.func.id for n_ in ast.walk(bodies[fnm]) if isinstance(n_, ast.Call) and isinstance(n_.func, ast.Name)]
    defaults = {}
    for name, pm_ in Pc.methods.items():
        a = pm_.node.args
        names = [p.arg for p in a.args]
        for p, dflt in zip(names[len(names) - len(a.defaults):], a.defaults):
            if p == "radius":
                defaults[name] = dflt.value if isinstance(dflt, ast.Constant) else None
    if "contains_points" not in defaults or "on_boundary" not in defaults:
        raise AnalysisError(f"Polygon membership methods with a `radius` parameter: {sorted(defaults)}")
    sites = 0
    for m in sorted(bodies):
        f = D.methods.get(m) or dev_mod.functions.get(m)
        for c in ast.walk(bodies[m]):
            if isinstance(c, ast.Call) and isinstance(c.func, ast.Attribute) and c.func.attr in defaults and not (isinstance(c.func.value, ast.Name) and c.func.value.id == "self" and c.func.attr not in Pc.methods):
                # Device.contains_points forwards its own radius (default 0) to the polygons: a call on self is judged at its own call sites
                kw = next((k.value for k in c.keywords if k.arg == "radius"), None)
                if kw is None:
                    val = defaults[c.func.attr] if not (isinstance(c.func.value, ast.Name) and c.func.value.id == "self") else 0
                elif isinstance(kw, ast.Constant):
                    val = kw.value
                elif isinstance(kw, ast.UnaryOp) and isinstance(kw.operand, ast.Constant):
                    val = kw.operand.value
                elif isinstance(kw, (ast.Name, ast.UnaryOp)) and "radius" in norm(kw):
                    continue            # forwards the caller's radius
                else:
                    val = None
                sites += 1
                ctx.ob(rule, f"Device.{m}: `{norm(c)[:60]}` uses no absolute length tolerance", val == 0, detail={"radius": repr(val)},
                       where=f.fq if f else D.fq, loc=loc(f, c) if f else "", construct=f"membership call {norm(c.func)} in Device.{m}",
                       message=f"Device.{m} (read by the solver) calls `{norm(c)[:70]}` with radius {val!r}: a pure number used as a length in `length_units`",
                       consequence=consequence)
    if sites < 2:
        raise AnalysisError(f"only {sites} polygon membership calls found in the Device members the solver reads ({sorted(used)})")
