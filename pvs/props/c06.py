"""C06 - psi pinned on terminals and nowhere else."""
from __future__ import annotations

import ast

from ..alg import Rat
from ..cfg import parent_map
from ..dataflow import assignments, expand, expanded_text, guard_text
from ..interp import EnumVal, Field, Idx, LinOp
from ..model import mesh_model, new_interp
from ..src import rename_id, AnalysisError, loc, norm, own_nodes
from .c04 import operators

SOLVER = "tdgl.solver.solver"
OPS = "tdgl.finite_volume.operators"
DEVICE = "tdgl.device.device"
TECH = ("fixed-point obligation of the documented update on an identity row (value numbering), row-mask typing of the "
        "COO blocks in builder and refresh, def-use rules on the solver's terminal wiring")


def pinned_update(repo, lam, v_zero):
    """solve_for_psi_squared on a pinned row: (L psi)_i = lam * psi_i, psi_i = v."""
    T, ip = new_interp(repo)
    f = repo.func(SOLVER, "TDGLSolver.solve_for_psi_squared")
    v = Rat.const(T, 0) if v_zero else T.cplx("v")
    lamr = Rat.const(T, lam)
    lap = LinOp("psi_laplacian", apply=lambda I, x: lamr * x)
    ip.branch_policy = _accepting
    kw = dict(psi=v, abs_sq_psi=v.abs2(), mu=T.real("mu"), epsilon=T.real("epsilon"),
              gamma=T.real("gamma", "nonneg"), u=T.real("u", "pos"), dt=T.real("dt", "pos"), psi_laplacian=lap)
    ret = ip.call_function(f, [], kw)
    return f, T, v, ret


def check(ctx):
    repo = ctx.repo
    ctx.rule("R06.5", "terminal membership is computed from the current outlines: no memoised geometry survives a change of what it was computed from", 1)
    ctx.rule("R06.1", "on a pinned row the update returns the configured terminal value: psi' == v", 2)
    ctx.rule("R06.2", "rows of pinned sites hold only the identity entry; every other block is masked by its *row* index; "
                      "with pinning disabled nothing is masked", 6)
    ctx.rule("R06.3", "solver wiring: fixed sites are exactly the terminals' site indices; fix_psi == (terminal_psi is not None); "
                      "initial psi overwritten on exactly those sites under the same test", 4)
    ctx.rule("R06.4", "terminal sites are boundary sites inside the terminal polygon", 1)
    ctx.rule("R06.6", "the configured terminal value is the user's: the library never rewrites SolverOptions (terminal_psi in particular) - "
                      "the options object may be shared by several solves (shared with C12 R12.6)", 1)
    from ..effects import options_readonly
    options_readonly(ctx, "R06.6", "a solve on a device without terminals 'normalises' terminal_psi to None on the caller's options object: the next solve that "
                                   "re-uses the object on a device with terminals leaves its terminals unpinned (|psi| = 1 there from frame 0 on) although 0 was configured")
    f_lap = repo.func(OPS, "build_laplacian")
    # identity-row eigenvalue as actually used by set_link_exponents
    T, ip, mesh, mo = operators(repo, True, False)
    idrows = [b for b in mo.attrs["psi_laplacian"].blocks if b.row.name == "F"]
    if len(idrows) != 1 or idrows[0].col.name != "F" or not idrows[0].val.is_const():
        ctx.ob("R06.2", "pinned rows hold exactly one constant diagonal entry", False,
               detail=[repr(b) for b in idrows], where=f_lap.fq, construct="identity rows", loc=loc(f_lap, f_lap.node),
               message=f"rows of fixed sites are {idrows}", consequence="pinned rows couple to neighbours")
        return
    lam = idrows[0].val.const_value().re
    ctx.note("fixed_sites_eigenvalue", str(lam))
    # R06.1
    f, T1, v, ret = pinned_update(repo, lam, v_zero=True)
    ok = isinstance(ret, tuple) and ret[0].is_zero() and ret[1].is_zero()
    ctx.ob("R06.1", "terminal value 0 (default): psi' == 0 and |psi'|^2 == 0 exactly", ok,
           detail={"psi'": str(ret[0]), "|psi'|^2": str(ret[1])} if isinstance(ret, tuple) else str(ret),
           where=f.fq, construct="pinned row, v = 0", loc=loc(f, f.node),
           message="the default normal-metal terminal value 0 is not a fixed point of the update",
           consequence="psi becomes non-zero on terminal sites")
    f, T2, v, ret = pinned_update(repo, lam, v_zero=False)
    drift = ret[0] - v
    ok = drift.is_zero()
    ctx.ob("R06.1", "non-zero terminal value v: psi' == v for all mu, epsilon, gamma, u, dt", ok,
           detail={"psi' - v": str(drift)[:500]}, where=f.fq,
           construct="pinned row (identity row, eigenvalue %s), v != 0" % lam, loc=loc(f, f.node),
           message="a non-zero terminal_psi is not held fixed: on an identity row the update returns psi' != v "
                   "(the eigenvalue feeds psi back, the temporal link rotates its phase)",
           consequence="terminal_psi=0.5 drifts to |psi|=0.529 with a rotating phase after 1 tau; only terminal_psi=0 is pinned",
           witness={"input": "SolverOptions(terminal_psi=0.5), any device with terminals", "psi'-v": str(drift)[:300]})
    # R06.2
    for refresh in (False, True):
        T, ip, mesh, mo = operators(repo, True, refresh)
        lap = mo.attrs["psi_laplacian"]
        desc = "refreshed" if refresh else "fresh"
        for b in lap.blocks:
            if b.row.name == "F":
                continue
            ok = b.mask == ("notin", b.row.name, "F")
            ctx.ob("R06.2", f"psi_laplacian[{b.row.name},{b.col.name}] masked by its row ({desc})", ok,
                   detail=repr(b), where=f_lap.fq, construct=f"mask of block ({b.row.name},{b.col.name}) {desc}",
                   loc=loc(f_lap, f_lap.node),
                   message=f"block ({b.row.name},{b.col.name}) is filtered by {b.mask}, expected rows not in fixed sites",
                   consequence="a pinned row keeps off-diagonal entries (psi evolves on terminals) or a free row loses its "
                               "coupling to a terminal neighbour")
        g = mo.attrs["psi_gradient"]
        ctx.ob("R06.2", f"psi_gradient is never masked ({desc})", all(b.mask is None for b in g.blocks),
               detail=repr(g), where=f_lap.fq, construct=f"psi_gradient masks {desc}",
               message="psi_gradient has masked blocks", consequence="supercurrent into terminals is dropped")
    T, ip, mesh, mo = operators(repo, False, True)
    lap = mo.attrs["psi_laplacian"]
    ok = all(b.mask is None and b.row.name != "F" for b in lap.blocks)
    ctx.ob("R06.2", "pinning disabled (terminal_psi=None): no identity rows, no masks, fresh and refreshed", ok,
           detail=repr(lap), where=f_lap.fq, construct="fix_psi=False", loc=loc(f_lap, f_lap.node),
           message="terminal sites are pinned or masked although terminal_psi is None",
           consequence="terminal sites do not evolve freely when the terminal value is unset")
    wiring(ctx)
    from ..effects import memo_discipline
    memo_discipline(ctx, "R06.5", classes=("Polygon", "TerminalInfo"), floor=0, consequence="after a device (or a terminal polygon) was moved in place, Device.terminal_info() selects the boundary sites "
                                  "with the old terminal outline: some terminal sites stay unpinned and some sites outside the terminals are pinned")
    ctx.assume("SolverOptions.terminal_psi default 0 is the 'normal-metal contact'; pinning of v=0 is exact also in floating point (z=w=0)")


def wiring(ctx, rule="R06.3", only_flag=False):
    repo = ctx.repo
    fi = repo.func(SOLVER, "TDGLSolver.__init__")
    fn = fi.node
    pm = parent_map(fn)
    env = repo.local_types(fi)
    calls = [n for n in own_nodes(fn) if isinstance(n, ast.Call) and
             getattr(repo.resolve_call(fi, n, env), "fq", None) == f"{OPS}:MeshOperators"]
    if len(calls) != 1:
        raise AnalysisError(f"expected one MeshOperators(...) construction in TDGLSolver.__init__, found {len(calls)}")
    call = calls[0]
    kw = {k.arg: k.value for k in call.keywords}
    fs = kw.get("fixed_sites")
    fp = kw.get("fix_psi")
    fp_txt = expanded_text(fn, fp) if fp is not None else None
    ok = fp_txt in ("options.terminal_psi is not None", "self.options.terminal_psi is not None")
    ctx.ob(rule, "fix_psi == (options.terminal_psi is not None)", ok, detail=fp_txt, where=fi.fq,
           construct="MeshOperators(fix_psi=...)", loc=loc(fi, call),
           message=f"fix_psi is `{fp_txt}`", consequence="terminals are pinned when terminal_psi is None, or free when it is set" if rule == "R06.3" else
           "with terminal_psi=None the covariant Laplacian the solver uses gets identity rows on the terminal sites: it is no longer "
           "Hermitian / negative semi-definite in the area-weighted inner product (the identities hold for the builders, not for the operators in use)")
    if only_flag:
        return
    # fixed_sites: every definition of the name is concatenate(site_indices of terminal_info) or an empty array
    asg = assignments(fn)
    ok = False
    detail = {}
    if isinstance(fs, ast.Name):
        defs = asg.get(fs.id, [])
        kinds = []
        # a conditional expression contributes both of its values
        vals = []
        from ..dataflow import expansions
        at_ = next((st_ for st_ in ast.walk(fn) if isinstance(st_, ast.stmt) and not isinstance(st_, (ast.FunctionDef, ast.If, ast.For, ast.While, ast.With, ast.Try))
                    and any(x is call for x in ast.walk(st_))), None)
        if at_ is None:
            raise AnalysisError("the MeshOperators(...) call is not inside a simple statement")
        for e0 in expansions(fn, fs, at_):
            if isinstance(e0, ast.Name):
                vals.append(None)
                continue
            todo_ = [e0]
            while todo_:
                x = todo_.pop()
                if isinstance(x, ast.IfExp):
                    todo_ += [x.body, x.orelse]
                else:
                    vals.append(x)
        for e in vals:
            if e is None:
                kinds.append("?")
                continue
            k = "?"
            if isinstance(e, ast.Call) and norm(e.func).endswith("concatenate") and e.args:
                a0 = e.args[0]
                if isinstance(a0, (ast.ListComp, ast.GeneratorExp)) and len(a0.generators) == 1 and not a0.generators[0].ifs \
                        and isinstance(a0.elt, ast.Attribute) and a0.elt.attr == "site_indices" \
                        and isinstance(a0.elt.value, ast.Name) and isinstance(a0.generators[0].target, ast.Name) \
                        and a0.elt.value.id == a0.generators[0].target.id \
                        and norm(a0.generators[0].iter) in ("self.terminal_info", "device.terminal_info()", "self.device.terminal_info()"):
                    k = "all-terminals"
            elif isinstance(e, ast.Call) and norm(e.func).endswith("array") and e.args and isinstance(e.args[0], ast.List) and not e.args[0].elts:
                k = "empty"
            elif isinstance(e, ast.Call) and norm(e.func).split(".")[-1] in ("zeros", "empty") and e.args and \
                    ((isinstance(e.args[0], ast.Constant) and e.args[0].value == 0) or norm(e.args[0]) in ("(0,)", "[0]")):
                k = "empty"
            kinds.append(k)
        detail = {"fixed_sites": fs.id, "definitions": [norm(v)[:120] for v in vals if v is not None], "kinds": kinds}
        ok = kinds.count("all-terminals") == 1 and all(k in ("all-terminals", "empty") for k in kinds)
    ctx.ob("R06.3", "fixed_sites == concatenation of every terminal's site_indices (or empty)", ok, detail=detail,
           where=fi.fq, construct="MeshOperators(fixed_sites=...)", loc=loc(fi, call),
           message=f"fixed_sites is built as {detail}", consequence="sites outside terminals are pinned, or a terminal is left free")
    # initial psi
    from ..dataflow import guard_text_x, local_stored_in_attr
    pname = local_stored_in_attr(fn, "psi_init") or "psi_init"
    stores = [n for n in own_nodes(fn) if isinstance(n, ast.Assign) and any(
        isinstance(t, ast.Subscript) and isinstance(t.value, ast.Name) and t.value.id == pname for t in n.targets)]
    ok = len(stores) == 1
    det = {}
    if ok:
        s = stores[0]
        idx = s.targets[0].slice
        g = guard_text_x(fn, s, pm)
        det = {"store": norm(s), "guards": g}
        ok = isinstance(fs, ast.Name) and isinstance(idx, ast.Name) and idx.id == fs.id and \
            expanded_text(fn, s.value) in ("options.terminal_psi", "self.options.terminal_psi") and \
            any(x in ("(options.terminal_psi is not None)", "(self.options.terminal_psi is not None)") for x in g)
    ctx.ob("R06.3", "psi_init[fixed_sites] = terminal_psi under `terminal_psi is not None`", ok, detail=det, where=fi.fq,
           construct="psi_init[...] = terminal_psi", loc=loc(fi, stores[0]) if stores else "",
           message=f"initial terminal value wiring is {det}",
           consequence="the first frame does not carry the configured terminal value on the terminal sites")
    tinfo = [v for _, v in self_attr_of(fn, "terminal_info")]
    ok = len(tinfo) == 1 and norm(tinfo[0]) in ("device.terminal_info()", "self.device.terminal_info()")
    ctx.ob("R06.3", "self.terminal_info == device.terminal_info()", ok, detail=[norm(t) for t in tinfo], where=fi.fq,
           construct="self.terminal_info", message="terminal_info is not taken from the device",
           consequence="terminal sites and terminal boundary edges disagree")
    # R06.4
    ft = repo.func(DEVICE, "Device.terminal_info")
    from ..tables import terminal_info_fields, symbolic_text
    fields = terminal_info_fields(repo)          # Device.terminal_info followed for one terminal T
    if "site_indices" not in fields:
        raise AnalysisError(f"TerminalInfo no longer has site_indices ({sorted(fields)})")
    tc = ft.node
    txt = symbolic_text(fields["site_indices"])
    ok = txt in (
        "np.intersect1d(T.contains_points(self.points,index=True),self.mesh.boundary_indices)",
        "np.intersect1d(self.mesh.boundary_indices,T.contains_points(self.points,index=True))")
    sites_txt = "self.points"
    ctx.ob("R06.4", "TerminalInfo.site_indices == boundary sites whose (dimensionful) position lies in the terminal polygon",
           ok, detail={"site_indices": txt, "sites": sites_txt}, where=ft.fq, construct="TerminalInfo.site_indices",
           loc=loc(ft, tc), message=f"terminal sites are computed as {txt} over {sites_txt}",
           consequence="interior sites are pinned or boundary sites inside the terminal are left free")


def self_attr_of(fn, attr):
    from ..dataflow import self_attr_assignments
    return self_attr_assignments(fn).get(attr, [])


def _accepting(test, fr):
    """branch policy of the psi solve: follow the path on which no discriminant is negative, whichever way the test is spelled
    (`if any(d < 0): refuse` / `if not any(d < 0): answer`)"""
    if not any(isinstance(n, ast.Compare) for n in ast.walk(test)):
        return None
    nots = 0
    while isinstance(test, ast.UnaryOp) and isinstance(test.op, ast.Not):
        nots += 1
        test = test.operand
    return nots % 2 == 1
