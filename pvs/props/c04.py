"""C04 - gauge invariance at operator level (exact), temporal link variable, wiring."""
from __future__ import annotations

import ast

from ..alg import Rat
from ..interp import EnumVal, Field, Idx, LinOp, EmptyArr
from ..model import mesh_model, new_interp
from ..src import AnalysisError, loc, norm, own_nodes
from .c02 import interpret as interpret_update

SOLVER = "tdgl.solver.solver"
OPS = "tdgl.finite_volume.operators"
TECH = ("gauge-transformation substitution on symbolic COO blocks (psi_i -> psi_i X_i, U_ij -> U_ij X_i/X_j with unit "
        "atoms X) and exact normal-form comparison; who-may-write audit of the covariant operators")


def operators(repo, fix_psi, refresh):
    T, ip = new_interp(repo)
    mesh = mesh_model(repo, ip)
    mo_cls = repo.cls(OPS, "MeshOperators")
    mo = ip.construct(mo_cls, [mesh, EnumVal("SparseSolver.SUPERLU")],
                      {"fixed_sites": Idx("F", "fixed", "site"), "fix_psi": fix_psi})
    ip.call_method(mo, "build_operators", [], {})
    if refresh:
        ip.call_method(mo, "set_link_exponents", [Field("Aprev", "edge", comps=2)], {})
    ip.call_method(mo, "set_link_exponents", [Field("A", "edge", comps=2)], {})
    return T, ip, mesh, mo


def check(ctx):
    repo = ctx.repo
    ctx.rule("R04.1", "every block (r,c,v) of psi_gradient/psi_laplacian is gauge covariant: v[U->U X0/X1] * X_c == X_r * v", 16)
    ctx.rule("R04.2", "supercurrent is Im(conj(psi_e0) (G psi)_k) and is unchanged by the gauge transformation", 4)
    ctx.rule("R04.3", "the link variable is exp(-i A.(r_e1 - r_e0)) in builder and refresh alike", 4)
    ctx.rule("R04.4", "a constant shift of mu multiplies psi' by a global phase and leaves |psi'|^2 unchanged (generic gamma and gamma = 0)", 3)
    ctx.rule("R04.5", "covariant operators are written only by MeshOperators.__init__/set_link_exponents; the solver passes A_applied (+A_induced)", 3)
    ctx.rule("R04.9", "the operator builders never write into the link-exponent / vector-potential arrays they are handed (shared effect rule)", 1)
    ctx.rule("R04.8", "a gauge-transformed potential always reaches the operators: set_link_exponents never skips the refresh on a comparison with a "
                      "remembered view of the caller's array (shared with C10 R10.9)", 1)
    ctx.rule("R04.7", "the vector potential itself (gauge dependent) reaches the physics only through the link variables and through "
                      "differences in time: no other use of the applied/total potential or of MeshOperators.link_exponents", 2)
    ctx.rule("R04.6", "the operators acting on psi always carry complex link variables: no caller builds them without "
                      "link variables (a gauge-equivalent non-zero potential would take the complex path)", 3)
    f_set = repo.func(OPS, "MeshOperators.set_link_exponents")
    f_sc = repo.func(OPS, "MeshOperators.get_supercurrent")
    for fix_psi in (False, True):
        for refresh in (False, True):
            T, ip, mesh, mo = operators(repo, fix_psi, refresh)
            desc = f"{'refreshed' if refresh else 'fresh'}, fix_psi={fix_psi}"
            X = {"e0": T.unit("X@e0"), "e1": T.unit("X@e1"), "F": T.unit("X@F")}
            X["k"] = X["e0"]       # an edge quantity is anchored at its first site
            dot = T.real("A.x") * T.real("dir.x") + T.real("A.y") * T.real("dir.y")
            U = T.unit_of(-dot)
            (uname,) = [a for a in U.atoms()]
            # canonical atom may be U or U^-1
            Uatom = Rat.atom(T, uname)
            sign = 1 if Uatom == U else -1
            g = X["e0"] / X["e1"]        # U -> U * X0 / X1
            sub = {uname: Uatom * (g if sign == 1 else g ** -1)}
            for attr in ("psi_gradient", "psi_laplacian"):
                m = mo.attrs[attr]
                for b in m.blocks:
                    v2 = b.val.subst(sub)
                    ok = v2 * X[b.col.name] == X[b.row.name] * b.val
                    has_u = uname in b.val.atoms()
                    ctx.ob("R04.1", f"{attr}[{b.row.name},{b.col.name}] ({desc})", ok, nontrivial=has_u,
                           detail={"value": str(b.val), "transformed": str(v2)},
                           where=f_set.fq, construct=f"{attr} block ({b.row.name},{b.col.name}) {desc}",
                           loc=loc(f_set, f_set.node),
                           message=f"{attr} block ({b.row.name},{b.col.name}) = {b.val} is not gauge covariant ({desc})",
                           consequence="observables change under A -> A + grad chi, psi -> psi e^{i chi} on this block")
                # R04.3
                us = {a for b in m.blocks for a in b.val.atoms() if T.atoms[a].kind == "unit"}
                ctx.ob("R04.3", f"{attr}: single link variable exp(-i A.dir) ({desc})", us == {uname},
                       detail={"unit_atoms": sorted(us), "expected": uname}, where=f_set.fq,
                       construct=f"link variable of {attr} ({desc})", loc=loc(f_set, f_set.node),
                       message=f"{attr} uses link variables {sorted(us)}, expected only {uname}",
                       consequence="gradient and Laplacian (or builder and refresh) use different/sign-flipped link variables")
            if not fix_psi:
                psi_f = Field("psi", "site", kind="complex")
                js = ip.call_method(mo, "get_supercurrent", [psi_f], {})
                psub = dict(sub)
                psub["psi@e0"] = T.cplx("psi@e0") * X["e0"]
                psub["psi@e1"] = T.cplx("psi@e1") * X["e1"]
                js2 = js.subst(psub)
                # documented form (eq. poisson-num): Im[ conj(psi_i) (U_ij psi_j - psi_i) / e_ij ]
                doc = (T.cplx("psi@e0").conj() * (U * T.cplx("psi@e1") - T.cplx("psi@e0")) / T.real("l", "pos")).imag()
                ctx.ob("R04.2", f"supercurrent == Im[conj(psi_i)(U_ij psi_j - psi_i)/e_ij] ({desc})", js == doc,
                       detail={"Js": str(js)[:300], "documented": str(doc)[:300]}, where=f_sc.fq,
                       construct=f"get_supercurrent formula ({desc})", loc=loc(f_sc, f_sc.node),
                       message="the edge supercurrent is not the imaginary part of conj(psi_i) times the covariant gradient",
                       consequence="the recorded supercurrent is a different (e.g. the real) part of the gauge-invariant product")
                ctx.ob("R04.2", f"supercurrent invariant ({desc})", js2 == js and js.is_real(),
                       detail={"Js": str(js)[:300]}, where=f_sc.fq, construct=f"get_supercurrent ({desc})",
                       loc=loc(f_sc, f_sc.node), message="supercurrent changes under a gauge transformation",
                       consequence="the edge supercurrent is not an observable: it depends on the gauge")
    # R04.4 -------------------------------------------------------------------------
    f, ipu, ret, S, _ = interpret_update(repo)
    Tu = S["T"]
    Ut = Tu.unit_of(-(S["mu"] * S["dt"]))
    (tname,) = list(Ut.atoms())
    Ta = Rat.atom(Tu, tname)
    sgn = 1 if Ta == Ut else -1
    Xc = Tu.unit("Xc")           # exp(-i c dt)
    sub = {tname: Ta * (Xc if sgn == 1 else Xc ** -1)}
    psi2, x2 = ret[0].subst(sub), ret[1].subst(sub)
    # the sqrt(discriminant) atom is a function of |z|,|w|,c only; substitution inside radicands is handled by subst
    ctx.ob("R04.4", "psi'(mu + c) == exp(-i c dt) psi'(mu)", psi2 == Xc * ret[0], where=f.fq,
           construct="temporal link covariance", loc=loc(f, f.node),
           message="psi' is not multiplied by a global phase when mu is shifted by a constant",
           consequence="a constant offset of the scalar potential changes |psi| / currents")
    ctx.ob("R04.4", "|psi'|^2(mu + c) == |psi'|^2(mu)", x2 == ret[1], where=f.fq,
           construct="temporal link invariance of |psi|^2", loc=loc(f, f.node),
           message="|psi'|^2 depends on a constant shift of mu", consequence="mu is observable beyond differences")
    # the same two statements in the special case gamma = 0 (z = 0: a code path of its own wherever the update tests for it)
    try:
        f0, ip0, ret0, S0, _ = interpret_update(repo, gamma_zero=True)
        T0 = S0["T"]
        Ut0 = T0.unit_of(-(S0["mu"] * S0["dt"]))
        (tname0,) = list(Ut0.atoms())
        Ta0 = Rat.atom(T0, tname0)
        Xc0 = T0.unit("Xc")
        sub0 = {tname0: Ta0 * (Xc0 if Ta0 == Ut0 else Xc0 ** -1)}
        ok0 = ret0[0].subst(sub0) == Xc0 * ret0[0] and ret0[1].subst(sub0) == ret0[1]
        det0 = {"psi'": str(ret0[0])[:300]}
    except Exception as e_:
        ok0, det0 = False, {"error": str(e_)[:200]}
    ctx.ob("R04.4", "at gamma = 0: psi'(mu + c) == exp(-i c dt) psi'(mu) and |psi'|^2 unchanged", ok0, detail=det0, where=f.fq,
           construct="temporal link covariance at gamma = 0", loc=loc(f, f.node),
           message=f"with gamma = 0 a constant shift of mu does not act on psi' as a global phase: {det0}",
           consequence="for a layer with gamma = 0 the additive constant of the scalar potential (arbitrary: the Poisson problem is pure Neumann) changes |psi| and "
                       "the currents: two gauge-equivalent runs diverge")
    # R04.5 -------------------------------------------------------------------------
    writers = {}
    for fi in repo.all_functions():
        for n in own_nodes(fi.node):
            if isinstance(n, ast.Attribute) and isinstance(n.ctx, ast.Store) and n.attr in ("psi_gradient", "psi_laplacian"):
                writers.setdefault(fi.fq, set()).add(n.attr)
    allowed = {f"{OPS}:MeshOperators.__init__", f"{OPS}:MeshOperators.set_link_exponents"}
    extra = sorted(set(writers) - allowed)
    ctx.ob("R04.5", "writers of psi_gradient/psi_laplacian", not extra and f"{OPS}:MeshOperators.set_link_exponents" in writers,
           detail={k: sorted(v) for k, v in writers.items()}, where="repo", construct="who writes psi_gradient/psi_laplacian",
           message=f"covariant operators are also written by {extra}",
           consequence="the vector potential can reach the operators without going through the link-variable code")
    fu = repo.func(SOLVER, "TDGLSolver.update")
    from ..update_trace import all_traces
    from ..smallstep import Opaque as SO, render

    def terms(v):
        if isinstance(v, SO) and v.parts and v.parts[0] == "Add":
            return terms(v.parts[1]) + terms(v.parts[2])
        return [render(v)]
    bad = []
    n_calls = 0
    for t in all_traces(repo):
        sc = t.scenario
        applied_now = "A_new" if sc["dynamic_A"] != "off" else "self.current_A_applied"
        for e in t.calls("set_link_exponents"):
            n_calls += 1
            ts = terms(e.args[0]) if e.args else ["?"]
            rest = [x for x in ts if x != applied_now]
            if applied_now not in ts or len(ts) > 2 or any(not (x == "induced_vector_potential" or x.startswith("A#")) for x in rest):
                bad.append(f"[{', '.join(f'{k}={v}' for k, v in sc.items() if k != 'max_iterations')}] set_link_exponents({' + '.join(ts)})")
    if n_calls < 2:
        raise AnalysisError("update() never calls set_link_exponents in any scenario")
    ctx.ob("R04.5", "solver hands set_link_exponents the applied (+ induced) potential", not bad, detail=bad[:4],
           where=fu.fq, construct="set_link_exponents arguments", loc=loc(fu, fu.node),
           message=f"set_link_exponents is called with {bad[:1]}",
           consequence="the operators are built for a different vector potential than the one recorded")
    from .c10 import link_callers
    link_callers(ctx, "R04.6")
    from .c10 import no_skipped_refresh
    no_skipped_refresh(ctx, "R04.8")
    from ..effects import input_purity
    input_purity(ctx, "R04.9", modules=("tdgl.finite_volume.operators",), min_functions=8,
                 consequence="an operator builder overwrites the vector-potential array it is handed: the solver keeps that array as its applied "
                             "potential and adds the induced one to it at every screening iteration, so a uniform gauge shift c then contributes "
                             "c_x d_x^2 + c_y d_y^2 per edge - not the difference of a site function: observables depend on the gauge")
    potential_uses(ctx)
    fo = repo.func(SOLVER, "TDGLSolver.solve_for_observables")
    src = ast.unparse(fo.node)
    uses = [norm(n) for n in own_nodes(fo.node) if isinstance(n, ast.BinOp) and any(
        isinstance(x, ast.Name) and x.id == "dA_dt" for x in (n.left, n.right))]
    ctx.ob("R04.5", "dA_dt enters only the normal current and the Poisson right-hand side", len(uses) == 2,
           detail=uses, where=fo.fq, construct="uses of dA_dt", loc=loc(fo, fo.node),
           message=f"dA_dt is used in {uses}", consequence="the electric field from dA/dt is counted twice or dropped")
    ctx.assume("whole-run clause (two runs related by a gauge shift agree to rounding) follows from R04.1-5 and C01's "
               "continuity identity in exact arithmetic only; rounding-level agreement of two runs is declined")
    ctx.decline("re-centring inside uniform_Bz_vector_potential is a gauge choice; its harmlessness is exactly R04.1")


def potential_uses(ctx):
    """R04.7: a who-may-read audit of the gauge-dependent quantities."""
    from ..cfg import parent_map
    from .c10 import update_roles
    repo = ctx.repo
    # (a) MeshOperators.link_exponents is read by MeshOperators only
    readers = []
    for f in repo.all_functions():
        if f.module.name.startswith("tdgl.test") or f.fq.startswith(f"{OPS}:MeshOperators."):
            continue
        for n in own_nodes(f.node):
            if isinstance(n, ast.Attribute) and n.attr == "link_exponents" and isinstance(n.ctx, ast.Load):
                readers.append((f, n))
    for f, n in readers:
        ctx.ob("R04.7", f"{f.qual} reads link_exponents", False, where=f.fq, construct=f"link_exponents read in {f.qual}", loc=loc(f, n),
               message=f"{f.qual} reads `{norm(n)}`: the stored vector potential (gauge dependent) is used outside the link-variable code",
               consequence="a quantity computed from it changes under A -> A + grad chi: observables (or when an iteration stops) depend on the gauge")
    if not readers:
        ctx.ob("R04.7", "MeshOperators.link_exponents is read by MeshOperators only", True, where=OPS, construct="readers of link_exponents")
    # (b) uses of the applied potential in update(), on its traces (pvs/update_trace.py): the symbols that carry the applied
    # potential (the new value, the previous value handed in, the remembered baseline) may appear in what update() does only as
    # arguments of set_link_exponents, inside the difference of two of them, in the exact change test, in the store to the
    # baseline and among the returned state
    fu = repo.func(SOLVER, "TDGLSolver.update")
    from ..update_trace import all_traces
    from ..smallstep import Opaque as SO, render
    POT = ("A_new", "A_prev", "self.current_A_applied", "applied_vector_potential")

    def leaks(v, out, under_diff=False):
        if isinstance(v, SO):
            if v.text in POT and (v.parts is None or v.parts[0] == "attr"):
                if not under_diff:
                    out.append(v.text)
                return
            if v.parts:
                if v.parts[0] == "Sub" and all(isinstance(x, SO) and x.text in POT for x in v.parts[1:3]):
                    return                      # a time difference of the potential is gauge invariant up to d(chi)/dt (documented)
                for x in v.parts[1:]:
                    leaks(x, out, under_diff)
        elif isinstance(v, (list, tuple)):
            for x in v:
                leaks(x, out, under_diff)
        elif isinstance(v, dict):
            for x in v.values():
                leaks(x, out, under_diff)
    found = {}
    uses = 0
    for t in all_traces(repo):
        for e in t.events:
            short = e.name.split(".")[-1]
            if e.kind == "call" and short in ("set_link_exponents", "array_equal", "array_equiv"):
                uses += 1
                continue
            if e.kind == "store" and e.name == "self.current_A_applied":
                uses += 1
                continue
            out = []
            leaks(e.args if e.kind == "call" else e.value, out)
            if e.kind == "call":
                leaks(e.kwargs, out)
            if out:
                found.setdefault(repr(e)[:120], sorted(set(out)))
    for what, syms in sorted(found.items()):
        ctx.ob("R04.7", f"update(): `{what}` uses the applied potential itself", False, where=fu.fq,
               construct=f"use of the applied vector potential in `{what[:60]}`", loc=loc(fu, fu.node),
               message=f"the applied vector potential {syms} is used in `{what[:80]}`, which is neither the link variables, a time "
                       f"difference, the exact change test nor bookkeeping",
               consequence="a gauge-dependent number enters the step: observables change under A -> A + grad chi")
    ctx.ob("R04.7", "update(): the applied potential appears only in set_link_exponents, time differences, the exact change test and bookkeeping",
           not found, detail={"allowed_uses_seen": uses}, where=fu.fq, construct="uses of the applied potential in update()")
    if uses < 6:
        raise AnalysisError(f"only {uses} uses of the applied potential found in the traces of update()")
