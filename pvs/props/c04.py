"""C04 - gauge invariance at operator level (exact), temporal link variable, wiring."""
from __future__ import annotations

import ast

from ..alg import Rat
from ..interp import EnumVal, Field, Idx, LinOp, EmptyArr
from ..model import mesh_model, new_interp
from ..src import AnalysisError, loc, norm, own_nodes
from .c02 import interpret as interpret_update

SOLVER = "tdgl.solver.solver"
OPS = "tdgl.finite_volume.operators"
TECH = ("gauge-transformation substitution on symbolic COO blocks (psi_i -> psi_i X_i, U_ij -> U_ij X_i/X_j with unit "
        "atoms X) and exact normal-form comparison; who-may-write audit of the covariant operators")


def operators(repo, fix_psi, refresh):
    T, ip = new_interp(repo)
    mesh = mesh_model(repo, ip)
    mo_cls = repo.cls(OPS, "MeshOperators")
    mo = ip.construct(mo_cls, [mesh, EnumVal("SparseSolver.SUPERLU")],
                      {"fixed_sites": Idx("F", "fixed", "site"), "fix_psi": fix_psi})
    ip.call_method(mo, "build_operators", [], {})
    if refresh:
        ip.call_method(mo, "set_link_exponents", [Field("Aprev", "edge", comps=2)], {})
    ip.call_method(mo, "set_link_exponents", [Field("A", "edge", comps=2)], {})
    return T, ip, mesh, mo


def check(ctx):
    repo = ctx.repo
    ctx.rule("R04.1", "every block (r,c,v) of psi_gradient/psi_laplacian is gauge covariant: v[U->U X0/X1] * X_c == X_r * v", 16)
    ctx.rule("R04.2", "supercurrent is Im(conj(psi_e0) (G psi)_k) and is unchanged by the gauge transformation", 4)
    ctx.rule("R04.3", "the link variable is exp(-i A.(r_e1 - r_e0)) in builder and refresh alike", 4)
    ctx.rule("R04.4", "a constant shift of mu multiplies psi' by a global phase and leaves |psi'|^2 unchanged", 2)
    ctx.rule("R04.5", "covariant operators are written only by MeshOperators.__init__/set_link_exponents; the solver passes A_applied (+A_induced)", 3)
    ctx.rule("R04.7", "the vector potential itself (gauge dependent) reaches the physics only through the link variables and through "
                      "differences in time: no other use of the applied/total potential or of MeshOperators.link_exponents", 8)
    ctx.rule("R04.6", "the operators acting on psi always carry complex link variables: no caller builds them without "
                      "link variables (a gauge-equivalent non-zero potential would take the complex path)", 3)
    f_set = repo.func(OPS, "MeshOperators.set_link_exponents")
    f_sc = repo.func(OPS, "MeshOperators.get_supercurrent")
    for fix_psi in (False, True):
        for refresh in (False, True):
            T, ip, mesh, mo = operators(repo, fix_psi, refresh)
            desc = f"{'refreshed' if refresh else 'fresh'}, fix_psi={fix_psi}"
            X = {"e0": T.unit("X@e0"), "e1": T.unit("X@e1"), "F": T.unit("X@F")}
            X["k"] = X["e0"]       # an edge quantity is anchored at its first site
            dot = T.real("A.x") * T.real("dir.x") + T.real("A.y") * T.real("dir.y")
            U = T.unit_of(-dot)
            (uname,) = [a for a in U.atoms()]
            # canonical atom may be U or U^-1
            Uatom = Rat.atom(T, uname)
            sign = 1 if Uatom == U else -1
            g = X["e0"] / X["e1"]        # U -> U * X0 / X1
            sub = {uname: Uatom * (g if sign == 1 else g ** -1)}
            for attr in ("psi_gradient", "psi_laplacian"):
                m = mo.attrs[attr]
                for b in m.blocks:
                    v2 = b.val.subst(sub)
                    ok = v2 * X[b.col.name] == X[b.row.name] * b.val
                    has_u = uname in b.val.atoms()
                    ctx.ob("R04.1", f"{attr}[{b.row.name},{b.col.name}] ({desc})", ok, nontrivial=has_u,
                           detail={"value": str(b.val), "transformed": str(v2)},
                           where=f_set.fq, construct=f"{attr} block ({b.row.name},{b.col.name}) {desc}",
                           loc=loc(f_set, f_set.node),
                           message=f"{attr} block ({b.row.name},{b.col.name}) = {b.val} is not gauge covariant ({desc})",
                           consequence="observables change under A -> A + grad chi, psi -> psi e^{i chi} on this block")
                # R04.3
                us = {a for b in m.blocks for a in b.val.atoms() if T.atoms[a].kind == "unit"}
                ctx.ob("R04.3", f"{attr}: single link variable exp(-i A.dir) ({desc})", us == {uname},
                       detail={"unit_atoms": sorted(us), "expected": uname}, where=f_set.fq,
                       construct=f"link variable of {attr} ({desc})", loc=loc(f_set, f_set.node),
                       message=f"{attr} uses link variables {sorted(us)}, expected only {uname}",
                       consequence="gradient and Laplacian (or builder and refresh) use different/sign-flipped link variables")
            if not fix_psi:
                psi_f = Field("psi", "site", kind="complex")
                js = ip.call_method(mo, "get_supercurrent", [psi_f], {})
                psub = dict(sub)
                psub["psi@e0"] = T.cplx("psi@e0") * X["e0"]
                psub["psi@e1"] = T.cplx("psi@e1") * X["e1"]
                js2 = js.subst(psub)
                # documented form (eq. poisson-num): Im[ conj(psi_i) (U_ij psi_j - psi_i) / e_ij ]
                doc = (T.cplx("psi@e0").conj() * (U * T.cplx("psi@e1") - T.cplx("psi@e0")) / T.real("l", "pos")).imag()
                ctx.ob("R04.2", f"supercurrent == Im[conj(psi_i)(U_ij psi_j - psi_i)/e_ij] ({desc})", js == doc,
                       detail={"Js": str(js)[:300], "documented": str(doc)[:300]}, where=f_sc.fq,
                       construct=f"get_supercurrent formula ({desc})", loc=loc(f_sc, f_sc.node),
                       message="the edge supercurrent is not the imaginary part of conj(psi_i) times the covariant gradient",
                       consequence="the recorded supercurrent is a different (e.g. the real) part of the gauge-invariant product")
                ctx.ob("R04.2", f"supercurrent invariant ({desc})", js2 == js and js.is_real(),
                       detail={"Js": str(js)[:300]}, where=f_sc.fq, construct=f"get_supercurrent ({desc})",
                       loc=loc(f_sc, f_sc.node), message="supercurrent changes under a gauge transformation",
                       consequence="the edge supercurrent is not an observable: it depends on the gauge")
    # R04.4 -------------------------------------------------------------------------
    f, ipu, ret, S, _ = interpret_update(repo)
    Tu = S["T"]
    Ut = Tu.unit_of(-(S["mu"] * S["dt"]))
    (tname,) = list(Ut.atoms())
    Ta = Rat.atom(Tu, tname)
    sgn = 1 if Ta == Ut else -1
    Xc = Tu.unit("Xc")           # exp(-i c dt)
    sub = {tname: Ta * (Xc if sgn == 1 else Xc ** -1)}
    psi2, x2 = ret[0].subst(sub), ret[1].subst(sub)
    # the sqrt(discriminant) atom is a function of |z|,|w|,c only; substitution inside radicands is handled by subst
    ctx.ob("R04.4", "psi'(mu + c) == exp(-i c dt) psi'(mu)", psi2 == Xc * ret[0], where=f.fq,
           construct="temporal link covariance", loc=loc(f, f.node),
           message="psi' is not multiplied by a global phase when mu is shifted by a constant",
           consequence="a constant offset of the scalar potential changes |psi| / currents")
    ctx.ob("R04.4", "|psi'|^2(mu + c) == |psi'|^2(mu)", x2 == ret[1], where=f.fq,
           construct="temporal link invariance of |psi|^2", loc=loc(f, f.node),
           message="|psi'|^2 depends on a constant shift of mu", consequence="mu is observable beyond differences")
    # R04.5 -------------------------------------------------------------------------
    writers = {}
    for fi in repo.all_functions():
        for n in own_nodes(fi.node):
            if isinstance(n, ast.Attribute) and isinstance(n.ctx, ast.Store) and n.attr in ("psi_gradient", "psi_laplacian"):
                writers.setdefault(fi.fq, set()).add(n.attr)
    allowed = {f"{OPS}:MeshOperators.__init__", f"{OPS}:MeshOperators.set_link_exponents"}
    extra = sorted(set(writers) - allowed)
    ctx.ob("R04.5", "writers of psi_gradient/psi_laplacian", not extra and allowed <= set(writers),
           detail={k: sorted(v) for k, v in writers.items()}, where="repo", construct="who writes psi_gradient/psi_laplacian",
           message=f"covariant operators are also written by {extra}",
           consequence="the vector potential can reach the operators without going through the link-variable code")
    fu = repo.func(SOLVER, "TDGLSolver.update")
    env = repo.local_types(fu)
    from .c10 import update_roles
    from ..src import rename_id
    induced, applied = update_roles(fu.node)
    args = []
    for n in own_nodes(fu.node):
        if isinstance(n, ast.Call):
            r = repo.resolve_call(fu, n, env)
            if getattr(r, "fq", None) == f"{OPS}:MeshOperators.set_link_exponents":
                # locals named by role: APPLIED = what is remembered as self.current_A_applied, INDUCED = the screening iterate
                args.append(rename_id(rename_id(norm(n.args[0]), applied, "APPLIED"), induced, "INDUCED") if n.args else "?")
    ok = sorted(args) in (sorted(["APPLIED", "APPLIED + INDUCED"]), sorted(["APPLIED", "INDUCED + APPLIED"]))
    ctx.ob("R04.5", "solver hands set_link_exponents the applied (+ induced) potential", ok, detail=args,
           where=fu.fq, construct="set_link_exponents arguments", loc=loc(fu, fu.node),
           message=f"set_link_exponents is called with {args}",
           consequence="the operators are built for a different vector potential than the one recorded")
    from .c10 import link_callers
    link_callers(ctx, "R04.6")
    potential_uses(ctx)
    fo = repo.func(SOLVER, "TDGLSolver.solve_for_observables")
    src = ast.unparse(fo.node)
    uses = [norm(n) for n in own_nodes(fo.node) if isinstance(n, ast.BinOp) and any(
        isinstance(x, ast.Name) and x.id == "dA_dt" for x in (n.left, n.right))]
    ctx.ob("R04.5", "dA_dt enters only the normal current and the Poisson right-hand side", len(uses) == 2,
           detail=uses, where=fo.fq, construct="uses of dA_dt", loc=loc(fo, fo.node),
           message=f"dA_dt is used in {uses}", consequence="the electric field from dA/dt is counted twice or dropped")
    ctx.assume("whole-run clause (two runs related by a gauge shift agree to rounding) follows from R04.1-5 and C01's "
               "continuity identity in exact arithmetic only; rounding-level agreement of two runs is declined")
    ctx.decline("re-centring inside uniform_Bz_vector_potential is a gauge choice; its harmlessness is exactly R04.1")


def potential_uses(ctx):
    """R04.7: a who-may-read audit of the gauge-dependent quantities."""
    from ..cfg import parent_map
    from .c10 import update_roles
    repo = ctx.repo
    # (a) MeshOperators.link_exponents is read by MeshOperators only
    readers = []
    for f in repo.all_functions():
        if f.module.name.startswith("tdgl.test") or f.fq.startswith(f"{OPS}:MeshOperators."):
            continue
        for n in own_nodes(f.node):
            if isinstance(n, ast.Attribute) and n.attr == "link_exponents" and isinstance(n.ctx, ast.Load):
                readers.append((f, n))
    for f, n in readers:
        ctx.ob("R04.7", f"{f.qual} reads link_exponents", False, where=f.fq, construct=f"link_exponents read in {f.qual}", loc=loc(f, n),
               message=f"{f.qual} reads `{norm(n)}`: the stored vector potential (gauge dependent) is used outside the link-variable code",
               consequence="a quantity computed from it changes under A -> A + grad chi: observables (or when an iteration stops) depend on the gauge")
    if not readers:
        ctx.ob("R04.7", "MeshOperators.link_exponents is read by MeshOperators only", True, where=OPS, construct="readers of link_exponents")
    # (b) uses of the applied potential in update()
    fu = repo.func(SOLVER, "TDGLSolver.update")
    fn = fu.node
    pm = parent_map(fn)
    induced, applied = update_roles(fn)
    # names holding a value of the applied potential: `applied`, and every name bound by plain assignment from one of them,
    # from self.current_A_applied or from the `applied_vector_potential` parameter
    pot = {applied}
    changed = True
    while changed:
        changed = False
        for n in own_nodes(fn):
            if isinstance(n, ast.Assign) and (
                    (isinstance(n.value, ast.Name) and (n.value.id in pot or n.value.id == "applied_vector_potential"))
                    or norm(n.value) == "self.current_A_applied"
                    or (isinstance(n.value, ast.Call) and norm(n.value.func) == "self.update_applied_vector_potential")):
                for t in n.targets:
                    if isinstance(t, ast.Name) and t.id not in pot:
                        pot.add(t.id)
                        changed = True
    pot.add("applied_vector_potential")

    def is_pot(e):
        return (isinstance(e, ast.Name) and e.id in pot) or norm(e) == "self.current_A_applied"
    uses = 0
    for n in own_nodes(fn):
        if not (isinstance(n, (ast.Name, ast.Attribute)) and isinstance(n.ctx, ast.Load) and is_pot(n)):
            continue
        if isinstance(n, ast.Name) and id(n) in pm and isinstance(pm[id(n)][0], ast.Attribute) and norm(pm[id(n)][0]) == "self.current_A_applied":
            continue
        par = pm[id(n)][0]
        uses += 1
        ok = False
        why = ""
        if isinstance(par, ast.Assign) and par.value is n:
            ok, why = True, "stored / renamed"
        elif isinstance(par, ast.BinOp) and isinstance(par.op, ast.Sub) and is_pot(par.left) and is_pot(par.right):
            ok, why = True, "difference of two potentials (dA)"
        elif isinstance(par, ast.BinOp) and isinstance(par.op, ast.Add) and {norm(par.left), norm(par.right)} & {induced}:
            g = pm[id(par)][0]
            ok = isinstance(g, ast.Call) and isinstance(g.func, ast.Attribute) and g.func.attr == "set_link_exponents"
            why = "applied + induced -> set_link_exponents"
        elif isinstance(par, ast.Call) and isinstance(par.func, ast.Attribute) and par.func.attr == "set_link_exponents":
            ok, why = True, "-> set_link_exponents"
        elif isinstance(par, ast.Call) and isinstance(par.func, ast.Attribute) and par.func.attr in ("array_equal", "array_equiv"):
            ok, why = True, "exact change test"
        elif isinstance(par, ast.Call) and isinstance(par.func, ast.Attribute) and par.func.attr == "append" and norm(par.func.value) != "running_state":
            ok, why = True, "returned as part of the state"
        elif isinstance(par, ast.Compare) and all(isinstance(c, ast.Constant) and c.value is None for c in par.comparators):
            ok, why = True, "None test"
        elif isinstance(par, ast.Assert):
            ok, why = True, "assert"
        ctx.ob("R04.7", f"update(): L{n.lineno} `{norm(par)[:70]}` ({why or 'unclassified use'})", ok, where=fu.fq,
               construct=f"use of the applied vector potential in `{norm(par)[:60]}`", loc=loc(fu, n),
               message=f"the applied vector potential `{norm(n)}` is used in `{norm(par)[:80]}`, which is neither the link variables, a time "
                       f"difference, the exact change test nor bookkeeping",
               consequence="a gauge-dependent number enters the step: observables change under A -> A + grad chi")
    if uses < 6:
        raise AnalysisError(f"only {uses} uses of the applied potential found in update()")
