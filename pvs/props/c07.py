"""C07 - mesh geometry: only the closed-form clauses (circumcentres, edge geometry, dual-length branches)."""
from __future__ import annotations

import ast

from ..alg import Rat
from ..cfg import guards_of, parent_map
from ..interp import Cols, Field, Opaque, Unsupported, Vec2
from ..model import new_interp
from ..src import rename_id, AnalysisError, loc, norm, own_nodes

UTIL = "tdgl.finite_volume.util"
TECH = ("value numbering of the circumcentre formula (exact identity |U-A|=|U-B|=|U-C|), of the edge-mesh geometry, and "
        "structural rules on edge extraction; the dual-length loop followed statement by statement for an edge with one and with two "
        "incident triangles; backward slice of everything that flows into the cell areas (signed-area primitives must be oriented or "
        "under abs); the tiling/Delaunay/clipped-Voronoi clauses are declined")


def mesh_pairs_sites_and_edges(ctx, rule, consequence):
    """Every `Mesh(sites=S, ..., edge_mesh=E)` in the package: E is `EdgeMesh.from_mesh(S, ...)` for the same S, or both are read
    from one stored mesh, or both are the unchanged attributes of one existing mesh, or E is None (no sub-mesh)."""
    from ..dataflow import expand
    repo = ctx.repo
    n = 0
    for m in repo.modules.values():
        if m.name.startswith("tdgl.test"):
            continue
        for f in m.functions.values():
            for c in own_nodes(f.node):
                if not (isinstance(c, ast.Call) and norm(c.func).split(".")[-1] == "Mesh" and (any(k.arg == "edge_mesh" for k in c.keywords) or len(c.args) >= 6)):
                    continue
                if not any(k.arg == "edge_mesh" for k in c.keywords):
                    continue            # positional construction: judged only when edge_mesh is passed by keyword
                kw = {k.arg: k.value for k in c.keywords if k.arg}
                if "sites" not in kw and c.args:
                    kw["sites"] = c.args[0]
                if "sites" not in kw:
                    continue            # arguments assembled elsewhere (`Mesh(**table)`): not an instance this rule can read
                n += 1
                S, E = kw["sites"], kw["edge_mesh"]
                try:
                    Ex = expand(f.node, E)
                except Exception:
                    Ex = E
                try:
                    st = norm(expand(f.node, S))
                except Exception:
                    st = norm(S)
                et = norm(Ex)
                # alternatives of a conditional definition (`edge_mesh = None` ... `if create_submesh: edge_mesh = EdgeMesh.from_mesh(...)`)
                from ..dataflow import assignments
                alts = [Ex]
                if isinstance(E, ast.Name):
                    alts = [v for _, v in assignments(f.node).get(E.id, []) if v is not None] or [Ex]
                verdicts = []
                for a in alts:
                    at = norm(a)
                    if isinstance(a, ast.Constant) and a.value is None:
                        verdicts.append("ok")
                    elif isinstance(a, ast.Call) and norm(a.func).endswith("EdgeMesh.from_mesh"):
                        a0 = a.args[0] if a.args else next((k.value for k in a.keywords if k.arg == "sites"), None)
                        verdicts.append("ok" if a0 is not None and norm(a0) == st else f"EdgeMesh.from_mesh({norm(a0) if a0 is not None else '?'}, ...) is paired with sites={st}")
                    elif isinstance(a, ast.Call) and norm(a.func).endswith("EdgeMesh.from_hdf5"):
                        verdicts.append("ok" if "h5" in st or "group" in st or "[" in st else f"a stored EdgeMesh is paired with sites={st}")
                    elif isinstance(a, ast.Attribute) and a.attr == "edge_mesh":
                        verdicts.append("ok" if st == norm(a.value) + ".sites" else f"the existing `{at}` is paired with sites={st}")
                    else:
                        raise AnalysisError(f"{f.fq} L{c.lineno}: edge_mesh={at} of a Mesh(...) construction is in no recognised form")
                bad = [v for v in verdicts if v != "ok"]
                ctx.ob(rule, f"{f.qual}: Mesh(sites={st[:40]}, edge_mesh=...) pairs the sites with their own edge mesh", not bad,
                       detail={"sites": st, "edge_mesh": [norm(a)[:80] for a in alts]}, where=f.fq, loc=loc(f, c), construct=f"Mesh construction in {f.qual}",
                       message=f"{f.qual} builds a Mesh in which {'; '.join(bad)}", consequence=consequence)
    ctx.note("mesh_constructions", n)


def check(ctx):
    repo = ctx.repo
    ctx.rule("R07.8", "a mesh restored from a file is the mesh that was saved: every geometric array is read back into the attribute it was written from "
                      "(shared with C14 R14.1 / R14.12)", 4)
    ctx.rule("R07.7", "every hole of the device is handed to the mesh generator (the hole list is not filtered)", 1)
    ctx.rule("R07.9", "terminal membership is computed from the polygons as they are now: memoised polygon geometry is invalidated by every method that "
                      "rebinds what it was computed from (shared with C18 R18.8)", 2)
    ctx.rule("R07.6", "generate_mesh hands the triangulator one coordinate frame: outline, hole outlines, hole markers and boundary points "
                      "are all shifted by the same offset, and the result is shifted back", 1)
    ctx.rule("R07.5", "a constructed mesh is never modified: Mesh/EdgeMesh attributes are written by the constructors only", 1)
    ctx.rule("R07.1", "generate_voronoi_vertices returns the circumcentre: equidistant from the three triangle vertices", 2)
    ctx.rule("R07.2", "edges are sorted unique site pairs; boundary = incidence count one; centres/directions/lengths are those of the site pairs", 6)
    ctx.rule("R07.4", "cell areas are orientation independent: only unsigned area primitives (convex-hull area, abs(...)) flow into them, "
                      "because the vertex order of the auxiliary polygons is not normalised", 2)
    ctx.rule("R07.3", "dual edge length: circumcentre-to-midpoint for one incident triangle, circumcentre-to-circumcentre for two; "
                      "adjacency stores triangle index + 1 and the reader subtracts 1", 3)
    ctx.rule("R07.10", "a Mesh pairs site coordinates with the EdgeMesh built from those coordinates (edge centres move with the sites)", 1)
    mesh_pairs_sites_and_edges(ctx, "R07.10", "a mesh assembled from new site coordinates and the EdgeMesh of the old ones keeps stale edge centres: "
                                              "edge vectors, lengths and centres are no longer those of the site pairs")
    f = repo.func(UTIL, "generate_voronoi_vertices")
    T, ip = new_interp(repo)
    sites = Field("sites", "site", comps=2)
    elements = Field("t", "tri", kind="index", comps=3)
    try:
        ret = ip.call_function(f, [sites, elements], {})
    except Unsupported as e:
        raise AnalysisError(f"generate_voronoi_vertices outside the supported fragment: {e}")
    if not (isinstance(ret, Cols) and len(ret.cols) == 2):
        raise AnalysisError(f"generate_voronoi_vertices returned {ret!r}")
    P = [(T.real(f"sites@t{i}.x"), T.real(f"sites@t{i}.y")) for i in range(3)]
    ux, uy = ret.cols
    d = [(ux - px) * (ux - px) + (uy - py) * (uy - py) for px, py in P]
    ctx.ob("R07.1", "|U - A|^2 == |U - B|^2", d[0] == d[1], detail={"U": str(ret)[:300]}, where=f.fq, construct="circumcentre A/B",
           loc=loc(f, f.node), message="the returned point is not equidistant from vertices A and B",
           consequence="Voronoi vertices are not circumcentres: dual edge lengths and cell areas are not those of the Voronoi diagram")
    ctx.ob("R07.1", "|U - A|^2 == |U - C|^2", d[0] == d[2], where=f.fq, construct="circumcentre A/C", loc=loc(f, f.node),
           message="the returned point is not equidistant from vertices A and C", consequence="same")
    # R07.2 get_edges
    fe = repo.func(UTIL, "get_edges")
    calls = [n for n in own_nodes(fe.node) if isinstance(n, ast.Call)]
    src = [norm(c) for c in calls]

    def kw(c, name):
        return next((norm(k.value) for k in c.keywords if k.arg == name), None)
    ok = any(norm(c.func).endswith("np.sort") and kw(c, "axis") == "1" for c in calls)
    ctx.ob("R07.2", "edges are sorted within each pair (np.sort(axis=1))", ok, detail=src, where=fe.fq, construct="edge sort",
           message="edges are not sorted per pair", consequence="(i,j) and (j,i) count as different edges: no boundary is detected")
    ok = any(norm(c.func).endswith("np.unique") and kw(c, "return_counts") == "True" and kw(c, "axis") == "0" for c in calls)
    ctx.ob("R07.2", "edges are unique rows with incidence counts", ok, detail=src, where=fe.fq, construct="edge unique",
           message="edges are not deduplicated with counts", consequence="interior edges appear twice")
    rets = [n for n in own_nodes(fe.node) if isinstance(n, ast.Return)]
    okb = False
    if len(rets) == 1 and isinstance(rets[0].value, ast.Tuple) and len(rets[0].value.elts) == 2:
        from ..dataflow import expand as _expand
        c = _expand(fe.node, rets[0].value.elts[1])           # through a temporary (`is_boundary = counts == 1`)
        if isinstance(c, ast.Compare) and isinstance(c.comparators[0], ast.Constant):
            v = c.comparators[0].value
            okb = (isinstance(c.ops[0], ast.Eq) and v == 1) or (isinstance(c.ops[0], ast.Lt) and v == 2) or (isinstance(c.ops[0], ast.LtE) and v == 1)
    ctx.ob("R07.2", "boundary edge <=> exactly one incident triangle (predicate on counts in {1,2})", okb,
           detail=[norm(r) for r in rets], where=fe.fq, construct="boundary predicate", message="boundary predicate is not `count == 1`",
           consequence="interior edges are classified as boundary (or vice versa): wrong terminal lengths and boundary conditions")
    tri = [norm(n) for n in ast.walk(fe.node) if isinstance(n, (ast.List, ast.Tuple)) and n.elts and all(isinstance(e, (ast.Tuple, ast.List)) for e in n.elts) and len(n.elts) == 3]
    # ... or a module-level table of the sides that the function iterates over
    from ..smallstep import module_constants as _mc
    used = {x.id for x in ast.walk(fe.node) if isinstance(x, ast.Name)}
    for nm_, v_ in _mc(fe.module.tree).items():
        if nm_ in used and isinstance(v_, (list, tuple)) and len(v_) == 3 and all(isinstance(p_, (list, tuple)) and len(p_) == 2 for p_ in v_):
            tri.append(str([tuple(p_) for p_ in v_]))
    tri = [t_.replace("[[", "[(").replace("]]", ")]").replace("], [", "), (").replace("((", "[(").replace("))", ")]") if t_.startswith(("[[", "((")) else t_ for t_ in tri]
    ctx.ob("R07.2", "the three sides (0,1),(1,2),(2,0) of every triangle are enumerated", tri == ["[(0, 1), (1, 2), (2, 0)]"], detail=tri,
           where=fe.fq, construct="triangle sides", message=f"sides enumerated: {tri}", consequence="an edge of every triangle is missing from the mesh")
    # edge geometry (same obligations as C03 R03.6, from EdgeMesh.from_mesh)
    ffm = repo.func("tdgl.finite_volume.edge_mesh", "EdgeMesh.from_mesh")
    T2, ip2 = new_interp(repo)
    ip2.func_overrides[f"{UTIL}:get_edges"] = lambda I, a, k: (Field("e", "edge", kind="index", comps=2), Opaque("is_boundary"))
    ip2.func_overrides[f"{UTIL}:get_dual_edge_lengths"] = lambda I, a, k: Field("s", "edge", sign="pos")
    em = ip2.call_function(ffm, [Field("sites", "site", comps=2), Opaque("elements"), Opaque("dual_sites")], {})
    x0, y0, x1, y1 = T2.real("sites@e0.x"), T2.real("sites@e0.y"), T2.real("sites@e1.x"), T2.real("sites@e1.y")
    dirs, el, ctr = em.attrs["directions"], em.attrs["edge_lengths"], em.attrs["centers"]
    half = Rat.const(T2, 1) / 2
    ok = isinstance(dirs, Vec2) and dirs.x == x1 - x0 and dirs.y == y1 - y0 and isinstance(el, Rat) and \
        el == T2.sqrt_of((x1 - x0) ** 2 + (y1 - y0) ** 2)
    ctx.ob("R07.2", "edge vectors and lengths are those of the site pairs", ok, detail={"directions": repr(dirs), "lengths": repr(el)},
           where=ffm.fq, construct="edge vectors/lengths", loc=loc(ffm, ffm.node), message="edge vectors/lengths are not r_j - r_i and its norm",
           consequence="edge lengths differ from the site distances")
    ok = isinstance(ctr, Vec2) and ctr.x == (x0 + x1) * half and ctr.y == (y0 + y1) * half
    ctx.ob("R07.2", "edge centres are the midpoints of the site pairs", ok, detail=repr(ctr), where=ffm.fq, construct="edge centres",
           message="edge centres are not midpoints", consequence="terminal membership and potentials are evaluated off the edges")
    # R07.3
    fd = repo.func(UTIL, "get_dual_edge_lengths")
    pm = parent_map(fd.node)
    # the result array: the name returned by the function
    rets = [n.value for n in own_nodes(fd.node) if isinstance(n, ast.Return)]
    res = norm(rets[0]) if len(rets) == 1 else "?"
    # the loop that fills the result, followed once for an edge with one and with two incident triangles (pvs/smallstep.py)
    from ..smallstep import Machine, Opaque as SOpaque, render
    loops = [n for n in own_nodes(fd.node) if isinstance(n, ast.For) and any(
        isinstance(t, ast.Subscript) and isinstance(t.ctx, ast.Store) and norm(t.value) == res for t in ast.walk(n))]
    whole = len(loops) != 1 or not (isinstance(loops[0].iter, ast.Call) and norm(loops[0].iter.func) == "enumerate"
                                    and isinstance(loops[0].target, ast.Tuple) and len(loops[0].target.elts) == 2
                                    and all(isinstance(x, ast.Name) for x in loops[0].target.elts))
    if not whole:
        lp = loops[0]
        ivar, evar = (x.id for x in lp.target.elts)
    by = {}
    for count in (1, 2):
        tris = [SOpaque(f"t{k}") for k in range(count)]

        def attrs(text, tris=tris):
            if "[frozenset(" in text:          # the triangles incident to this edge
                return list(tris)
            return NotImplemented
        if not whole:
            m = Machine({ivar: SOpaque("i"), evar: SOpaque("edge")}, attrs, lambda *a: NotImplemented, fuel=8)
            m.run(lp.body)
        else:
            # the result is not filled by one plain loop (helpers, a generator of end points ...): the whole function is followed for
            # a mesh with one edge; loops over other opaque sequences (the adjacency entries) contribute nothing to that edge
            from ..smallstep import module_constants as _mc2
            params_ = [a_.arg for a_ in fd.node.args.args]
            if "edges" not in params_:
                raise AnalysisError(f"get_dual_edge_lengths takes {params_}")

            class _M(Machine):
                def iterate(self, v, node):
                    if isinstance(v, SOpaque):
                        if v.text == "edges":
                            return [SOpaque("edge")]
                        if v.parts and v.parts[0] == "call" and v.parts[1] == "enumerate" and v.parts[2] and v.parts[2][0] == SOpaque("edges"):
                            return [(SOpaque("i"), SOpaque("edge"))]
                        return []
                    return super().iterate(v, node)
            env_ = dict(_mc2(fd.module.tree))
            env_.update({p_: SOpaque(p_) for p_ in params_})
            m = _M(env_, attrs, lambda *a: NotImplemented, fuel=8, undecided=lambda t_: None)
            try:
                kind_, _ = m.run_function(fd.node)
            except AnalysisError as e_:
                raise AnalysisError(f"get_dual_edge_lengths does not fill its result in one `for i, edge in enumerate(edges)` loop and cannot be "
                                    f"followed as a whole either: {e_}")
            if kind_ != "return":
                raise AnalysisError("get_dual_edge_lengths raises in the model for a mesh with one edge")
        res_texts = {res} | ({render(m.env[res])} if whole and res in m.env else set())
        st = [(b_, i_, v_) for b_, i_, v_ in m.stores if b_ in res_texts]
        if whole and not st:
            raise AnalysisError("get_dual_edge_lengths followed as a whole stores nothing into its result in the model")
        desc = None
        if len(st) == 1 and st[0][1] == SOpaque("i"):
            v = st[0][2]
            if isinstance(v, SOpaque) and v.parts and v.parts[0] == "call" and v.parts[1].endswith("linalg.norm") and len(v.parts[2]) == 1 \
                    and not v.parts[3]:
                d = v.parts[2][0]
                if isinstance(d, SOpaque) and d.parts and d.parts[0] == "Sub":
                    desc = "|" + " - ".join(sorted(render(x) for x in d.parts[1:])) + "|"
            desc = desc or render(v)
        by["one" if count == 1 else "two"] = desc or f"{len(st)} stores"
    ok = by.get("one") == "|dual_sites[t0] - edge_centers[i]|" and by.get("two") == "|dual_sites[t0] - dual_sites[t1]|"
    ctx.ob("R07.3", "one incident triangle: |circumcentre - edge midpoint|; two: |circumcentre_0 - circumcentre_1|", ok, detail={str(k): v for k, v in by.items()},
           where=fd.fq, construct="dual length branches", loc=loc(fd, fd.node), message=f"dual length branches: {by}",
           consequence="dual edge lengths are not the Voronoi face lengths: the Laplacian weights are wrong")
    fa = repo.func(UTIL, "make_adj_directed_tri_indices")
    from ..dataflow import expanded_text as _xt
    plus1 = any(_xt(fa.node, n).replace(" ", "") == "np.repeat(np.arange(1,elements.shape[0]+1),3)" for n in own_nodes(fa.node)
                if isinstance(n, ast.Call) and norm(n.func).endswith("repeat"))
    minus1 = any(isinstance(n, ast.Call) and norm(n.func).endswith(".append") and n.args and isinstance(n.args[0], ast.BinOp)
                 and isinstance(n.args[0].op, ast.Sub) and norm(n.args[0].right) == "1" for n in ast.walk(fd.node))
    ctx.ob("R07.3", "adjacency stores triangle index + 1; the reader subtracts 1", plus1 and minus1, detail={"writer+1": plus1, "reader-1": minus1},
           where=fd.fq, construct="adjacency offset", message="the +1/-1 offset of the triangle adjacency is inconsistent",
           consequence="dual lengths are computed from the wrong triangles (off by one)")
    keys = [norm(n) for n in ast.walk(fd.node) if isinstance(n, ast.Call) and norm(n.func) == "frozenset"]
    ctx.ob("R07.3", "edges are matched to triangles as unordered pairs", len(keys) == 2, detail=keys, where=fd.fq, construct="edge keys",
           message=f"edge keys: {keys}", consequence="an edge misses one of its two triangles")
    mesher_frames(ctx)
    holes_passed(ctx)
    cell_area_signs(ctx)
    from ..report import Shared
    from . import c14
    sh = Shared(ctx, {"R14.12": "R07.8", "R14.1": "R07.8"}, only=lambda inst: inst.startswith(("EdgeMesh", "Mesh")),
                consequence="a reloaded mesh reports edge lengths, dual (Voronoi) edge lengths or areas that are not those of its sites and triangles")
    c14.roundtrips(sh)
    c14.key_attribute_agreement(sh)
    ctx.decline("tiling of film minus holes, Euler characteristic, positive orientation and non-degeneracy of triangles (Triangle/meshpy), "
                "clipped Voronoi areas of boundary cells (qhull convex hulls), terminal length 'to within one edge' (matplotlib path "
                "membership): computed by external native libraries - no static argument in reach")
    from ..effects import memo_discipline
    memo_discipline(ctx, "R07.9", "a terminal polygon moved in place (Device.translate(inplace=True), `with device.translation(...)`) keeps answering "
                                  "containment queries with its old outline: Device.terminal_info() then selects other boundary edges and the terminal "
                                  "length is no longer the boundary length the terminal covers")
    from ..effects import mesh_immutable
    mesh_immutable(ctx, "R07.5", 'a Mesh object shared with another device (Device.copy(with_mesh=True)) or solution moves or changes under it: its triangulation no longer tiles film minus holes and its areas / dual edges disagree with its sites')
    ctx.assume("terminal length sums boundary edge lengths over the terminal's boundary edges: decided under C01 R01.4")


def cell_area_signs(ctx):
    """R07.4: a signed area (det / cross based) must not flow into the Voronoi cell areas unless its input was oriented or abs() is taken."""
    from ..dataflow import expand
    repo = ctx.repo
    # signed-area functions of the library: return value built from det / cross without abs
    signed = set()
    for g in repo.module(UTIL).functions.values():
        src = norm(g.node)
        if ("linalg.det(" in src or "np.cross(" in src) and "abs(" not in src and "absolute(" not in src:
            signed.add(g.qual)
    ctx.note("signed_area_functions", sorted(signed))
    f = repo.func(UTIL, "compute_voronoi_polygon_areas")
    fn = f.node
    rets = [n.value for n in own_nodes(fn) if isinstance(n, ast.Return)]
    if len(rets) != 1 or not isinstance(rets[0], ast.Tuple):
        raise AnalysisError("compute_voronoi_polygon_areas no longer returns (areas, polygons)")
    res = norm(rets[0].elts[0])
    # backward slice from the stores into the cell-area array: every arithmetic contribution (through locals, tuple assignments and
    # augmented assignments) is followed up to the call that produced it; a call is judged by its callee
    def _elem(target, value, want):
        """value expression assigned to the target element `want` of a (possibly tuple) assignment"""
        if target is want:
            return value
        if isinstance(target, (ast.Tuple, ast.List)):
            for i, x in enumerate(target.elts):
                if x is want or any(y is want for y in ast.walk(x)):
                    if isinstance(value, (ast.Tuple, ast.List)) and len(value.elts) == len(target.elts):
                        return _elem(x, value.elts[i], want)
                    return value
        return value
    stores = []           # (statement, contributed expression)
    for n in own_nodes(fn):
        if isinstance(n, ast.Assign):
            for t in n.targets:
                for x in ast.walk(t):
                    if isinstance(x, ast.Subscript) and norm(x.value) == res and isinstance(x.ctx, ast.Store):
                        stores.append((n, _elem(t, n.value, x)))
        elif isinstance(n, ast.AugAssign) and isinstance(n.target, ast.Subscript) and norm(n.target.value) == res:
            stores.append((n, n.value))
    if len(stores) < 1:
        raise AnalysisError(f"no store into the cell-area array found")

    def _position(target, want):
        """index of the element of a tuple target that holds `want` (None: not a tuple target)"""
        if isinstance(target, (ast.Tuple, ast.List)):
            for i, x in enumerate(target.elts):
                if x is want or any(y is want for y in ast.walk(x)):
                    return i
        return None
    nested = {d.name: d for d in fn.body if isinstance(d, ast.FunctionDef)}
    from ..dataflow import possible_callees

    def defs_of(scope):
        defs = {}
        for n in own_nodes(scope):
            if isinstance(n, ast.Assign):
                for t in n.targets:
                    for x in ast.walk(t):
                        if isinstance(x, ast.Name) and isinstance(x.ctx, ast.Store):
                            defs.setdefault(x.id, []).append((n, _elem(t, n.value, x), _position(t, x)))
            elif isinstance(n, ast.AugAssign) and isinstance(n.target, ast.Name):
                defs.setdefault(n.target.id, []).append((n, n.value, None))
        return defs
    contributions = []    # (statement, call expression or leaf, scope) reaching the area array arithmetically
    store_pos = []
    for n in own_nodes(fn):
        if isinstance(n, ast.Assign):
            for t in n.targets:
                for x in ast.walk(t):
                    if isinstance(x, ast.Subscript) and norm(x.value) == res and isinstance(x.ctx, ast.Store):
                        store_pos.append((n, _elem(t, n.value, x), _position(t, x), fn))
        elif isinstance(n, ast.AugAssign) and isinstance(n.target, ast.Subscript) and norm(n.target.value) == res:
            store_pos.append((n, n.value, None, fn))
    seen_names = set()
    followed = set()
    todo = list(store_pos)
    while todo:
        st, e, pos, scope = todo.pop()
        defs = defs_of(scope)

        def visit(x, st=st, pos=pos, scope=scope, defs=defs):
            if isinstance(x, ast.Call):
                # a call of a nested function of this file's function (directly or through a local that holds one of several):
                # what it returns - the element that lands in the area - is followed inside it
                callees = [c_ for c_ in possible_callees(fn, x) if c_ in nested] if scope is fn else \
                    ([x.func.id] if isinstance(x.func, ast.Name) and x.func.id in nested else [])
                if callees and len(callees) == len(possible_callees(fn, x) if scope is fn else callees):
                    for c_ in callees:
                        if (c_, pos) in followed:
                            continue
                        followed.add((c_, pos))
                        for r in own_nodes(nested[c_]):
                            if isinstance(r, ast.Return) and r.value is not None:
                                rv = r.value
                                if pos is not None and isinstance(rv, ast.Tuple) and len(rv.elts) > pos:
                                    rv = rv.elts[pos]
                                todo.append((r, rv, None, nested[c_]))
                    return
                contributions.append((st, x, scope))
                return                          # what goes INTO a call is judged with the call
            if isinstance(x, ast.Name) and isinstance(x.ctx, ast.Load):
                if (id(scope), x.id) not in seen_names:
                    seen_names.add((id(scope), x.id))
                    todo.extend((a_, b_, c_, scope) for a_, b_, c_ in defs.get(x.id, []))
                    if scope is not fn and x.id not in defs:          # a free variable of the nested function: defined in the enclosing one
                        todo.extend((a_, b_, c_, fn) for a_, b_, c_ in defs_of(fn).get(x.id, []))
                return
            if isinstance(x, ast.Subscript):
                visit(x.value)                  # the index does not contribute a value
                return
            for c in ast.iter_child_nodes(x):
                visit(c)
        visit(e)
    if not contributions:
        raise AnalysisError("no area primitive reaches the cell-area array in the slice")
    ctx.note("area_contributions", sorted({norm(c.func) for _, c, _ in contributions}))
    bad = []
    for st, c, scope in contributions:
        e = expand(scope, c)
        for c2 in ast.walk(e):
            if isinstance(c2, ast.Call):
                nm = norm(c2.func).split(".")[-1]
                if nm in signed or nm in ("det", "cross"):
                    oriented = any(isinstance(a_, ast.Call) and norm(a_.func).endswith("orient_convex_polygon") for a_ in c2.args)
                    under_abs = any(isinstance(w, ast.Call) and norm(w.func).split(".")[-1] in ("abs", "absolute", "fabs")
                                    and any(x is c2 for x in ast.walk(w)) for w in ast.walk(e))
                    if not oriented and not under_abs:
                        bad.append(f"L{st.lineno}: {norm(st)[:80]}")
    ctx.ob("R07.4", "only unsigned area primitives flow into the cell areas", not bad, detail={"stores": [norm(s_)[:70] for s_, _ in stores], "signed_flows": bad},
           where=f.fq, construct="signed area flowing into cell areas", loc=loc(f, fn),
           message=f"a signed (orientation dependent) area is added to / subtracted from a cell area: {bad}",
           consequence="at boundary sites where the auxiliary triangle (midpoint, site, midpoint) happens to be clockwise - reentrant corners, "
                       "notches, the index wrap-around sites of a hole - the correction has the wrong sign and the cell area is too large",
           witness={"input": "L-shaped film: the cell at the 270-degree corner"})
    fh = repo.func(UTIL, "get_convex_polygon_area")
    # the returned area (first element of a returned pair) is `<h>.volume` with <h> = ConvexHull(coords), whatever <h> is called
    from ..dataflow import expanded_text
    areas_ret = [expanded_text(fh.node, r.value.elts[0]) for r in own_nodes(fh.node)
                 if isinstance(r, ast.Return) and isinstance(r.value, ast.Tuple) and r.value.elts]
    from ..dataflow import assignments as _asg

    def hull_volume(r):
        """`<h>.volume` where every definition of <h> other than `None` is `ConvexHull(...)` (a sentinel `h = None` before a guarded
        construction is the same value on the path that returns it)"""
        e = r.value.elts[0]
        if isinstance(e, ast.Attribute) and e.attr == "volume" and isinstance(e.value, ast.Name):
            defs = [v for _, v in _asg(fh.node).get(e.value.id, []) if v is not None and not (isinstance(v, ast.Constant) and v.value is None)]
            return bool(defs) and all(isinstance(v, ast.Call) and norm(v.func).split(".")[-1] == "ConvexHull" for v in defs)
        return False
    rets = [r for r in own_nodes(fh.node) if isinstance(r, ast.Return) and isinstance(r.value, ast.Tuple) and r.value.elts]
    is_hull = [(t.endswith(".volume") and t.startswith("ConvexHull(")) or hull_volume(r) for t, r in zip(areas_ret, rets)]
    ok = any(is_hull) and all(h or t in ("0", "0.0") for h, t in zip(is_hull, areas_ret))
    ctx.ob("R07.4", "get_convex_polygon_area returns the (unsigned) convex-hull area", ok, where=fh.fq, construct="get_convex_polygon_area",
           message="get_convex_polygon_area no longer returns hull.volume", consequence="cell areas depend on vertex order")


# ---------------------------------------------------------------------------
# R07.6 coordinate frames in generate_mesh
# ---------------------------------------------------------------------------

def mesher_frames(ctx):
    """A two-point type system: U = the user's frame, C = the centred frame (U - r0).  `x - r0`: U -> C, `x + r0`: C -> U;
    anything else keeps the frame of its array argument.  Everything given to the MeshInfo must be C (the frame of the points),
    membership tests compare equal frames, and what is returned is U."""
    repo = ctx.repo
    f = repo.func("tdgl.device.meshing", "generate_mesh")
    fn = f.node
    params = {a.arg for a in fn.args.args + fn.args.kwonlyargs}
    coord_params = {p_ for p_ in ("poly_coords", "hole_coords", "boundary") if p_ in params}
    if len(coord_params) < 2:
        raise AnalysisError("generate_mesh no longer takes poly_coords / hole_coords")
    # the offset: right operand of the subtraction whose result reaches set_points
    setp = [c for c in own_nodes(fn) if isinstance(c, ast.Call) and isinstance(c.func, ast.Attribute) and c.func.attr == "set_points"]
    if len(setp) != 1 or not isinstance(setp[0].args[0], ast.Name):
        raise AnalysisError("generate_mesh no longer calls mesh_info.set_points(<name>)")
    pts_name = setp[0].args[0].id
    off = None
    for n in own_nodes(fn):
        if isinstance(n, ast.Assign) and any(isinstance(t, ast.Name) and t.id == pts_name for t in n.targets) \
                and isinstance(n.value, ast.BinOp) and isinstance(n.value.op, ast.Sub) and isinstance(n.value.right, ast.Name):
            off = n.value.right.id
    env = {p_: "U" for p_ in coord_params}
    problems = []
    sinks = 0

    offs = {off} if off is not None else set()          # the offset and its aliases (`origin = r0.squeeze()`)

    def is_off(e):
        # r0, r0.squeeze(), r0[0] ...: an expression over the offset name (or an alias of it) alone
        names = {x.id for x in ast.walk(e) if isinstance(x, ast.Name)}
        return off is not None and isinstance(e, (ast.Name, ast.Call, ast.Attribute, ast.Subscript)) and bool(names) and names <= offs

    def fr(e, loc_env):
        """frame of an expression: 'U', 'C' or None (not a coordinate)"""
        if isinstance(e, ast.Name):
            return loc_env.get(e.id)
        if isinstance(e, ast.BinOp) and isinstance(e.op, (ast.Sub, ast.Add)):
            l, r = fr(e.left, loc_env), fr(e.right, loc_env)
            if is_off(e.right) and l is not None:
                if isinstance(e.op, ast.Sub):
                    if l != "U":
                        problems.append((e, f"`{norm(e)[:60]}` subtracts the offset from a value that is already centred"))
                    return "C"
                if l != "C":
                    problems.append((e, f"`{norm(e)[:60]}` adds the offset to a value in the user's frame"))
                return "U"
            if l and r and l != r:
                problems.append((e, f"`{norm(e)[:60]}` combines the two frames"))
            return l or r
        if isinstance(e, (ast.Subscript, ast.Starred)):
            return fr(e.value, loc_env)
        if isinstance(e, ast.Attribute):
            return fr(e.value, loc_env)
        if isinstance(e, (ast.List, ast.Tuple)):
            fs = {fr(x, loc_env) for x in e.elts} - {None}
            if len(fs) > 1 and isinstance(e, ast.List) and getattr(e, "_concatenated", False):
                problems.append((e, f"`{norm(e)[:60]}` mixes the two frames"))
            return next(iter(fs)) if len(fs) == 1 else None
        if isinstance(e, (ast.ListComp, ast.GeneratorExp)):
            le = dict(loc_env)
            for g in e.generators:
                if isinstance(g.target, ast.Name):
                    le[g.target.id] = fr(g.iter, le)
            return fr(e.elt, le)
        if isinstance(e, ast.Call):
            if norm(e.func).split(".")[-1] in ("concatenate", "vstack", "hstack", "stack") and e.args and isinstance(e.args[0], ast.List):
                e.args[0]._concatenated = True
            fs = [fr(a, loc_env) for a in e.args] + [fr(k.value, loc_env) for k in e.keywords]
            if isinstance(e.func, ast.Attribute):
                fs.append(fr(e.func.value, loc_env))
            fs = [x for x in fs if x]
            return fs[0] if fs else None
        if isinstance(e, ast.IfExp):
            return fr(e.body, loc_env) or fr(e.orelse, loc_env)
        return None

    def walk(stmts):
        nonlocal sinks
        for st in stmts:
            if isinstance(st, ast.Assign):
                if is_off(st.value) and len(st.targets) == 1 and isinstance(st.targets[0], ast.Name):
                    offs.add(st.targets[0].id)
                    continue
                v = fr(st.value, env)
                # mesh = triangle.build(mesh_info=...): its points are in the frame of the points it was given
                if isinstance(st.value, ast.Call) and norm(st.value.func).endswith(".build"):
                    v = env.get("@meshinfo")
                for t in st.targets:
                    if isinstance(t, ast.Name):
                        if t.id in offs:
                            continue
                        if v:
                            env[t.id] = v
                        elif not (isinstance(st.value, (ast.List, ast.Tuple)) and not st.value.elts):   # `x = []` default keeps the frame
                            env.pop(t.id, None)
                    elif isinstance(t, ast.Tuple):
                        if isinstance(st.value, ast.Tuple) and len(st.value.elts) == len(t.elts):
                            for x, vx in zip(t.elts, st.value.elts):          # a, b = (A, B)
                                if isinstance(x, ast.Name):
                                    fx = fr(vx, env)
                                    if fx:
                                        env[x.id] = fx
                                    else:
                                        env.pop(x.id, None)
                        else:
                            for x in t.elts:
                                if isinstance(x, ast.Name):
                                    env.pop(x.id, None)
            for c in ast.walk(st) if not isinstance(st, (ast.For, ast.While, ast.If)) else ast.walk(getattr(st, "test", None) or getattr(st, "iter", st)):
                if isinstance(c, ast.Call) and isinstance(c.func, ast.Attribute) and c.func.attr in ("set_points", "set_holes"):
                    sinks += 1
                    got = fr(c.args[0], env)
                    if c.func.attr == "set_points":
                        env["@meshinfo"] = got
                    want = "C" if off else env.get("@meshinfo")
                    if got != want:
                        problems.append((c, f"`{norm(c)[:70]}` receives coordinates in the {'user' if got == 'U' else got} frame, "
                                            f"the points are in the {'centred' if want == 'C' else want} frame"))
                if isinstance(c, ast.Compare) and len(c.ops) == 1 and isinstance(c.ops[0], (ast.In, ast.NotIn)):
                    a, b = fr(c.left, env), fr(c.comparators[0], env)
                    if a and b:
                        sinks += 1
                        if a != b:
                            problems.append((c, f"`{norm(c)[:70]}` tests membership across frames ({a} in {b})"))
            if isinstance(st, ast.Return) and isinstance(st.value, ast.Tuple) and st.value.elts:
                sinks += 1
                got = fr(st.value.elts[0], env)
                if got != "U":
                    problems.append((st, f"`{norm(st)[:60]}` returns points in the {'centred' if got == 'C' else got} frame"))
            if isinstance(st, ast.For):
                if isinstance(st.target, ast.Name):
                    v = fr(st.iter, env)
                    if v:
                        env[st.target.id] = v
                walk(st.body)
            elif isinstance(st, ast.While):
                walk(st.body)
            elif isinstance(st, ast.If):
                walk(st.body)
                walk(st.orelse)
    walk(fn.body)
    for node, msg in problems:
        ctx.ob("R07.6", f"frame error: {msg[:90]}", False, where=f.fq, construct=f"coordinate frames in generate_mesh: {msg[:60]}", loc=loc(f, node),
               message=f"generate_mesh: {msg}",
               consequence="for a device that is not centred on the origin the hole markers (or boundary points) are not where the outline is: "
                           "holes are meshed over, or the film is carved away - the mesh does not tile film minus holes",
               witness={"input": "a ring centred at (7, 4)"})
    ctx.ob("R07.6", f"{sinks} frame-sensitive sites of generate_mesh agree (offset `{off}`)", not problems and sinks >= 4 and off is not None,
           detail={"sites": sinks, "offset": off}, where=f.fq, construct="coordinate frames in generate_mesh (summary)", loc=loc(f, fn),
           message="generate_mesh no longer centres its coordinates consistently" if not problems else "see the frame errors above",
           consequence="see above")


def holes_passed(ctx):
    repo = ctx.repo
    f = repo.func("tdgl.device.device", "Device.make_mesh")
    calls = [c for c in own_nodes(f.node) if isinstance(c, ast.Call) and norm(c.func).split(".")[-1] == "generate_mesh"]
    if len(calls) != 1:
        raise AnalysisError("Device.make_mesh no longer calls generate_mesh exactly once")
    hc = next((k.value for k in calls[0].keywords if k.arg == "hole_coords"), calls[0].args[1] if len(calls[0].args) > 1 else None)
    from ..dataflow import expand
    hc = expand(f.node, hc) if hc is not None else None
    ok = isinstance(hc, (ast.ListComp, ast.GeneratorExp)) and len(hc.generators) == 1 and not hc.generators[0].ifs \
        and norm(hc.generators[0].iter) == "self.holes" and isinstance(hc.elt, ast.Attribute) and hc.elt.attr == "points" \
        and norm(hc.elt.value) == norm(hc.generators[0].target)
    outline = calls[0].args[0] if calls[0].args else next((k.value for k in calls[0].keywords if k.arg == "poly_coords"), None)
    ok = ok and outline is not None and norm(expand(f.node, outline)) == "self.film.points"
    ctx.ob("R07.7", "generate_mesh(self.film.points, hole_coords=[h.points for h in self.holes]) - all holes, unfiltered", bool(ok),
           detail={"hole_coords": norm(hc) if hc is not None else None, "outline": norm(outline) if outline is not None else None},
           where=f.fq, construct="holes handed to the mesher", loc=loc(f, calls[0]),
           message=f"make_mesh hands the mesher `{norm(hc) if hc is not None else None}`: not every hole of the device is carved out",
           consequence="a hole that is skipped (e.g. one whose Polygon.mesh flag is False, as set on every polygon once used as a terminal) stays in "
                       "device.holes but is meshed over: the triangulation does not tile film minus holes")
