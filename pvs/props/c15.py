"""C15 - a stopped simulation leaves a clean, readable, truthful output."""
from __future__ import annotations

import ast
from typing import Dict, List, Set

from ..cfg import Builder, build_cfg, default_may_raise, guards_of, parent_map
from ..smallstep import render as render_
from ..src import rename_id, AnalysisError, loc, norm, own_nodes

RUNNER = "tdgl.solver.runner"
SOLVER = "tdgl.solver.solver"
TECH = ("predicates on traces: the output-file protocol of DataHandler followed against a model file system, the simulation loop followed with "
        "interrupts injected in the n-th update / save; context-manager discipline; open-mode audit over the call graph; create-then-fill rule on the "
        "CFG of the frame writer; who-may-swallow audit of exception handlers")


def is_acquire(s: ast.stmt):
    """name = h5py.File(path, 'x'...) / tempfile.TemporaryDirectory()  -> (target text, kind, path expr)"""
    if isinstance(s, ast.Assign) and len(s.targets) == 1 and isinstance(s.value, ast.Call):
        f = norm(s.value.func)
        if f.endswith("h5py.File") or f == "File":
            return norm(s.targets[0]), "h5file", (norm(s.value.args[0]) if s.value.args else None)
        if f.endswith("TemporaryDirectory"):
            return norm(s.targets[0]), "tempdir", None
    return None


def check(ctx):
    repo = ctx.repo
    ctx.rule("R15.10", "the final frame is written exactly once, also when the run is cancelled at a step that was just saved (shared with C05 R05.9)", 1)
    ctx.rule("R15.9", "an error in the update or in the recorder is never swallowed: every handler in the solver / operator / recorder modules "
                      "that does not re-raise is one of the confirmed ones (refused psi update, name retry, cancellation)", 4)
    ctx.rule("R15.8", "the partial solution can be assembled from a file with zero recorded steps: every aggregation of a "
                      "loop-filled list in the record reader is guarded against the empty list", 4)
    ctx.rule("R15.6", "an abandoned update() cannot have touched the state the Runner still holds: solver outputs are fresh arrays", 12)
    ctx.rule("R15.7", "... and update() never writes into the arrays it is handed", 1)
    ctx.rule("R15.1", "no exception edge leaves a file acquisition while an earlier file of the same attempt is still open and on disk", 1)
    ctx.rule("R15.2", "DataHandler is only used as a context manager; __exit__ always closes and never swallows; close() releases "
                      "everything __enter__ acquired", 4)
    ctx.rule("R15.3", "files are only ever created exclusively ('x'); 'r+' only on the file this run created; retry on name clash increments the serial", 3)
    ctx.rule("R15.4", "cancellation: the interrupt handler either resumes or cancels; a cancelled recorded stage still yields a Solution", 4)
    ctx.rule("R15.12", "per-step records are appended once per update, after the step is complete (shared with C05 R05.3)", 1)
    ctx.rule("R15.11", "an error raised inside a step stops the run as that error (shared predicate with C12 R12.8)", 1)
    ctx.rule("R15.5", "a frame group is either complete or absent: failures while filling a created group remove it", 1)
    create_output(ctx)
    context_manager(ctx)
    open_modes(ctx)
    cancellation(ctx)
    frame_atomicity(ctx)
    from ..effects import fresh_outputs, input_purity
    fresh_outputs(ctx, "R15.6", "after Ctrl-C inside update() the Runner writes (or keeps) the previous step's state, part of which has already been overwritten by the abandoned step: the file's last frame is not the state of any step")
    input_purity(ctx, "R15.7", modules=("tdgl.solver", "tdgl.finite_volume"), min_functions=60, consequence='an update() abandoned by an interrupt has already modified the arrays of the previous state that the Runner goes on to save')
    frs_ = repo.func(RUNNER, "Runner._run_stage")
    from ..run_rules import loop_verdicts
    Vl = loop_verdicts(repo)
    bad10 = Vl["final_once"] + [x for x in Vl["cancel"] if "frames saved at" in x]
    ctx.ob("R15.10", "every step is written at most once: the final step of a finished stage and the interrupted step of a cancelled one "
                     "are saved exactly once (loop traces, save_every = 1, 2, 3)", not bad10, detail=bad10[:3], where=frs_.fq,
           construct="saves on the last iteration", loc=loc(frs_, frs_.node), message=f"{bad10[:1]}",
           consequence="a run cancelled inside the update of a step that was just saved holds that frame twice (the second one with "
                       "an empty record): the file has one frame more than was recorded before the stop")
    swallowed_errors(ctx)
    empty_records(ctx)
    ctx.assume("h5py.File.close() flushes; the OS honours exclusive creation")
    ctx.decline("SWMR semantics, OS-level file locking, asynchronous interrupts between bookkeeping statements")


def create_output(ctx):
    """R15.1 / R15.3 on the traces of DataHandler._create_output_file (pvs/handler_trace.py): the method is followed against a model
    file system for nine situations (nothing exists; the requested name exists; it and `-1` exist; a stale tmp file exists; a stale
    tmp file and `-1` exist; no output requested; a dot in the directory name with and without a name clash, with and without a
    suffix) and every open / close / remove is compared with the protocol."""
    from ..handler_trace import create_scenarios, trace_create
    repo = ctx.repo
    f = repo.func(RUNNER, "DataHandler._create_output_file")
    wrong_name, non_excl, leaks, touched = [], [], [], []
    n_open = 0
    for sc in create_scenarios():
        t = trace_create(repo, sc)
        tag = sc["name"]
        opens = t.kinds("OPEN")
        n_open += len(opens)
        for e in opens:
            if e.mode != "x":
                non_excl.append(f"[{tag}] {e.path} is opened with mode {e.mode!r}")
        if t.outcome[0] == "diverges":
            wrong_name.append(f"[{tag}] no name is ever chosen: the attempts go on with {t.outcome[1]}")
            continue
        if t.outcome[0] != "return":
            wrong_name.append(f"[{tag}] raises {t.outcome[1]}")
            continue
        v = t.outcome[1]
        got = (v[1], v[3]) if isinstance(v, (tuple, list)) and len(v) == 4 else None
        if got != sc["want"]:
            wrong_name.append(f"[{tag}] returns the paths {got}, expected {sc['want']}")
        # whatever this call created and does not return must be closed and removed again; what existed before is never touched
        created = [e.path for e in opens if e.ok]
        closed = [e.path for e in t.kinds("CLOSE")]
        removed = [e.path for e in t.kinds("REMOVE")]
        for p_ in created:
            if got is not None and p_ in got:
                continue
            if p_ not in closed or p_ not in removed:
                leaks.append(f"[{tag}] {p_} was created by this call and is {'not closed' if p_ not in closed else 'not removed'} when the attempt is abandoned")
        for p_ in removed:
            if p_ in t.preexisting:
                touched.append(f"[{tag}] {p_} existed before the run and is removed")
    if n_open < 10:
        raise AnalysisError(f"_create_output_file opens only {n_open} files over all scenarios")
    ctx.ob("R15.1", "if opening the tmp file fails, the output file created a moment ago at the requested path is closed and removed", not leaks,
           detail=leaks[:3], where=f.fq, construct="failure of the tmp file with the output file open", loc=loc(f, f.node),
           message=f"{leaks[:1]}",
           consequence="with a stale <name>.h5.tmp present: an empty <name>.h5 is created at the requested path, its "
                       "handle leaks, and the data goes to <name>-1.h5",
           witness={"input": "touch z.h5.tmp; SolverOptions(output_file='z.h5')"})
    ctx.ob("R15.1", "a file that existed before the run is never removed by the clean-up of a failed attempt", not touched, detail=touched[:3],
           where=f.fq, construct="reset of the file handle per attempt", loc=loc(f, f.node), message=f"{touched[:1]}",
           consequence="with name clashes on two consecutive names (stale <name>.h5.tmp and an existing <name>-1.h5) the user's existing "
                       "<name>-1.h5 is deleted",
           witness={"input": "touch z.h5.tmp; existing z-1.h5; SolverOptions(output_file='z.h5')"})
    ctx.ob("R15.3", "a name clash bumps the serial number and retries: the files returned are <name>.h5, <name>-1.h5, <name>-2.h5 ... with their .tmp",
           not wrong_name, detail=wrong_name[:3], where=f.fq, construct="serial-number retry", loc=loc(f, f.node),
           message=f"the name chosen for the output file is not the requested one with the next free serial number: {wrong_name[:1]}",
           consequence="an existing output file is overwritten or the solver loops forever")
    ctx.ob("R15.3", "output and tmp file are created exclusively (mode 'x')", not non_excl, detail=non_excl[:3], where=f.fq,
           construct="open mode of the output files", loc=loc(f, f.node), message=f"{non_excl[:1]}",
           consequence="an existing file at the requested path is modified")


def _path_pruned(cfg, src, dst, skip, rname):
    """cfg.path that never takes the branch of `if <rname> is [not] None` on which rname would be unbound."""
    from collections import deque
    skip = set(skip)
    prev = {}
    dq = deque([src])
    seen = {src}
    while dq:
        u = dq.popleft()
        if u == dst:
            out = []
            while u != src:
                p, lab = prev[u]
                out.append((u, lab))
                u = p
            out.append((src, "start"))
            return out[::-1]
        n = cfg.nodes[u]
        for v, lab in cfg.succ[u]:
            if v in skip or v in seen:
                continue
            if lab == "exc":
                continue      # a failure of the cleanup itself is outside the model
            if n.kind == "if" and n.ast is not None:
                t = norm(n.ast.test)
                if (t == f"{rname} is not None" and lab == "false") or (t == f"{rname} is None" and lab == "true"):
                    continue
            seen.add(v)
            prev[v] = (u, lab)
            dq.append(v)
    return None


def context_manager(ctx):
    repo = ctx.repo
    dh = repo.cls(RUNNER, "DataHandler")
    sites = []
    for f in repo.all_functions():
        env = None
        for n in own_nodes(f.node):
            if isinstance(n, ast.Call) and isinstance(n.func, ast.Name) and n.func.id == "DataHandler":
                r = repo.resolve_name_expr(f.module, n.func)
                if r is dh:
                    pm = parent_map(f.node)
                    par = pm[id(n)][0]
                    sites.append((f, n, isinstance(par, ast.withitem)))
    ok = bool(sites) and all(w for _, _, w in sites)
    ctx.ob("R15.2", "every DataHandler(...) is a `with` item", ok, detail=[f"{f.fq} L{n.lineno} with={w}" for f, n, w in sites],
           where="repo", construct="DataHandler construction sites", message="DataHandler is constructed outside a with statement",
           consequence="an exception between construction and close leaves the output and tmp files open")
    ex = dh.methods["__exit__"]
    cl = dh.methods["close"]
    from ..handler_trace import trace_close
    bad_exit, missing = [], []
    for tmp, tempdir, exc, frames in ((True, True, False, 2), (True, False, True, 2), (False, False, False, 2), (False, True, True, 2),
                                      (True, True, True, 0), (True, False, False, 0), (True, True, True, 1)):
        for method in ("close", "__exit__"):
            if method == "close" and exc:
                continue
            t = trace_close(repo, {"tmp": tmp, "tempdir": tempdir, "method": method, "exc": exc, "frames": frames})
            tag = f"{method}: tmp file {'open' if tmp else 'absent'}, temp dir {'in use' if tempdir else 'absent'}, {frames} frame(s) saved so far" + (", an exception is passing" if exc else "")
            if t.outcome[0] != "return":
                (bad_exit if method == "__exit__" else missing).append(f"[{tag}] raises {t.outcome[1]}")
                continue
            closed = [e.path for e in t.kinds("CLOSE")]
            want = ["output file closed" if "OUT" not in closed else None,
                    "tmp file closed" if tmp and "TMP" not in closed else None,
                    "tmp file removed" if tmp and "p.h5.tmp" not in [e.path for e in t.kinds("REMOVE")] else None,
                    "temp dir removed" if tempdir and not t.kinds("CLEANUP") else None]
            lacking = [w for w in want if w]
            if lacking:
                (bad_exit if method == "__exit__" else missing).append(f"[{tag}] does not do: {lacking}")
            if method == "__exit__" and t.outcome[1]:
                bad_exit.append(f"[{tag}] returns {t.outcome[1]!r}: the exception is swallowed")
    ctx.ob("R15.2", "__exit__ reaches self.close() on every normal path and returns a falsy value", not bad_exit,
           detail=bad_exit[:3], where=ex.fq, construct="__exit__", loc=loc(ex, ex.node),
           message=f"__exit__ can return without closing, or swallows the exception: {bad_exit[:1]}",
           consequence="a failed update leaves files open / the error is silently swallowed and an empty solution returned")
    ctx.ob("R15.2", "close() closes both files, removes the tmp file and the temp directory", not missing,
           detail=missing[:3], where=cl.fq, construct="close()", loc=loc(cl, cl.node),
           message=f"close() does not do: {missing[:2]}", consequence="temporary files remain after a stopped simulation")
    # everything in solve() that touches the files is inside the with
    fs = repo.func(SOLVER, "TDGLSolver.solve")
    pm = parent_map(fs.node)
    outside = []
    for n in own_nodes(fs.node):
        if isinstance(n, ast.Name) and n.id == "data_handler" and isinstance(n.ctx, ast.Load):
            st = n
            while not isinstance(st, ast.stmt):
                st = pm[id(st)][0]
            if not any(isinstance(g, ast.With) for g, _ in guards_of(fs.node, st, pm)):
                outside.append(f"L{st.lineno}")
    ctx.ob("R15.2", "solve() uses the handler only inside its with block", not outside, detail=outside, where=fs.fq,
           construct="uses of data_handler", message=f"data_handler used outside the with block at {outside}",
           consequence="files are used after close / left open on error")


def open_modes(ctx):
    repo = ctx.repo
    calls = []
    for f in repo.all_functions():
        for n in own_nodes(f.node):
            if isinstance(n, ast.Call) and norm(n.func) in ("h5py.File", "File") and n.args:
                mode = None
                if len(n.args) > 1:
                    mode = n.args[1]
                for k in n.keywords:
                    if k.arg == "mode":
                        mode = k.value
                calls.append((f, n, mode))
    bad = []
    modes = {}
    for f, n, mode in calls:
        ms: Set[str] = set()
        if mode is None:
            ms = {"r"}
        elif isinstance(mode, ast.Constant):
            ms = {mode.value}
        elif isinstance(mode, ast.Name):
            for x in ast.walk(f.node):
                if isinstance(x, ast.Assign) and any(isinstance(t, ast.Name) and t.id == mode.id for t in x.targets):
                    ms |= {c.value for c in ast.walk(x.value) if isinstance(c, ast.Constant) and isinstance(c.value, str)}
        modes[f"{f.fq} L{n.lineno}"] = sorted(ms)
        for m in ms:
            if m in ("r", "x"):
                continue
            if m == "r+" and f.qual == "Solution._save_to_hdf5_file":
                continue
            bad.append(f"{f.fq} L{n.lineno}: mode {m!r}")
    ctx.ob("R15.3", f"all {len(calls)} h5py.File calls use 'r', 'x', or 'r+' on the solution's own file", not bad and len(calls) >= 5,
           detail=modes, where="repo", construct="h5py.File modes", message=f"files are opened with truncating/appending modes: {bad}",
           consequence="an existing file at the requested path is modified or truncated")
    # solve() appends the Solution to data_handler.output_path only
    fs = repo.func(SOLVER, "TDGLSolver.solve")
    sol = [n for n in own_nodes(fs.node) if isinstance(n, ast.Call) and norm(n.func) == "Solution"]
    # the handler is the `as` name of `with DataHandler(...) as <h>` (whatever it is called)
    hnames = {norm(it.optional_vars) for w in own_nodes(fs.node) if isinstance(w, ast.With) for it in w.items
              if isinstance(it.context_expr, ast.Call) and norm(it.context_expr.func) == "DataHandler" and it.optional_vars is not None}
    ok = len(sol) == 1 and len(hnames) == 1 and any(k.arg == "path" and norm(k.value) == f"{next(iter(hnames))}.output_path" for k in sol[0].keywords)
    ctx.ob("R15.3", "the Solution is appended to the file this run created (data_handler.output_path)", ok,
           detail=[norm(s)[:200] for s in sol], where=fs.fq, construct="Solution(path=...)", message="Solution path is not the handler's output path",
           consequence="the solution metadata is written into a pre-existing user file")


def cancellation(ctx):
    repo = ctx.repo
    f = repo.func(RUNNER, "Runner._run_stage")
    fr = repo.func(RUNNER, "Runner.run")
    from ..run_rules import loop_verdicts, run_verdicts
    Vl, Vr = loop_verdicts(repo), run_verdicts(repo)
    ctx.ob("R15.4", "interrupt handler: a cancelled stage stops updating, asks the user exactly when pause_on_interrupt is set, resumes on 'y' and "
                    "otherwise ends with the frame of the interrupted step", not Vl["cancel"], detail=Vl["cancel"][:4], where=f.fq,
           construct="KeyboardInterrupt handler", loc=loc(f, f.node), message=f"interrupt handler leaves the loop without recording the cancellation: {Vl['cancel'][:1]}",
           consequence="a cancelled stage is reported as completed (or the interrupt propagates and no solution is returned)")
    wrong_ret = [x for x in Vl["cancel"] if "returns" in x]
    ctx.ob("R15.4", "_run_stage returns False exactly when the stage was cancelled", not wrong_ret, detail=wrong_ret[:3], where=f.fq,
           construct="return of _run_stage", message=f"{wrong_ret[:1]}", consequence="the caller cannot tell a cancelled thermalisation from a completed one")
    ctx.ob("R15.4", "run() returns False only for a cancelled thermalisation, True once the recorded stage was entered", not Vr["result"],
           detail=Vr["result"][:3], where=fr.fq, construct="returns of run()", message=f"{Vr['result'][:1]}",
           consequence="a cancelled recorded stage returns no Solution although frames were written")
    errs = Vl["errors"] + Vr["errors"]
    ctx.ob("R15.11", "an error raised by the update or the frame writer leaves the stage and run() as that error; no update runs after it", not errs,
           detail=errs[:4], where=f.fq, construct="propagation of an error raised in a step", loc=loc(f, f.node),
           message=f"an error raised inside a step is swallowed by the loop: {errs[:2]}",
           consequence="a run that failed is reported as completed: frames after the failure are written from a state that was never computed")
    from ..report import Shared
    from . import c05
    c05.records(Shared(ctx, {"R05.3": "R15.12"},
                       consequence="a record (dt, probe values) is written into the runner's buffer before the step is complete: an interrupt between the psi "
                                   "step and the end of update() leaves a record of a step that was never taken - the final frame of the cancelled run "
                                   "holds more time steps than were completed"), f)
    fs = repo.func(SOLVER, "TDGLSolver.solve")
    # solve() followed to its end (pvs/tables.py; private helpers of the solver included) for run() -> True / False
    from ..tables import solve_outcomes
    bad4 = []
    for ran, events, (kind, val), *_ in solve_outcomes(repo):
        if kind != "return":
            bad4.append(f"run() -> {ran}: solve() raises {val}")
        elif ran and (events != ["WITH-ENTER", "RUN", "SOLUTION", "SAVE", "WITH-EXIT"] or render_(val) != "SOLUTION"):
            bad4.append(f"run() -> True: {events}, returns {render_(val)[:60]}")
        elif not ran and (events != ["WITH-ENTER", "RUN", "WITH-EXIT"] or val is not None):
            bad4.append(f"run() -> False: {events}, returns {render_(val)[:60]}")
    ok = not bad4
    ctx.ob("R15.4", "solve() builds and saves the Solution iff run() returned True, inside the with block", ok, where=fs.fq,
           construct="Solution construction", detail=bad4, message=f"Solution is not built exactly when data was generated: {bad4[:2]}",
           consequence="cancellation returns None although a partial result exists")


def frame_atomicity(ctx):
    """R15.5 by failure injection in the model: DataHandler.save_time_step (and what it calls) is followed (pvs/shapes.py) for frame 0
    and frame 1; during frame 1 the n-th write into the output file - n = 1 .. all of them - raises OSError / KeyboardInterrupt
    before it takes effect.  Afterwards the exception must have propagated, `data/1` must not exist and the frame counter must still
    say 1 - whether the cleanup is a try/except, a context manager or a helper."""
    from ..shapes import MANY, write_frames
    repo = ctx.repo
    f = repo.func(RUNNER, "DataHandler.save_time_step")
    sizes = {"dt": 1, "mu": MANY, "theta": MANY, "screening_iterations": 1}
    out, problems, mach = write_frames(repo, sizes, MANY, 1, fail={"at": -1, "exc": "OSError"})
    if problems:
        raise AnalysisError(f"the frame writer does not run through in the model: {problems[0]}")
    n_points = mach.fail["count"]
    points = list(mach.fail["points"])
    if n_points < 6:
        raise AnalysisError(f"only {n_points} writes into the output file found while following save_time_step for one frame")
    bad, narrow = [], []
    for exc in ("OSError", "KeyboardInterrupt"):
        for n in range(1, n_points + 1):
            out, problems, mach = write_frames(repo, sizes, MANY, 1, fail={"at": n, "exc": exc})
            data = out.items["data"]
            left = [k for k in data.items if str(k) == "1"]
            raised = bool(problems) and exc in problems[0]
            if left or not raised or mach.self_state.get("save_number") != 1:
                what = (f"{exc} at write {n} ({points[n - 1]}): " + ("data/1 is left behind with " + str(sorted(map(str, data.items[left[0]].items))
                                                                     + sorted(map(str, data.items[left[0]].attrs.items))) if left else
                                                                     "the exception does not propagate" if not raised else
                                                                     f"the frame counter is {mach.self_state.get('save_number')}"))
                bad.append(what)
                if exc == "KeyboardInterrupt":
                    narrow.append(n)
    only_interrupt = bad and all(x.startswith("KeyboardInterrupt") for x in bad)
    ctx.ob("R15.5", "a failure (OSError or KeyboardInterrupt) at any write into a frame group removes the group, re-raises and leaves the "
                    "frame counter alone", not bad,
           detail={"write_points": points, "cases": 2 * n_points, "problems": bad[:6]}, where=f.fq, construct="frame group fill",
           loc=loc(f, f.node),
           message=("a KeyboardInterrupt while the frame is written leaves the partial group: " if only_interrupt else
                    "a failure while a frame is written leaves a partial frame: ") + "; ".join(bad[:3]),
           consequence="an I/O error (or interrupt) while writing frame k leaves data/<k> with attributes but missing datasets; "
                       "get_data_range counts it and loading the last frame fails",
           witness={"input": "OSError injected into the third group[key] = value of frame 2"})


# ---------------------------------------------------------------------------
# R15.8 a run stopped in its first step still yields a Solution
# ---------------------------------------------------------------------------

def empty_records(ctx):
    """A run cancelled (or failing) inside its first step writes only frame 0, which has no per-step records.  The frame writer is
    followed (pvs/shapes.py) for exactly that file - with and without probe / screening records configured - and
    DynamicsData.from_hdf5 is followed on it: it must return, not raise (`np.concatenate([])` raises)."""
    from ..shapes import MANY, read_records, write_frames
    repo = ctx.repo
    f = repo.func("tdgl.solution.data", "DynamicsData.from_hdf5")
    for label, sizes in (("dt only", {"dt": 1}), ("probes and screening", {"dt": 1, "mu": MANY, "theta": MANY, "screening_iterations": 1})):
        for frames, what in ((0, "frame 0 only"), (1, "frame 0 and one frame with records")):
            out, problems = write_frames(repo, sizes, MANY, frames)
            kind, val = read_records(repo, out, frames + 1) if not problems else ("raise", problems[0])
            ctx.ob("R15.8", f"records ({label}): a file with {what} loads", kind == "return", detail=str(val)[:200], where=f.fq,
                   construct=f"aggregation of the per-frame records with {what} ({label})", loc=loc(f, f.node),
                   message=f"loading a file with {what} raises {val}",
                   consequence="a run cancelled with Ctrl-C (or failing) inside its first step, or a run with solve_time=0, writes only frame 0: "
                               "tdgl.solve() then ends with 'ValueError: need at least one array to concatenate' instead of returning the partial Solution",
                   witness={"input": "KeyboardInterrupt injected into the first update of the recorded stage (pause_on_interrupt=False)"})


# ---------------------------------------------------------------------------
# R15.9 no new exception-swallowing handler on the run path
# ---------------------------------------------------------------------------
# handlers that end without re-raising, confirmed by reading (function, exception class) -> why it is right
SWALLOWING_OK = {
    ("tdgl.solver.solver:TDGLSolver.solve_for_psi_squared", "Exception"): "a failed psi solve is the documented refusal (returns None; C02 R02.5, retried by C12 R12.3)",
    ("tdgl.solver.runner:DataHandler._create_output_file", "(OSError, FileExistsError)"): "name clash: next serial number (C15 R15.1 / R15.3)",
    ("tdgl.solver.runner:Runner._run_stage", "KeyboardInterrupt"): "Ctrl-C becomes pause / cancellation (C15 R15.4)",
    ("tdgl.finite_volume.util:get_convex_polygon_area", "QhullError"): "degenerate (collinear) polygon has area 0",
    ("tdgl.solution.data:array_safe_equals", "TypeError"): "equality helper falls back to NotImplemented",
    ("tdgl.solver.options:SolverOptions.validate", "KeyError"): "unknown solver name: raises SolverOptionsError unless the string is a member name",
}
RUN_PATH_MODULES = ("tdgl.solver.", "tdgl.finite_volume.", "tdgl.solution.data")


def swallowed_errors(ctx):
    repo = ctx.repo
    seen = set()
    used = {}
    n = 0
    for f in repo.all_functions():
        if not any((f.module.name + ".").startswith(m) or f.module.name == m for m in RUN_PATH_MODULES):
            continue
        for t in own_nodes(f.node):
            if not isinstance(t, ast.Try):
                continue
            for h in t.handlers:
                n += 1
                # a handler "re-raises" when every path through it ends in raise: approximated by a raise among its top-level
                # statements or in both arms of a top-level if
                def ends_in_raise(body):
                    if not body:
                        return False
                    last = body[-1]
                    if isinstance(last, ast.Raise):
                        return True
                    if isinstance(last, ast.If):
                        return ends_in_raise(last.body) and ends_in_raise(last.orelse)
                    return False
                if ends_in_raise(h.body):
                    continue
                key = (f.fq, norm(h.type) if h.type is not None else "bare")
                seen.add(key)
                # confirmed handlers are recognised by module and exception class (an "extract function" may move them), once each
                mk = (f.module.name, key[1])
                budget = sum(1 for k_ in SWALLOWING_OK if (k_[0].split(":")[0], k_[1]) == mk)
                used[mk] = used.get(mk, 0) + 1
                # (twice the budget: one confirmed handler around two calls may be split into one handler per call)
                ok = key in SWALLOWING_OK or used[mk] <= 2 * budget
                ctx.ob("R15.9", f"{f.qual}: `except {key[1]}` does not re-raise ({SWALLOWING_OK.get(key, 'NOT in the confirmed table')[:60]})", ok,
                       where=f.fq, construct=f"except {key[1]} in {f.qual} swallows the error", loc=loc(f, h),
                       message=f"{f.qual} catches `{key[1]}` and carries on ({'; '.join(norm(x)[:40] for x in h.body)[:100]}): the failure does not stop the run",
                       consequence="an I/O error while a frame is written (or an error inside the update) is swallowed: the run continues and the "
                                   "file silently lacks a frame or holds the state of another step, instead of stopping with the frames recorded so far")
    # vacuity guard on what the rule is about: the handlers that do not re-raise (six are confirmed)
    if len(seen) < 4:
        raise AnalysisError(f"only {len(seen)} handlers that carry on after an exception found on the run path ({n} handlers in all)")
    ctx.note("swallowing_handlers", sorted(f"{a} / {b}" for a, b in seen))
