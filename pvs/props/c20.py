"""C20 - fields and potentials from currents: kernels, linearity, units, decomposition."""
from __future__ import annotations

import ast

from ..alg import AtomTable, Rat
from ..dims import B_DIM, H_DIM, DimInterp, DimMismatch, Quant, UnitStr, UnitV, Ureg, dv, lenient_env
from ..interp import Cols, Opaque, Unsupported
from ..kernel import KernelError, summarise
from ..alias import analyse
from ..src import AnalysisError, loc, norm, own_nodes

EM = "tdgl.em"
SOLN = "tdgl.solution.solution"
TECH = ("loop-nest summarisation of the numba Biot-Savart and distance kernels against the documented integrals; degree check for "
        "linearity; pint model for SI prefactors and H<->B conversion; value numbering of the loop potential; cdist dispatch followed for "
        "nine (dimension, metric) pairs; unit conversion of every returned part along reaching definitions; may-reach flows for the "
        "decomposition into parts")


def bs_spec(T, ps):
    """Documented integrals of biot_savart_2d (K x r / r^3 with r = eval - source), discretised with weights `areas`."""
    ev, pos, cur, areas = ps
    d = [T.real(f"{ev}[v0,{i}]") - T.real(f"{pos}[v1,{i}]") for i in range(3)]
    r2 = d[0] * d[0] + d[1] * d[1] + d[2] * d[2]
    pref = T.real("mu_0") / (4 * T.real("pi")) * T.real(f"{areas}[v1]") * (r2 ** -1) / T.sqrt_of(r2)
    Jx, Jy = T.real(f"{cur}[v1,0]"), T.real(f"{cur}[v1,1]")
    return {"x": pref * Jy * d[2], "y": pref * Jx * d[2], "z_a": pref * Jx * d[1], "z_b": pref * Jy * d[0]}, [Jx, Jy]


def S(T, ext, summand):
    return T.app(f"sum[v1<{ext}]", [summand])


def check(ctx):
    repo = ctx.repo
    ctx.rule("R20.11", "distance.cdist returns an array with the dtype of its first argument: every caller hands it coordinates that are "
                       "float by construction (dtype=float / astype(float) at the source, then only views)", 1)
    ctx.rule("R20.10", "no value is cast into a dtype inherited from the caller's arrays (integer positions are legal input)", 1)
    ctx.rule("R20.1", "vector kernel == mu0/(4 pi) sum_k a_k (K x r)/r^3 component by component, over all sources", 3)
    ctx.rule("R20.2", "z-only kernel == component 2 of the vector kernel", 1)
    ctx.rule("R20.3", "every output is a sum of terms homogeneous of degree one in the currents (superposition)", 2)
    ctx.rule("R20.4", "SI conversion factors in biot_savart_2d; convert_field: B<->B plain, H->B times mu0, B->H divided by mu0", 6)
    ctx.rule("R20.9", "every part of a decomposed field / potential is converted to the requested units on every path "
                      "(with and without pint quantities requested)", 3)
    ctx.rule("R20.5", "totals are exactly supercurrent + normal (+ applied) parts", 2)
    ctx.rule("R20.6", "loop potential == mu0 I a / (pi m sqrt(r^2+a^2+2 a r sin)) [(2-m)K(m) - 2E(m)], azimuthal direction", 2)
    ctx.rule("R20.8", "post-processing functions never modify their array arguments in place (or views of them)", 20)
    ctx.rule("R20.7", "distance kernels compute the named metric; cdist dispatches (dimension, metric) exhaustively", 5)
    ctx.rule("R20.12", "a result filled batch by batch is filled completely (the batch count is a ceiling quotient)", 1)
    from ..effects import batched_fill_covers
    batched_fill_covers(ctx, "R20.12", ("tdgl.solution", "tdgl.em", "tdgl.distance", "tdgl.sources"),
                        "for more evaluation points than fit one batch (and not a multiple of the batch size) the current parts of the field / vector "
                        "potential are exactly zero on the trailing points: the result no longer equals the Biot-Savart / Coulomb-kernel sum, and the "
                        "value at a point depends on how many other points share the call")
    kernels(ctx)
    units(ctx)
    decomposition(ctx)
    from ..effects import no_inherited_dtype_casts
    no_inherited_dtype_casts(ctx, "R20.10", "with integer-typed positions a non-integral height zs (or any fill value) is truncated: the field is evaluated "
                                            "at the wrong points and disagrees with the direct Biot-Savart sum",
                             modules=("tdgl.em", "tdgl.solution", "tdgl.sources", "tdgl.parameter", "tdgl.fluxoid", "tdgl.distance"))
    parts_converted(ctx)
    cdist_callers(ctx)
    loop_potential(ctx)
    distances(ctx)
    input_purity(ctx)
    ctx.assume("scipy.special.ellipk/ellipe are the complete elliptic integrals of parameter m; numba executes the scalar code as written")
    ctx.decline("agreement with numerical quadrature; accuracy close to the film plane")


def kernels(ctx):
    repo = ctx.repo
    fv = repo.func(EM, "_biot_savart_2d_vector")
    fz = repo.func(EM, "_biot_savart_2d_z")
    T = AtomTable()
    try:
        sv = summarise(T, fv.node)
        ps = [a.arg for a in fv.node.args.args]
        spec, J = bs_spec(T, ps)
        ext = f"{ps[1]}.shape[0]"
        got = {st.index: st.value for st in sv.stores}
        out = sv.stores[0].array if sv.stores else "?"
        want = {("v0", "0"): S(T, ext, spec["x"]), ("v0", "1"): -S(T, ext, spec["y"]),
                ("v0", "2"): S(T, ext, spec["z_a"]) - S(T, ext, spec["z_b"])}
        names = {("v0", "0"): "Bx = sum p Jy dz", ("v0", "1"): "By = -sum p Jx dz", ("v0", "2"): "Bz = sum p (Jx dy - Jy dx)"}
        for idx, w in want.items():
            g = got.get(idx)
            ok = g is not None and g == w and not sv.problems
            ctx.ob("R20.1", names[idx], ok, detail={"code": str(g)[:300], "problems": sv.problems}, where=fv.fq,
                   construct=f"B_out[i,{idx[1]}]", loc=loc(fv, fv.node), message=f"component {idx[1]} of the vector kernel is {str(g)[:200]}",
                   consequence="the computed field is not the Biot-Savart field of the sheet current (sign, component or kernel power wrong)")
        outer = [l for l in sv.loops if l.canon == "v0"]
        full = outer and outer[0].extent == f"{ps[0]}.shape[0]" and all(l.extent == ext for l in sv.loops if l.canon == "v1")
        # R20.3 linearity
        bad = []
        for st in sv.stores:
            for a in st.value.atoms():
                info = T.atoms[a]
                if info.fname and info.fname.startswith("sum["):
                    summand = info.args[0]
                    jn = {x for x in summand.atoms() if x.startswith(f"{ps[2]}[")}
                    if summand.num.degree_in(jn) != (1, 1) or summand.den.degree_in(jn) != (0, 0):
                        bad.append(str(summand)[:100])
            if any(not (T.atoms[a].fname or "").startswith("sum[") for a in st.value.atoms()):
                bad.append(f"non-sum term in {st.index}")
        ctx.ob("R20.3", "vector kernel: outputs are sums over all sources of terms linear in the current", not bad and bool(full),
               detail={"nonlinear": bad, "full_ranges": bool(full)}, where=fv.fq, construct="linearity of _biot_savart_2d_vector",
               message=f"non-linear or truncated terms: {bad}", consequence="superposition fails: field of J1+J2 != field(J1)+field(J2)")
        # R20.2
        T2 = T
        sz = summarise(T2, _rename_params(fz.node, [a.arg for a in fz.node.args.args], ps))
        gz = sz.stores[0].value if len(sz.stores) == 1 else None
        ctx.ob("R20.2", "_biot_savart_2d_z == _biot_savart_2d_vector[:, 2]", gz is not None and gz == got.get(("v0", "2")) and not sz.problems,
               detail={"z": str(gz)[:200]}, where=fz.fq, construct="scalar vs vector kernel", loc=loc(fz, fz.node),
               message="the z-only kernel differs from the z component of the vector kernel",
               consequence="field_at_position(vector=False) disagrees with field_at_position(vector=True)[:, 2]")
        badz = []
        if gz is not None:
            for a in gz.atoms():
                info = T2.atoms[a]
                if info.fname and info.fname.startswith("sum["):
                    summand = info.args[0]
                    jn = {x for x in summand.atoms() if x.startswith(f"{ps[2]}[")}
                    if summand.num.degree_in(jn) != (1, 1) or summand.den.degree_in(jn) != (0, 0):
                        badz.append(str(summand)[:100])
        ctx.ob("R20.3", "z kernel: linear in the current", not badz and gz is not None, detail=badz, where=fz.fq,
               construct="linearity of _biot_savart_2d_z", message=f"{badz}", consequence="superposition fails")
    except KernelError as e:
        raise AnalysisError(f"Biot-Savart kernels outside the kernel fragment: {e}")


def _rename_params(fn: ast.FunctionDef, old, new):
    import copy
    fn2 = copy.deepcopy(fn)
    mp = dict(zip(old, new))
    for n in ast.walk(fn2):
        if isinstance(n, ast.Name) and n.id in mp:
            n.id = mp[n.id]
        if isinstance(n, ast.arg) and n.arg in mp:
            n.arg = mp[n.arg]
    return fn2


def units(ctx):
    repo = ctx.repo
    f = repo.func(EM, "biot_savart_2d")
    T = AtomTable()
    ip = DimInterp(repo, T)
    env = {"x": T.real("x"), "y": T.real("y"), "z": T.real("z"), "positions": Cols([T.real("px"), T.real("py")]),
           "current_densities": Cols([T.real("Jx"), T.real("Jy")]), "z0": T.real("z0"), "areas": T.real("a"),
           "length_units": UnitStr("length"), "current_units": UnitStr("current"), "vector": True}
    try:
        fr = lenient_env(ip, f, env)
    except DimMismatch as e:
        ctx.ob("R20.4", "biot_savart_2d unit handling", False, detail=str(e), where=f.fq, construct="biot_savart_2d units",
               message=f"dimension error: {e}", consequence="DimensionalityError or wrong SI factor")
        return
    from ..dataflow import possible_callees
    kcalls = [n for n in own_nodes(f.node) if isinstance(n, ast.Call) and "_biot_savart_2d_vector" in possible_callees(f.node, n)]
    # arguments packed in a local tuple and starred (`sheet = (p, J, a); kernel(x, *sheet)`) are read element by element
    from ..dataflow import assignments as _asg
    import copy as _copy
    for kc in kcalls:
        flat = []
        for a_ in kc.args:
            defs_ = [v for _, v in _asg(f.node).get(a_.value.id, [])] if isinstance(a_, ast.Starred) and isinstance(a_.value, ast.Name) else []
            if len(defs_) == 1 and isinstance(defs_[0], ast.Tuple):
                flat += list(defs_[0].elts)
            else:
                flat.append(a_)
        if len(flat) != len(kc.args):
            kc.args = flat
    if len(kcalls) != 1 or len(kcalls[0].args) != 4:
        raise AnalysisError("biot_savart_2d no longer calls _biot_savart_2d_vector(eval_positions, positions, current_densities, areas)")

    def val(e):
        try:
            return ip.eval(e, fr)
        except Unsupported as ex:
            raise AnalysisError(f"biot_savart_2d: kernel argument `{norm(e)[:60]}` outside the supported fragment: {ex}")
    ev, pos, cd, ar = [val(a) for a in kcalls[0].args]
    kL, kI = ip.kL, ip.kI
    ok = isinstance(ev, Cols) and len(ev.cols) == 3 and ev.cols[0] == T.real("x") * kL and ev.cols[2] == T.real("z") * kL
    ctx.ob("R20.4", "evaluation points reach the kernel in metres", ok, detail=str(ev)[:200], where=f.fq, construct="eval_positions scaling",
           loc=loc(f, f.node), message=f"eval positions passed as {str(ev)[:150]}", consequence="positions are scaled by the wrong length")
    from ..interp import Concat
    p0 = pos.parts[0] if isinstance(pos, Concat) and pos.parts else pos
    ok = isinstance(p0, Cols) and p0.cols[0] == T.real("px") * kL and p0.cols[1] == T.real("py") * kL
    ctx.ob("R20.4", "source positions reach the kernel in metres", ok, detail=str(pos)[:200], where=f.fq, construct="positions scaling",
           message=f"source positions passed as {str(pos)[:150]}", consequence="positions are scaled by the wrong length")
    ok = isinstance(cd, Cols) and cd.cols[0] == T.real("Jx") * kI / kL and isinstance(ar, Rat) and ar == T.real("a") * kL ** 2
    ctx.ob("R20.4", "currents reach the kernel in A/m (scaled once), areas in m^2", ok, detail={"J": str(cd), "areas": str(ar)}, where=f.fq,
           construct="SI scaling of kernel arguments", message=f"J = {cd}, areas = {ar}", consequence="the field is off by a power of the length unit")
    rets = [n for n in own_nodes(f.node) if isinstance(n, ast.Return)]
    # every return is `<kernel result> * ureg('tesla')` (one return, or one per kernel)
    from ..dataflow import expand as _xp
    ok = bool(rets) and all(isinstance(_xp(f.node, r.value), ast.BinOp) and isinstance(_xp(f.node, r.value).op, ast.Mult) and
                            "ureg('tesla')" in (norm(_xp(f.node, r.value).left), norm(_xp(f.node, r.value).right)) for r in rets)
    ctx.ob("R20.4", "the kernel output is labelled tesla", ok, detail=[norm(r) for r in rets], where=f.fq, construct="result unit",
           message="result is not labelled tesla", consequence="downstream conversion treats SI tesla as another unit")
    # convert_field
    fc = repo.func(EM, "convert_field")
    for old_k, new_k, rel in (("B", "B", "same"), ("H", "B", "times_mu0"), ("B", "H", "div_mu0"), ("H", "H", "same")):
        T2 = AtomTable()
        ip2 = DimInterp(repo, T2)
        v = T2.real("v")
        old_u = UnitV(T2.real("ko", "pos"), B_DIM if old_k == "B" else H_DIM)
        new_u = UnitV(T2.real("kn", "pos"), B_DIM if new_k == "B" else H_DIM)
        try:
            q = ip2.call_function(fc, [v, new_u], {"old_units": old_u, "ureg": Ureg(), "with_units": True})
            si_in = v * old_u.factor
            want = {"same": si_in, "times_mu0": si_in * ip2.mu0, "div_mu0": si_in / ip2.mu0}[rel]
            ok = isinstance(q, Quant) and q.unit.dims == new_u.dims and q.si() == want
            det = {"result_SI": str(q.si()) if isinstance(q, Quant) else str(q), "expected_SI": str(want)}
        except (Unsupported,) as e:
            ok, det = False, {"error": str(e)}
        ctx.ob("R20.4", f"convert_field {old_k} -> {new_k}: {rel}", ok, detail=det, where=fc.fq, construct=f"convert_field {old_k}->{new_k}",
               loc=loc(fc, fc.node), message=f"convert_field {old_k}->{new_k}: {det}",
               consequence="H<->B conversion does not round-trip (factor mu0 applied in the wrong direction)")


def decomposition(ctx):
    """R20.5 by may-reach analysis (pvs/flows.py): both current components (and, for the potential, the applied part) influence
    what is returned; the total is returned as a `sum(...)` and the parts are returned when no sum is requested.  Independent of
    whether the parts are produced by a loop, a comprehension, a nested function or two statements."""
    from ..flows import reaching_labels
    repo = ctx.repo

    def component(x):
        if isinstance(x, ast.Attribute) and norm(x.value) == "self" and x.attr in ("supercurrent_density", "normal_current_density"):
            return x.attr
        if isinstance(x, ast.Call) and norm(x.func) == "self.applied_vector_potential":
            return "applied"
        return None
    for qual, want in (("Solution.field_at_position", {"supercurrent_density", "normal_current_density"}),
                       ("Solution.vector_potential_at_position", {"supercurrent_density", "normal_current_density", "applied"})):
        f = repo.func(SOLN, qual)
        reach = reaching_labels(f.node, component)
        got = reach.get("<return>", set())
        rets = [n.value for n in own_nodes(f.node) if isinstance(n, ast.Return) and n.value is not None]
        sums = [r for r in rets if isinstance(r, ast.Call) and norm(r.func) in ("sum", "np.sum", "numpy.sum", "math.fsum")]
        parts = [r for r in rets if r not in sums]
        # the summed container must itself be influenced by every component
        sum_ok = False
        for r in sums:
            inner = set()
            for x in ast.walk(r):
                if isinstance(x, ast.Name) and isinstance(x.ctx, ast.Load):
                    inner |= reach.get(x.id, set())
                c = component(x)
                if c:
                    inner.add(c)
            sum_ok = sum_ok or want <= inner
        ok = want <= got and sum_ok and bool(parts)
        ctx.ob("R20.5", f"{qual}: total == sum of the {sorted(want)} parts; the parts are returned when no sum is requested", ok,
               detail={"components_reaching_the_result": sorted(got), "returns": [norm(r)[:60] for r in rets]}, where=f.fq,
               construct=f"decomposition of {qual}", loc=loc(f, f.node),
               message=f"{qual}: components reaching the result {sorted(got)} (wanted {sorted(want)}); summed return covers all: {sum_ok}; returns {[norm(r)[:40] for r in rets]}",
               consequence="the total omits or double counts a current component (or the applied part)")


def parts_converted(ctx):
    """R20.9: every part of what is returned - an entry stored in / appended to the returned container, an argument of the returned
    tuple constructor, an element of a returned literal, an operand of a returned sum - is, on every path, the result of
    `.to(units)` / `convert_field(., units, ...)`, possibly stripped of its units afterwards (`.magnitude`).  Parts are followed
    backwards along reaching definitions (flow-sensitive), whatever way the container is built."""
    from ..cfg import build_cfg, parent_map
    from ..dataflow import stmt_of, reaching_defs
    repo = ctx.repo
    for qual in ("Solution.vector_potential_at_position", "Solution.field_at_position"):
        f = repo.func(SOLN, qual)
        fn = f.node
        params = [a.arg for a in fn.args.args + fn.args.kwonlyargs]
        if "units" not in params:
            raise AnalysisError(f"{qual} no longer takes `units`")
        cfg = build_cfg(fn)
        pm = parent_map(fn)

        def converts(value) -> bool:
            for c in ast.walk(value):
                if isinstance(c, ast.Call):
                    if isinstance(c.func, ast.Attribute) and c.func.attr in ("to", "ito") and c.args and norm(c.args[0]) == "units":
                        return True
                    if norm(c.func).split(".")[-1] == "convert_field" and len(c.args) >= 2 and norm(c.args[1]) == "units":
                        return True
            return False

        # ---- the parts of the returned value ------------------------------------------------------------------------
        found = []           # (part expression, statement where it is read, description)
        seen = set()

        def parts(e, at):
            if isinstance(e, ast.Starred):
                return parts(e.value, at)
            if isinstance(e, ast.Name):
                key = (e.id, id(at))
                if key in seen:
                    return
                seen.add(key)
                grew = False
                for n in own_nodes(fn):          # entries stored into / appended to the container
                    if isinstance(n, ast.Assign):
                        for t in n.targets:
                            if isinstance(t, ast.Subscript) and isinstance(t.value, ast.Name) and t.value.id == e.id:
                                found.append((n.value, n, norm(t)))
                                grew = True
                    if isinstance(n, ast.Call) and isinstance(n.func, ast.Attribute) and isinstance(n.func.value, ast.Name) \
                            and n.func.value.id == e.id and n.func.attr in ("append", "insert") and n.args:
                        found.append((n.args[-1], stmt_of(n, pm), norm(n)[:60]))
                        grew = True
                for st, v in reaching_defs(fn, e.id, at, cfg):
                    if v is None:
                        continue
                    if isinstance(v, (ast.Dict, ast.List, ast.Tuple, ast.ListComp, ast.GeneratorExp, ast.DictComp)) or (
                            isinstance(v, ast.Call) and (norm(v.func).split(".")[-1][:1].isupper() or norm(v.func) in ("dict", "list", "tuple", "sum"))):
                        parts(v, st)
                    elif not grew:
                        found.append((v, st, f"{e.id} = {norm(v)[:40]}"))
                return
            if isinstance(e, ast.Dict):
                for k, v in zip(e.keys, e.values):
                    found.append((v, at, f"{{{norm(k) if k is not None else '**'}: ...}}")) if k is not None else parts(v, at)
                return
            if isinstance(e, (ast.List, ast.Tuple)):
                for v in e.elts:
                    if isinstance(v, ast.Starred):
                        parts(v.value, at)
                    else:
                        found.append((v, at, f"element {norm(v)[:40]}"))
                return
            if isinstance(e, (ast.ListComp, ast.GeneratorExp)):
                found.append((e.elt, at, f"element {norm(e.elt)[:40]} of a comprehension"))
                return
            if isinstance(e, ast.DictComp):
                found.append((e.value, at, f"value {norm(e.value)[:40]} of a comprehension"))
                return
            if isinstance(e, ast.Call):
                nm = norm(e.func)
                if nm in ("sum", "np.sum", "numpy.sum", "math.fsum", "list", "tuple", "dict") or nm.split(".")[-1][:1].isupper():
                    for a_ in e.args:
                        if isinstance(a_, (ast.Name, ast.Starred, ast.Dict, ast.List, ast.Tuple, ast.ListComp, ast.GeneratorExp, ast.DictComp)) \
                                or (isinstance(a_, ast.Call) and isinstance(a_.func, ast.Attribute) and a_.func.attr in ("values",)):
                            if nm.split(".")[-1][:1].isupper() and isinstance(a_, ast.Name):
                                found.append((a_, at, f"{nm}(... {a_.id} ...)"))
                            else:
                                parts(a_, at)
                        else:
                            found.append((a_, at, f"{nm}(... {norm(a_)[:30]} ...)"))
                    for k in e.keywords:
                        found.append((k.value, at, f"{nm}({k.arg}=...)")) if k.arg is not None else parts(k.value, at)
                    return
                if isinstance(e.func, ast.Attribute) and e.func.attr == "values" and not e.args:
                    return parts(e.func.value, at)
            if isinstance(e, ast.BinOp) and isinstance(e.op, ast.Add):
                parts(e.left, at)
                parts(e.right, at)
                return
            found.append((e, at, norm(e)[:50]))
        for r in own_nodes(fn):
            if isinstance(r, ast.Return) and r.value is not None:
                parts(r.value, r)
        # the same part is found through `return sum(c)` and `return c`
        uniq = {}
        for e, at, txt in found:
            uniq.setdefault((id(e), id(at)), (e, at, txt))
        found = list(uniq.values())
        if not found:
            raise AnalysisError(f"{qual}: no part is stored into the returned container")

        # ---- each part is converted on every path -----------------------------------------------------------------------
        def converted(e, at, depth=0, trail=()):
            """None if converted on every path, else a description of the unconverted source"""
            if depth > 12:
                raise AnalysisError(f"{qual}: definition chain too deep for R20.9")
            if isinstance(e, ast.Attribute) and e.attr in ("magnitude", "m"):
                return converted(e.value, at, depth + 1, trail)
            if isinstance(e, ast.IfExp):
                return converted(e.body, at, depth + 1, trail) or converted(e.orelse, at, depth + 1, trail)
            if isinstance(e, ast.Name):
                if e.id in params:
                    return f"parameter {e.id}"
                defs = reaching_defs(fn, e.id, at, cfg)
                if not defs:
                    raise AnalysisError(f"{qual}: no definition of `{e.id}` reaches L{at.lineno} (code shape outside the fragment of R20.9)")
                for st, v in defs:
                    if v is None:
                        raise AnalysisError(f"{qual}: `{e.id}` is bound by `{norm(st)[:50]}` (code shape outside the fragment of R20.9)")
                    if (id(st), e.id) in trail:
                        continue
                    why = converted(v, st, depth + 1, trail + ((id(st), e.id),))
                    if why:
                        return why
                return None
            if converts(e):
                return None
            return f"L{getattr(e, 'lineno', at.lineno)}: `{norm(e)[:60]}`"
        for e, at, txt in found:
            why = converted(e, at)
            ctx.ob("R20.9", f"{qual}: `{txt}` holds a value converted to `units` on every path", why is None,
                   detail={"unconverted_source": why}, where=f.fq, construct=f"unit conversion of the part stored by `{txt}`", loc=loc(f, at),
                   message=f"`{txt}` can be reached without converting its value to the requested units: it can hold {why}",
                   consequence="for some flag combination (e.g. with_units=False and non-default units) one part is returned in the default "
                               "units while the others are converted: the total is not the sum of the correctly converted parts",
                   witness={"unconverted": why})


def loop_potential(ctx):
    repo = ctx.repo
    f = repo.func(EM, "current_loop_vector_potential")
    T = AtomTable()
    ip = DimInterp(repo, T)
    # the loop centre is symbolic: everything below is in coordinates relative to it
    X, Y, Z = T.real("x"), T.real("y"), T.real("z")
    cx, cy, cz = T.real("cx"), T.real("cy"), T.real("cz")
    x, y, z = X - cx, Y - cy, Z - cz
    env = {"positions": Cols([X, Y, Z]), "loop_center": Cols([cx, cy, cz]), "loop_radius": T.real("R", "pos"),
           "current": T.real("I"), "length_units": UnitStr("length"), "current_units": UnitStr("current")}
    ip.ext_overrides["scipy.constants.mu_0"] = None
    try:
        fr = lenient_env(ip, f, dict(env, mu_0=ip.mu0))
    except DimMismatch as e:
        raise AnalysisError(str(e))
    rets = [n for n in own_nodes(f.node) if isinstance(n, ast.Return)]
    if len(rets) != 1:
        raise AnalysisError("current_loop_vector_potential no longer has a single return")
    try:
        out = ip.eval(rets[0].value, fr)
    except Unsupported as e:
        raise AnalysisError(f"current_loop_vector_potential return value outside the fragment: {e}")
    a = T.real("R") * ip.kL
    I = T.real("I") * ip.kI
    r = T.sqrt_of((x * ip.kL) ** 2 + (y * ip.kL) ** 2 + (z * ip.kL) ** 2)
    sin_t = T.app("sin", [T.app("arccos", [z * ip.kL / r])])
    den = r ** 2 + a ** 2 + 2 * a * r * sin_t
    m = 4 * a * r * sin_t / den
    K, E = T.app("ellipk", [m]), T.app("ellipe", [m])
    want = ip.mu0 * I * a / (ip.pi * m * T.sqrt_of(den)) * ((2 - m) * K - 2 * E)
    phi = T.app("arctan2", [y * ip.kL, x * ip.kL]) + ip.pi / 2
    cols = out.si().cols if isinstance(out, Quant) and isinstance(out.mag, Cols) else None
    ok = cols is not None and len(cols) == 3 and cols[0] == want * T.app("cos", [phi]) and cols[1] == want * T.app("sin", [phi]) \
        and cols[2].is_zero() and out.unit.dims == dv(M=1, L=1, T=-2, I=-1)
    ctx.ob("R20.6", "A == mu0 I a/(pi m sqrt(r^2+a^2+2 a r sin(theta))) [(2-m)K(m) - 2E(m)] x azimuthal unit vector, in T m", ok,
           detail={"returned": str(out)[:300]}, where=f.fq, construct="loop potential", loc=loc(f, f.node),
           message=f"loop potential is {str(out)[:200]}", consequence="the closed form disagrees with the Biot-Savart integral of a current loop")
    okdir = cols is not None and (cols[0] * T.app("sin", [phi]) == cols[1] * T.app("cos", [phi]))
    ctx.ob("R20.6", "direction is azimuthal: A_x sin(phi') == A_y cos(phi') with phi' = atan2(y,x) + pi/2", okdir, where=f.fq,
           construct="loop potential direction", message="the loop potential is not azimuthal", consequence="wrong handedness / radial component")


def distances(ctx):
    repo = ctx.repo
    for name, dim, root in (("sqeuclidean_distance_2d", 2, False), ("sqeuclidean_distance_3d", 3, False),
                            ("euclidean_distance_2d", 2, True), ("euclidean_distance_3d", 3, True)):
        f = repo.func("tdgl.distance", name)
        T = AtomTable()
        try:
            sm = summarise(T, f.node)
        except KernelError as e:
            raise AnalysisError(f"{f.fq}: {e}")
        a, b = [x.arg for x in f.node.args.args]
        d2 = Rat.const(T, 0)
        for i in range(dim):
            dd = T.real(f"{a}[v0,{i}]") - T.real(f"{b}[v1,{i}]")
            d2 = d2 + dd * dd
        want = T.sqrt_of(d2) if root else d2
        ok = len(sm.stores) == 1 and sm.stores[0].index == ("v0", "v1") and sm.stores[0].value == want and \
            [l.extent for l in sm.loops] == [f"{a}.shape[0]", f"{b}.shape[0]"]
        ctx.ob("R20.7", f"{name}: out[i,j] == {'|' if root else ''}XA_i - XB_j{'|' if root else '|^2'} over all pairs", ok,
               detail=str(sm.stores[0].value)[:200] if sm.stores else None, where=f.fq, construct=name, loc=loc(f, f.node),
               message=f"{name} computes {str(sm.stores[0].value)[:150] if sm.stores else None}", consequence="vector potentials use wrong distances")
    # the dispatch of cdist, followed for every (dimension, metric) pair (pvs/smallstep.py): an if-chain, a table of kernels ...
    from ..smallstep import Machine, Opaque as SOpaque, module_constants
    f = repo.func("tdgl.distance", "cdist")
    kernels = {"euclidean_distance_2d", "sqeuclidean_distance_2d", "euclidean_distance_3d", "sqeuclidean_distance_3d"}
    params = [a.arg for a in f.node.args.args]
    if params[:2] != ["XA", "XB"] or "metric" not in params:
        raise AnalysisError("cdist no longer has the signature (XA, XB, metric)")
    consts = module_constants(f.module.tree)
    table, bad = {}, []
    for da, db, metric in [(2, 2, "euclidean"), (2, 2, "sqeuclidean"), (3, 3, "euclidean"), (3, 3, "sqeuclidean"),
                           (4, 4, "euclidean"), (1, 1, "sqeuclidean"), (2, 3, "euclidean"), (3, 2, "sqeuclidean"), (2, 2, "cityblock")]:
        called = []

        def attrs(text, da=da, db=db):
            if text == "XA.shape":
                return (SOpaque("n"), da)
            if text == "XB.shape":
                return (SOpaque("m"), db)
            if text in ("XA.ndim", "XB.ndim"):
                return 2
            return NotImplemented

        def call(m, node, name, args, kwargs, called=called):
            target = m.ev(node.func) if isinstance(node.func, ast.Name) else None
            nm = target.text if isinstance(target, SOpaque) else name
            if nm in kernels:
                called.append((nm, [a.text if isinstance(a, SOpaque) else repr(a) for a in args]))
                return SOpaque(f"result of {nm}")
            return NotImplemented
        env = dict(consts)
        env.update({"XA": SOpaque("XA"), "XB": SOpaque("XB"), "metric": metric})
        kind, val = Machine(env, attrs, call, fuel=16).run_function(f.node)
        key = f"({da},{db},{metric})"
        if da == db and da in (2, 3) and metric in ("euclidean", "sqeuclidean"):
            want_k = f"{'' if metric == 'euclidean' else 'sq'}euclidean_distance_{da}d"
            table[key] = [c[0] for c in called]
            if kind != "return" or called != [(want_k, ["XA", "XB"])] or val != SOpaque(f"result of {want_k}"):
                bad.append(f"{key}: {'raises ' + str(val) if kind == 'raise' else 'calls ' + str(called)}, expected {want_k}(XA, XB)")
        else:
            table[key] = kind if kind == "raise" else [c[0] for c in called]
            if kind != "raise":
                bad.append(f"{key}: returns {val!r} instead of raising")
    ctx.ob("R20.7", "cdist dispatch: (2,euclid)->e2d, (2,sq)->sq2d, (3,euclid)->e3d, (3,sq)->sq3d; anything else raises", not bad, detail=table,
           where=f.fq, construct="cdist dispatch", loc=loc(f, f.node), message=f"dispatch: {bad[:2]}",
           consequence="a metric/dimension pair is served by the wrong kernel")


def input_purity(ctx):
    repo = ctx.repo
    mods = ("tdgl.em", "tdgl.solution.solution", "tdgl.solution.data", "tdgl.fluxoid", "tdgl.geometry", "tdgl.sources.constant",
            "tdgl.sources.loop", "tdgl.sources.scaling")
    n = 0
    for f in repo.all_functions():
        if f.module.name not in mods:
            continue
        if any(getattr(d, "attr", getattr(d, "id", "")) == "njit" or "njit" in norm(d) for d in f.node.decorator_list):
            continue          # numba kernels write their freshly allocated output arrays element-wise (covered by C09 R09.3/4)
        res = analyse(f.node)
        bad = [f"L{s_.lineno}: {norm(s_)[:70]} [{what} -> argument {lab}]" for s_, lab, what in res.writes]
        stores = [x for x in own_nodes(f.node) if isinstance(x, ast.AugAssign) or (
            isinstance(x, ast.Assign) and any(isinstance(t, ast.Subscript) for t in x.targets))]
        if not stores and not f.node.args.args:
            continue
        n += 1
        ctx.ob("R20.8", f"{f.qual} does not write into its arguments", not bad, detail=bad, nontrivial=bool(stores), where=f.fq,
               construct=f"in-place modification of an argument in {f.qual}", loc=loc(f, f.node),
               message=f"{f.qual} modifies (a view of) one of its array arguments in place: {bad}",
               consequence="computing a field rescales the caller's current array: a second call on the same solution returns a different "
                           "field (superposition / repeatability broken)",
               witness={"input": "call field_at_position twice on the same Solution"})


# ---------------------------------------------------------------------------
# R20.11 callers of cdist pass float coordinates
# ---------------------------------------------------------------------------
_VIEW = ("atleast_1d", "atleast_2d", "atleast_3d", "squeeze", "ravel", "reshape", "ascontiguousarray")


def _float_certain(fn, e, at_stmt, depth=0) -> bool:
    """Is expression e float-typed whatever the caller passed?  True for calls that pin the dtype and for views of such values."""
    from ..cfg import parent_map
    from ..dataflow import reaching_values, stmt_of
    if depth > 6:
        return False
    if isinstance(e, ast.Subscript) and isinstance(e.slice, ast.Constant) and isinstance(e.slice.value, int) and isinstance(e.value, ast.Name):
        # element i of a local bound to tuples (`a, b = t`): element i of every tuple that reaches here
        from ..dataflow import reaching_defs as _rd
        ds = _rd(fn, e.value.id, at_stmt)
        if ds and all(isinstance(v, ast.Tuple) and len(v.elts) > e.slice.value for _, v in ds):
            return all(_float_certain(fn, v.elts[e.slice.value], st_, depth + 1) for st_, v in ds)
    if isinstance(e, (ast.Subscript, ast.Starred)):
        return _float_certain(fn, e.value, at_stmt, depth + 1)
    if isinstance(e, ast.Attribute) and e.attr in ("T", "real"):
        return _float_certain(fn, e.value, at_stmt, depth + 1)
    if isinstance(e, ast.Call):
        name = norm(e.func).split(".")[-1]
        dt = next((norm(k.value) for k in e.keywords if k.arg == "dtype"), None)
        if dt in ("float", "np.float64", "numpy.float64", "np.double", "'float64'", "'float'"):
            return True
        if name == "astype" and e.args and norm(e.args[0]) in ("float", "np.float64", "numpy.float64"):
            return True
        if name in _VIEW and e.args:
            return _float_certain(fn, e.args[0], at_stmt, depth + 1)
        if name in _VIEW and isinstance(e.func, ast.Attribute):
            return _float_certain(fn, e.func.value, at_stmt, depth + 1)
        return False
    if isinstance(e, ast.BinOp):
        # arithmetic with a float-certain operand or a float literal promotes
        return any(_float_certain(fn, x, at_stmt, depth + 1) or (isinstance(x, ast.Constant) and isinstance(x.value, float)) for x in (e.left, e.right))
    if isinstance(e, ast.Name):
        params = {a.arg for a in fn.args.args + fn.args.kwonlyargs}
        from ..dataflow import reaching_defs
        defs = reaching_defs(fn, e.id, at_stmt)
        vals = [v for _, v in defs]
        if not vals:
            return False                      # a bare parameter: whatever the caller passed
        ok = True
        for st, v in defs:
            if v is None:
                # `a, b = t` with t bound to tuples: the element of every tuple that reaches here
                tgt = st.targets[0] if isinstance(st, ast.Assign) and len(st.targets) == 1 else None
                if not (isinstance(tgt, ast.Tuple) and any(isinstance(x, ast.Name) and x.id == e.id for x in tgt.elts)):
                    return False
                i = next(k for k, x in enumerate(tgt.elts) if isinstance(x, ast.Name) and x.id == e.id)
                srcs = [st.value]
                if isinstance(st.value, ast.Name):
                    srcs = [v2 for _, v2 in reaching_defs(fn, st.value.id, st)]
                for t_ in srcs:
                    if not (isinstance(t_, ast.Tuple) and len(t_.elts) == len(tgt.elts)):
                        return False
                    d_st = next((s_ for s_ in ast.walk(fn) if isinstance(s_, ast.Assign) and s_.value is t_), st)
                    ok = ok and _float_certain(fn, t_.elts[i], d_st, depth + 1)
                continue
            ok = ok and _float_certain(fn, v, st, depth + 1)
        # a parameter of the same name that is never reassigned before the use is not certain
        if e.id in params and not vals:
            return False
        return ok
    return False


def cdist_callers(ctx):
    from ..cfg import parent_map
    from ..dataflow import stmt_of
    repo = ctx.repo
    n = 0
    for f in repo.all_functions():
        if f.module.name.startswith("tdgl.test"):
            continue
        pm = None
        for c in own_nodes(f.node):
            if isinstance(c, ast.Call) and norm(c.func).split(".")[-1] == "cdist" and c.args and f.qual != "cdist":
                n += 1
                pm = pm or parent_map(f.node)
                ok = _float_certain(f.node, c.args[0], stmt_of(c, pm))
                ctx.ob("R20.11", f"{f.qual}: first argument of `{norm(c)[:60]}` is float by construction", ok, where=f.fq,
                       construct=f"cdist called with caller-typed coordinates in {f.qual}", loc=loc(f, c),
                       message=f"`{norm(c)[:70]}`: the first argument keeps whatever dtype the caller supplied, and cdist allocates its result with that dtype",
                       consequence="integer-typed evaluation positions (a plain list [[0, 0], [1, 1]]) truncate the squared distances to the mesh points: "
                                   "the supercurrent and normal-current parts of the vector potential are wrong (20 % in a small example)",
                       witness={"input": "vector_potential_at_position([[0, 0], [1, 1]], zs=1.0)"})
    if n < 1:
        raise AnalysisError("no caller of distance.cdist found")
