"""C17 - the uniform superconducting state is exactly stationary (exact arithmetic)."""
from __future__ import annotations

import ast

from ..alg import Rat, sign_of
from ..dataflow import expanded_text, guard_text, self_attr_assignments
from ..cfg import parent_map
from ..interp import EmptyArr, EnumVal, Field, LinOp
from ..model import mesh_model, new_interp
from ..ops import row_sums
from ..src import AnalysisError, loc, norm, own_nodes

SOLVER = "tdgl.solver.solver"
OPS = "tdgl.finite_volume.operators"
TECH = ("chain of exact identities at the symbolic state psi=1, mu=0, epsilon=1, A=0: block-algebra row sums of the "
        "covariant operators, value numbering of solve_for_psi_squared with a verified sqrt witness, def-use rules on the initial condition")


def check(ctx):
    repo = ctx.repo
    ctx.rule("R17.7", "the options of a saved run come back as they were: an option saved as None (terminal_psi = None: unpinned terminals) is not restored "
                      "as its default (shared with C14 R14.2)", 1)
    ctx.rule("R17.6", "in the stationary state the adaptive rule does run: it is gated by the solve-step counter only, and proposes min(1/2(dt + dt_init/1e-10), dt_max) = dt_max (shared with C12 R12.1)", 2)
    ctx.rule("R17.5", "the screening error is well defined for the current-free state: |dA| / max(|A|, positive constant) (shared with C13 R13.4)", 1)
    ctx.rule("R17.8", "the library never rewrites the user's step settings (dt_max, dt_init, adaptive ...): the maximum the step may grow to is the one configured (shared with C12 R12.6)", 1)
    ctx.rule("R17.1", "at A = 0 the link variable is 1 and every row of psi_gradient / psi_laplacian (unpinned) sums to zero", 3)
    ctx.rule("R17.2", "solve_for_psi_squared(psi=1, |psi|^2=1, mu=0, eps=1, L psi=0) returns (1, 1) for all gamma>=0, u>0, dt>0", 2)
    ctx.rule("R17.3", "supercurrent Im(conj(psi) G psi) vanishes for constant psi at A=0; zero terminal currents give zero boundary flux", 2)
    ctx.rule("R17.4", "initial condition is psi=1 (overwritten only under terminal_psi is not None), mu=0", 3)

    # R17.1 ------------------------------------------------------------------
    T, ip = new_interp(repo)
    mesh = mesh_model(repo, ip)
    mo_cls = repo.cls(OPS, "MeshOperators")
    f_set = repo.func(OPS, "MeshOperators.set_link_exponents")
    zeroA = Field("A0", "edge", comps=2)
    # A = 0: model by substituting the field's components with 0 afterwards
    mo = ip.construct(mo_cls, [mesh, EnumVal("SparseSolver.SUPERLU")],
                      {"fixed_sites": ip_idx(), "fix_psi": False})
    ip.call_method(mo, "build_operators", [], {})
    ip.call_method(mo, "set_link_exponents", [zeroA], {})
    zero = Rat.const(T, 0)
    sub = {"A0.x": zero, "A0.y": zero}

    def at_zero(m):
        out = {}
        for r, v in row_sums(m).items():
            out[r] = v.subst(sub)
        return out
    # unit atoms: exp(i*theta(A)) -> substitute inside theta -> unit_of(0) = 1
    for attr in ("psi_gradient", "psi_laplacian"):
        rs = at_zero(mo.attrs[attr])
        bad = {r: str(v) for r, v in rs.items() if not v.is_zero()}
        ctx.ob("R17.1", f"row sums of {attr} at A=0 (terminals unpinned)", not bad and bool(rs),
               detail={"row_sums": {r: str(v) for r, v in rs.items()}}, where=f_set.fq,
               construct=f"row sums of {attr} at A=0", loc=loc(f_set, f_set.node),
               message=f"{attr} does not annihilate constants at A=0: {bad}",
               consequence="psi = 1 acquires a non-zero covariant Laplacian/gradient on an irregular mesh: spurious currents")
    masked = [b for b in mo.attrs["psi_laplacian"].blocks if b.mask or b.row.name == "F"]
    ctx.ob("R17.1", "with terminal_psi unset no row of psi_laplacian is pinned", not masked,
           detail=[repr(b) for b in masked], where=f_set.fq, construct="fix_psi=False => no identity rows",
           loc=loc(f_set, f_set.node), message="identity rows are present although fix_psi is False",
           consequence="terminal sites are forced towards L psi = psi although pinning is disabled")

    # R17.2 ------------------------------------------------------------------
    f = repo.func(SOLVER, "TDGLSolver.solve_for_psi_squared")
    T2, ip2 = new_interp(repo)
    gamma = T2.real("gamma", "nonneg")
    u = T2.real("u", "pos")
    dt = T2.real("dt", "pos")
    one = Rat.const(T2, 1)
    ip2.sqrt_witnesses = [gamma * gamma + 1]           # candidate for sqrt(discriminant); verified by squaring
    assert sign_of(gamma * gamma + 1) == "pos"
    lap = LinOp("psi_laplacian", apply=lambda I, x: Rat.const(T2, 0))
    ip2.branch_policy = _accepting
    ret = ip2.call_function(f, [], dict(psi=one, abs_sq_psi=one, mu=Rat.const(T2, 0), epsilon=one, gamma=gamma,
                                        u=u, dt=dt, psi_laplacian=lap))
    ok = isinstance(ret, tuple) and len(ret) == 2 and isinstance(ret[0], Rat)
    if not ok:
        raise AnalysisError("solve_for_psi_squared returned no value on the uniform state")
    ctx.ob("R17.2", "psi' == 1", ret[0] == one, detail=str(ret[0])[:300], where=f.fq, construct="psi' at uniform state",
           loc=loc(f, f.node), message=f"psi' = {str(ret[0])[:200]} at the uniform state",
           consequence="the uniform state drifts: amplitude changes with no drive")
    ctx.ob("R17.2", "|psi'|^2 == 1", ret[1] == one, detail=str(ret[1])[:300], where=f.fq,
           construct="|psi'|^2 at uniform state", loc=loc(f, f.node),
           message=f"|psi'|^2 = {str(ret[1])[:200]} at the uniform state",
           consequence="max|d|psi|^2| is non-zero so the adaptive step never reaches dt_max")

    # R17.3 ------------------------------------------------------------------
    f_sc = repo.func(OPS, "MeshOperators.get_supercurrent")
    psi_f = Field("psi", "site", kind="complex")
    ip.site_fields["psi"] = psi_f
    js = ip.call_method(mo, "get_supercurrent", [psi_f], {})
    c = T.real("c0")  # constant real psi value (gauge: A=0, psi uniform)
    js0 = js.subst({"psi@e0": c, "psi@e1": c, "A0.x": zero, "A0.y": zero})
    ctx.ob("R17.3", "supercurrent of a constant psi at A=0 is zero", isinstance(js0, Rat) and js0.is_zero(),
           detail={"Js": str(js)[:300], "at_uniform": str(js0)}, where=f_sc.fq, construct="get_supercurrent(const)",
           loc=loc(f_sc, f_sc.node), message=f"supercurrent of constant psi at A=0 is {js0}",
           consequence="a current appears in the undriven uniform state")
    f_mb = repo.func(SOLVER, "TDGLSolver.update_mu_boundary")
    # current_density = (-1/L) * sum(currents...) : homogeneous of degree 1 in the currents
    # the density by role: the local written into self.mu_boundary[...]
    cdn = {n.value.id for n in own_nodes(f_mb.node) if isinstance(n, ast.Assign) and isinstance(n.value, ast.Name) and any(
        isinstance(t, ast.Subscript) and norm(t.value) == "self.mu_boundary" for t in n.targets)}
    cds = [n for n in own_nodes(f_mb.node) if isinstance(n, ast.Assign) and any(
        isinstance(t, ast.Name) and t.id in cdn for t in n.targets)]
    ok = len(cds) == 1 and _is_product_with_sum(cds[0].value)
    ctx.ob("R17.3", "terminal current density is a multiple of a sum of the requested currents (zero currents => zero flux)",
           ok, detail=[norm(c) for c in cds], where=f_mb.fq, construct="current_density", loc=loc(f_mb, f_mb.node),
           message="current_density is no longer (factor) * sum(currents...)",
           consequence="a terminal injects current although every requested current is zero")

    # R17.4 ------------------------------------------------------------------
    f_init = repo.func(SOLVER, "TDGLSolver.__init__")
    fn = f_init.node
    pm = parent_map(fn)
    sa = self_attr_assignments(fn)
    for attr, want in (("psi_init", "np.ones("), ("mu_init", "np.zeros(")):
        defs = sa.get(attr, [])
        txt = [expanded_text(fn, v) for _, v in defs if v is not None]
        ok = len(defs) == 1 and txt and txt[0].startswith(want)
        ctx.ob("R17.4", f"self.{attr} == {want}...)", ok, detail=txt, where=f_init.fq, construct=f"self.{attr}",
               loc=loc(f_init, defs[0][0]) if defs else "", message=f"initial {attr} is {txt}",
               consequence="the simulation does not start from psi=1, mu=0")
    stores = [n for n in own_nodes(fn) if isinstance(n, ast.Assign) and any(
        isinstance(t, ast.Subscript) and isinstance(t.value, ast.Name) and t.value.id == "psi_init" for t in n.targets)]
    bad = []
    for s in stores:
        g = guard_text(fn, s, pm)
        if not any("terminal_psi is not None" in x and not x.startswith("not ") for x in g):
            bad.append(f"L{s.lineno}: {norm(s)} under {g}")
    ctx.ob("R17.4", "psi_init is overwritten only under `terminal_psi is not None`", not bad,
           detail={"stores": [norm(s) for s in stores], "unguarded": bad}, where=f_init.fq,
           construct="psi_init[...] = ...", loc=loc(f_init, stores[0]) if stores else "",
           message=f"psi_init overwritten outside the terminal_psi guard: {bad}",
           consequence="unpinned terminals do not start from psi = 1")
    from ..report import Shared
    from . import c13
    c13.polyak(Shared(ctx, {"R13.4": "R17.5"}, only=lambda inst: inst.startswith("error =="),
                      consequence="in the undriven state A_induced is exactly zero: a floor that scales with max|A| is 0, the error is 0/0 = nan, "
                                  "and the run stops with 'failed to converge' instead of staying at psi = 1"),
               repo.func(SOLVER, "TDGLSolver.get_induced_vector_potential"))
    from . import c12
    c12.check(Shared(ctx, {"R12.1": "R17.6"}, only=lambda inst: inst.startswith("the rule applies only") or inst.startswith("tentative_dt =="),
                     consequence="the time step of the undriven uniform state never grows to dt_max (e.g. it sticks at dt_init whenever "
                                 "save_every <= adaptive_window + 1)"))
    from ..report import Shared
    from . import c14
    c14.options_none(Shared(ctx, {"R14.2": "R17.7"},
                            consequence="a quiet run with unpinned terminals that is saved, reloaded and continued with the reloaded options pins psi = 0 on the "
                                        "terminals: the uniform state is no longer stationary"))
    from ..effects import options_readonly
    options_readonly(ctx, "R17.8", "an options object used once with adaptive=False comes back with dt_max overwritten by dt_init: switched to adaptive=True "
                                   "for the next (quiet) run, the time step can never grow beyond dt_init")
    ctx.assume("exact arithmetic: whether floating-point row sums and sqrt((2z+1)^2) are exact is declined")
    ctx.assume("mu = 0 follows from the linear solve of a zero right-hand side (D.0 - B.0)")
    ctx.decline("'the adaptive time step grows to its maximum' needs dt_init/1e-10 >= 2 dt_max - dt, a relation between user options")


def ip_idx():
    from ..interp import Idx
    return Idx("F", "fixed", "site")


def _is_product_with_sum(e):
    """(a) * sum(<gen over currents>) in any order."""
    if isinstance(e, ast.BinOp) and isinstance(e.op, ast.Mult):
        for side in (e.left, e.right):
            if isinstance(side, ast.Call) and isinstance(side.func, ast.Name) and side.func.id == "sum":
                return True
    return False


def _accepting(test, fr):
    """branch policy of the psi solve: follow the path on which no discriminant is negative, whichever way the test is spelled
    (`if any(d < 0): refuse` / `if not any(d < 0): answer`)"""
    if not any(isinstance(n, ast.Compare) for n in ast.walk(test)):
        return None
    nots = 0
    while isinstance(test, ast.UnaryOp) and isinstance(test.op, ast.Not):
        nots += 1
        test = test.operand
    return nots % 2 == 1
