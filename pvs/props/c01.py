"""C01 - charge conservation per cell, terminal currents, balanced inputs accepted."""
from __future__ import annotations

import ast
import copy
from typing import Dict, Tuple

from ..alg import Rat
from ..cfg import guards_of, parent_map
from ..dataflow import assignments, expand, expanded_text, guard_text
from ..interp import Idx, Interp, Obj, Opaque, PyFunc, StoreLog, Unsupported
from ..model import new_interp
from ..ops import area_scaled, column_sums, mat_diff
from ..src import rename_id, AnalysisError, loc, norm, own_nodes
from . import c03

SOLVER = "tdgl.solver.solver"
OPS = "tdgl.finite_volume.operators"
DEVICE = "tdgl.device.device"
TECH = ("linear-operator word rewriting of solve_for_observables with the relation L = D@G established by block "
        "algebra; finite-domain evaluation of the terminal current density; predicate classification of the balance test")

# ---------------------------------------------------------------------------
# operator words
# ---------------------------------------------------------------------------
Word = Tuple[str, ...]


class Lin:
    """Formal sum of words  op1 op2 ... vec  with rational coefficients."""

    def __init__(self, terms: Dict[Word, int] = None):
        self.t = {w: c for w, c in (terms or {}).items() if c != 0}

    def __add__(self, o):
        d = dict(self.t)
        for w, c in o.t.items():
            d[w] = d.get(w, 0) + c
        return Lin(d)

    def __neg__(self):
        return Lin({w: -c for w, c in self.t.items()})

    def __sub__(self, o):
        return self + (-o)

    def apply(self, op: str):
        return Lin({(op,) + w: c for w, c in self.t.items()})

    def rewrite(self, rules):
        out: Dict[Word, int] = {}
        for w, c in self.t.items():
            w = list(w)
            changed = True
            while changed:
                changed = False
                for pat, rep in rules:
                    n = len(pat)
                    for i in range(len(w) - n + 1):
                        if tuple(w[i:i + n]) == pat:
                            w[i:i + n] = list(rep)
                            changed = True
                            break
                    if changed:
                        break
            out[tuple(w)] = out.get(tuple(w), 0) + c
        return Lin(out)

    def __eq__(self, o):
        return self.t == o.t

    def __repr__(self):
        if not self.t:
            return "0"
        return " ".join(f"{'+' if c > 0 else '-'}{abs(c) if abs(c) != 1 else ''}{'.'.join(w)}" for w, c in sorted(self.t.items()))


OPMAP = {"divergence": "D", "mu_boundary_laplacian": "B", "mu_gradient": "G", "mu_laplacian": "L"}


class WordEval:
    """Evaluates solve_for_observables over operator words.  Branches are evaluated on both
    sides and must agree on every name that is live afterwards (sibling agreement LU / pardiso)."""

    def __init__(self, fi):
        self.fi = fi
        self.problems = []
        self.solved_against = []

    def run(self):
        fn = self.fi.node
        env = {"dA_dt": Lin({("dA",): 1}), "psi": ("vec", "psi")}
        ret = self.block(fn.body, env)
        return ret, env

    def block(self, stmts, env):
        for s in stmts:
            if isinstance(s, ast.Expr):
                continue
            if isinstance(s, ast.Assign):
                v = self.ev(s.value, env)
                for t in s.targets:
                    if isinstance(t, ast.Name):
                        env[t.id] = v
                    elif isinstance(t, ast.Tuple) and isinstance(v, tuple) and len(v) == len(t.elts) and all(isinstance(x, ast.Name) for x in t.elts) \
                            and isinstance(s.value, ast.Tuple):
                        for x, vx in zip(t.elts, v):
                            env[x.id] = vx
                    else:
                        raise Unsupported(f"assignment target {norm(t)} in solve_for_observables")
            elif isinstance(s, ast.If):
                e1, e2 = dict(env), dict(env)
                r1 = self.block(s.body, e1)
                r2 = self.block(s.orelse, e2)
                if r1 is not None or r2 is not None:
                    raise Unsupported("return inside a branch of solve_for_observables")
                for k in set(e1) | set(e2):
                    a, b = e1.get(k), e2.get(k)
                    if isinstance(a, Lin) and isinstance(b, Lin):
                        if a != b:
                            self.problems.append(f"branches of `if {norm(s.test)}` give different {k}: {a} vs {b}")
                        env[k] = a
                    elif a is not None and b is not None:
                        # two function values (a transfer function chosen per backend): whichever is called, the results must agree
                        env[k] = a if a == b or not (self.is_fn(a) and self.is_fn(b)) else ("choice", [a, b])
                    else:
                        env[k] = a if a is not None else b
            elif isinstance(s, ast.Return):
                return self.ev(s.value, env)
            else:
                raise Unsupported(f"statement {type(s).__name__} in solve_for_observables")
        return None

    @staticmethod
    def is_fn(v):
        return isinstance(v, tuple) and v and v[0] in ("fn", "choice", "dictget") or (isinstance(v, tuple) and v and v[0] == "attr"
                                                                                       and v[1] in ("cupy.asnumpy", "cupy.asarray"))

    def call_value(self, f, args, node, env):
        """call of a function value: a private module-level function (its body is evaluated), a choice of several (all are evaluated
        and must agree), a host/device transfer (identity on the words)"""
        if f[0] == "choice":
            outs = [self.call_value(g, args, node, env) for g in f[1]]
            lins = [o for o in outs if isinstance(o, Lin)]
            if len(lins) == len(outs) and any(o != lins[0] for o in lins[1:]):
                self.problems.append(f"the alternatives of `{norm(node)[:60]}` give different results: {[str(o) for o in lins]}")
            return outs[0]
        if f[0] == "attr" and f[1] in ("cupy.asnumpy", "cupy.asarray"):
            return args[0]
        if f[0] == "fn":
            fn_ = f[1]
            params = [a_.arg for a_ in fn_.args.args]
            if len(params) != len(args):
                raise Unsupported(f"call {norm(node)} with {len(args)} arguments")
            r = self.block([s_ for s_ in fn_.body], dict(zip(params, args)))
            if r is None:
                raise Unsupported(f"{fn_.name} returns nothing")
            return r
        raise Unsupported(f"call {norm(node)} in solve_for_observables")

    def ev(self, e, env):
        if isinstance(e, ast.Name):
            if e.id in env:
                return env[e.id]
            mod_fn = self.fi.module.functions.get(e.id) if hasattr(self.fi.module, "functions") else None
            if mod_fn is not None and e.id.startswith("_"):
                return ("fn", mod_fn.node)
            return ("name", e.id)
        if isinstance(e, ast.Dict):
            return ("dict", [self.ev(v_, env) for v_ in e.values])
        if isinstance(e, ast.Attribute):
            base = self.ev(e.value, env)
            if base == ("ops",) and e.attr in OPMAP:
                return ("op", OPMAP[e.attr])
            if base == ("ops",):
                return ("opsattr", e.attr)
            if base == ("name", "self") and e.attr == "operators":
                return ("ops",)
            if base == ("name", "self") and e.attr == "mu_boundary":
                return Lin({("mub",): 1})
            if isinstance(base, tuple) and base and base[0] == "dict" and e.attr == "get":
                return ("dictget", base[1])
            return ("attr", norm(e))
        if isinstance(e, ast.Tuple):
            return tuple(self.ev(x, env) for x in e.elts)
        if isinstance(e, ast.UnaryOp) and isinstance(e.op, ast.USub):
            return -self.lin(self.ev(e.operand, env), e)
        if isinstance(e, ast.BinOp):
            if isinstance(e.op, ast.MatMult):
                op = self.ev(e.left, env)
                if not (isinstance(op, tuple) and op[0] == "op"):
                    raise Unsupported(f"left operand of @ is not a mesh operator: {norm(e.left)}")
                return self.lin(self.ev(e.right, env), e.right).apply(op[1])
            if isinstance(e.op, (ast.Add, ast.Sub)):
                a, b = self.lin(self.ev(e.left, env), e.left), self.lin(self.ev(e.right, env), e.right)
                return a + b if isinstance(e.op, ast.Add) else a - b
            raise Unsupported(f"operator in {norm(e)}")
        if isinstance(e, ast.Call):
            f = self.ev(e.func, env)
            if f == ("opsattr", "get_supercurrent"):
                return Lin({("Js",): 1})
            if f == ("opsattr", "mu_laplacian_lu"):
                self.solved_against.append("L (factorized mu_laplacian)")
                return self.lin(self.ev(e.args[0], env), e.args[0]).apply("Linv")
            if isinstance(f, tuple) and f[0] == "attr" and f[1].endswith("spsolve"):
                m = self.ev(e.args[0], env)
                if m != ("op", "L"):
                    self.problems.append(f"{norm(e)} solves against {norm(e.args[0])}, not mu_laplacian")
                self.solved_against.append(norm(e.args[0]))
                return self.lin(self.ev(e.args[1], env), e.args[1]).apply("Linv")
            if isinstance(f, tuple) and f[0] == "attr" and f[1] in ("cupy.asnumpy", "cupy.asarray"):
                return self.ev(e.args[0], env)
            if isinstance(f, tuple) and f and f[0] == "dictget" and len(e.args) == 2:
                # table.get(<run-time key>, default): any entry or the default
                return ("choice", list(f[1]) + [self.ev(e.args[1], env)])
            if isinstance(f, tuple) and f and f[0] in ("fn", "choice") and not e.keywords:
                return self.call_value(f, [self.ev(a_, env) for a_ in e.args], e, env)
            raise Unsupported(f"call {norm(e)} in solve_for_observables")
        if isinstance(e, ast.Compare) or isinstance(e, ast.BoolOp):
            return ("flag", norm(e))
        raise Unsupported(f"expression {norm(e)} in solve_for_observables")

    def lin(self, v, node):
        if isinstance(v, Lin):
            return v
        raise Unsupported(f"{norm(node)} is not an edge/site vector expression")


def check(ctx):
    repo = ctx.repo
    ctx.rule("R01.8", "the current scale K0 the solver reads from the device is recomputed on every access, never memoised", 6)
    ctx.rule("R01.7", "arrays handed to the Runner are fresh: no TDGLSolver/MeshOperators method returns a view of an attribute-held buffer", 12)
    ctx.rule("R01.1", "continuity: D(Js+Jn) - B mu_b == 0 as operator words, using mu = L^-1 rhs and L = D G", 2)
    ctx.rule("R01.2", "mu_laplacian == divergence @ mu_gradient with no fixed rows and no link variable", 1)
    ctx.rule("R01.3", "boundary-flux columns integrate to the boundary edge length; row zeroing unreachable from the solver", 2)
    ctx.rule("R01.4", "terminal current density == -(1/L_t) sum_{other terminals} I on exactly the terminal's boundary edges, for every "
                      "terminal and every outcome of the change-detection cache (3 terminals, 8 paths); L_t sums edge lengths over the same boundary-edge set", 9)
    ctx.rule("R01.5", "current scale J_scale = 4 (current_units/length_units)/K0, applied once to the user's currents", 2)
    ctx.rule("R01.6", "the balance test on the summed currents is a tolerance test, not an exact-zero test on a float sum", 1)

    # R01.2 / R01.3 reuse the block algebra of C03
    b = c03.build_all(ctx)
    ip, T, mesh, mo = b["ip"], b["T"], b["mesh"], b["mo"]
    fbo = repo.func(OPS, "MeshOperators.build_operators")
    DG = ip.matmul(mo.attrs["divergence"], mo.attrs["mu_gradient"])
    d = mat_diff(mo.attrs["mu_laplacian"], DG)
    unit_or_mask = [repr(x) for x in mo.attrs["mu_laplacian"].blocks + mo.attrs["mu_gradient"].blocks
                    if x.mask or any(T.atoms[a].kind == "unit" for a in x.val.atoms()) or x.row.name == "F"]
    ctx.ob("R01.2", "mu_laplacian == divergence @ mu_gradient; no identity rows, no link variable", not d and not unit_or_mask,
           detail={"diff": d, "offending_blocks": unit_or_mask}, where=fbo.fq, construct="mu_laplacian == divergence @ mu_gradient",
           loc=loc(fbo, fbo.node), message="mu_laplacian != divergence @ mu_gradient: " + "; ".join((d + unit_or_mask)[:2]),
           consequence="the Poisson solve enforces a different equation than div(Js+Jn)=flux: charge is not conserved per cell")
    areas = mesh.attrs["areas"]
    em = mesh.attrs["edge_mesh"]
    lb = ip.gather(em.attrs["edge_lengths"], em.attrs["boundary_edge_indices"])
    cs = column_sums(area_scaled(ip, mo.attrs["mu_boundary_laplacian"], areas))
    bad = {c: str(v) for c, v in cs.items() if not (v == lb)}
    ctx.ob("R01.3", "sum_i a_i B[i,b] == boundary edge length (current through a terminal = length x density)",
           not bad and bool(cs), detail={c: str(v) for c, v in cs.items()}, where=fbo.fq,
           construct="column sums of diag(areas) @ mu_boundary_laplacian", loc=loc(fbo, fbo.node),
           message=f"boundary flux matrix is not conservative: {bad}",
           consequence="the current entering through a terminal differs from the requested terminal current")
    calls = [n for n in own_nodes(fbo.node) if isinstance(n, ast.Call) and isinstance(n.func, ast.Name)
             and n.func.id == "build_neumann_boundary_laplacian"]
    ok = len(calls) == 1 and len(calls[0].args) + len(calls[0].keywords) == 1
    ctx.ob("R01.3", "build_neumann_boundary_laplacian(mesh) is called without fixed_sites", ok,
           detail=[norm(c) for c in calls], where=fbo.fq, construct="build_neumann_boundary_laplacian call",
           loc=loc(fbo, calls[0]) if calls else "", message="the boundary-flux matrix is built with fixed sites (rows zeroed)",
           consequence="terminal cells lose their share of the injected current")

    # R01.1
    fo = repo.func(SOLVER, "TDGLSolver.solve_for_observables")
    we = WordEval(fo)
    ret, env = we.run()
    if not (isinstance(ret, tuple) and len(ret) == 3 and all(isinstance(x, Lin) for x in ret)):
        raise AnalysisError("solve_for_observables no longer returns (mu, supercurrent, normal_current)")
    mu, js, jn = ret
    rules = [(("D", "G"), ("L",)), (("L", "Linv"), ())]
    resid = ((js + jn).apply("D") - Lin({("B", "mub"): 1})).rewrite(rules)
    ctx.ob("R01.1", "D(Js + Jn) - B mu_b == 0", resid == Lin() and not we.problems,
           detail={"mu": repr(mu), "Jn": repr(jn), "Js": repr(js), "residual": repr(resid), "problems": we.problems},
           where=fo.fq, construct="continuity residual", loc=loc(fo, fo.node),
           message=f"cell outflow differs from the injected terminal current by {resid!r}; {we.problems}",
           consequence="div(Js+Jn) != boundary flux in every cell where the residual word is non-zero")
    ctx.ob("R01.1", "every branch solves against mu_laplacian (LU and pardiso agree)",
           len(we.solved_against) >= 2 and not we.problems, detail=we.solved_against, where=fo.fq,
           construct="linear solves", loc=loc(fo, fo.node), message=f"solver branches disagree: {we.problems}",
           consequence="one sparse-solver option computes a different potential")

    terminal_density(ctx)
    from .c13 import scales_not_memoised
    scales_not_memoised(ctx, "R01.8")
    j_scale(ctx)
    balance_test(ctx)
    from ..effects import fresh_outputs
    fresh_outputs(ctx, "R01.7", 'an update() abandoned part-way (Ctrl-C during the Poisson solve or a screening iteration) has already overwritten the supercurrent the Runner still holds from the previous step: the frame then written pairs the new supercurrent with the old normal current' + " and D(Js+Jn) != injected current in that frame")
    ctx.assume("SuperLU/pardiso solve L mu = rhs (singular pure-Neumann system) to rounding: declined; the identity is exact-arithmetic")
    ctx.decline("numerical size of the per-cell residual; interpolated cross-section currents")


def cache_starts_with_boundary(ctx):
    """R01.4 (initial state of the invariant the eight paths rely on): the change-detection cache says what mu_boundary holds.  Both
    must therefore be created together, per solver: the constructor assigns `self.mu_boundary = zeros(...)` and
    `self.terminal_current_densities = {name: 0 ...}`.  A cache that is not (re)created by the constructor - a class attribute, a
    module table - outlives the boundary array it describes: the next solver starts with zeros on its boundary and a cache that says
    'already written'."""
    repo = ctx.repo
    fi = repo.func(SOLVER, "TDGLSolver.__init__")
    found = {"terminal_current_densities": [], "mu_boundary": []}
    for n in own_nodes(fi.node):
        if isinstance(n, (ast.Assign, ast.AnnAssign)):
            tg = n.targets if isinstance(n, ast.Assign) else [n.target]
            for t in tg:
                if isinstance(t, ast.Attribute) and isinstance(t.value, ast.Name) and t.value.id == "self" and t.attr in found and n.value is not None:
                    found[t.attr].append(n.value)

    def zero_dict(v):
        if isinstance(v, ast.DictComp):
            return isinstance(v.value, ast.Constant) and v.value.value in (0, 0.0)
        if isinstance(v, ast.Dict):
            return all(isinstance(x, ast.Constant) and x.value in (0, 0.0) for x in v.values)
        if isinstance(v, ast.Call) and norm(v.func) in ("dict.fromkeys",):
            return len(v.args) == 2 and isinstance(v.args[1], ast.Constant) and v.args[1].value in (0, 0.0)
        if isinstance(v, ast.Call) and norm(v.func) == "dict" and len(v.args) == 1:
            return zero_dict(v.args[0]) or (isinstance(v.args[0], (ast.GeneratorExp, ast.ListComp)) and isinstance(v.args[0].elt, ast.Tuple)
                                            and len(v.args[0].elt.elts) == 2 and isinstance(v.args[0].elt.elts[1], ast.Constant) and v.args[0].elt.elts[1].value in (0, 0.0))
        return False

    from ..dataflow import assignments

    def zeros(v, depth=0):
        if isinstance(v, ast.Call) and norm(v.func).split(".")[-1] in ("zeros", "zeros_like"):
            return True
        if isinstance(v, ast.Call) and norm(v.func).split(".")[-1] in ("asarray", "asnumpy", "array") and len(v.args) >= 1 and depth < 4:
            return zeros(v.args[0], depth + 1)          # host/device transfer of the same zeros
        if isinstance(v, ast.Name) and depth < 4:
            defs = [d for _, d in assignments(fi.node).get(v.id, []) if d is not None and not (isinstance(d, ast.Call) and any(
                isinstance(a, ast.Name) and a.id == v.id for a in d.args))]
            return bool(defs) and all(zeros(d, depth + 1) for d in defs)
        return False
    for attr_ in found:
        if not found[attr_] and any(isinstance(n_, ast.Constant) and n_.value == attr_ for n_ in ast.walk(fi.node)):
            raise AnalysisError(f"TDGLSolver.__init__ assigns `{attr_}` through a table of names (setattr): outside what this rule reads")
    c_ok = bool(found["terminal_current_densities"]) and all(zero_dict(v) for v in found["terminal_current_densities"])
    b_ok = bool(found["mu_boundary"]) and all(zeros(v) for v in found["mu_boundary"])
    ctx.ob("R01.4", "the change-detection cache and the boundary array it describes are created together by the constructor (all zero)", c_ok and b_ok,
           detail={k: [norm(v)[:80] for v in vs] for k, vs in found.items()}, where=fi.fq, construct="initial agreement of terminal_current_densities and mu_boundary",
           loc=loc(fi, fi.node),
           message="the constructor does not create " + ("the cache terminal_current_densities as an all-zero table" if not c_ok else "mu_boundary as zeros")
                   + f" (found: { {k: [norm(v)[:60] for v in vs] for k, vs in found.items()} })",
           consequence="a solver whose boundary array is all zero starts with a cache that claims the terminal densities are already written (e.g. a table "
                       "shared by all solvers of the process: the second solve with the same currents injects nothing, div J = 0 in the terminal cells)")


def terminal_density(ctx):
    """Interpret update_mu_boundary for three terminals over every outcome of the change-detection test."""
    import itertools
    repo = ctx.repo
    f = repo.func(SOLVER, "TDGLSolver.update_mu_boundary")
    n_paths = 0
    # quick: three terminals (8 cache outcomes); thorough: one to four terminals (2 + 4 + 8 + 16 outcomes)
    sizes = (1, 2, 3, 4) if ctx.tier == "thorough" else (3,)
    cases = [([f"T{i + 1}" for i in range(nt)], d) for nt in sizes for d in itertools.product([False, True], repeat=nt)]
    for names, decisions in cases:     # True: "cached value equals the new density"
        T, ip = new_interp(repo)
        I = {n: T.real(f"I_{n}") for n in names}
        L = {n: T.real(f"L_{n}", "pos") for n in names}
        terms = [Obj(None, {"name": n, "length": L[n], "boundary_edge_indices": Idx(f"tb_{n}", f"tbedge_{n}", "bedge")}, label=n)
                 for n in names]
        mub = StoreLog("mu_boundary")
        expected = {n: -sum((I[m] for m in names if m != n), Rat.const(T, 0)) / L[n] for n in names}
        # a cache entry that "equals" the new density is that very term; otherwise an unrelated old value
        cache = {n: (expected[n] if eq else T.real(f"old_{n}")) for n, eq in zip(names, decisions)}
        seen_t = []
        me = Obj(repo.cls(SOLVER, "TDGLSolver"), {
            "current_func": PyFunc(lambda t, _I=I, _s=seen_t: (_s.append(t), dict(_I))[1]),
            "terminal_current_densities": cache, "terminal_info": terms,
            "terminal_names": ([names[1], names[0]] + names[2:]) if len(names) > 1 else list(names), "mu_boundary": mub}, label="solver")

        def policy(test, fr, _T=T, _ip=ip):
            # decide `x != y` / `x == y` between two terms by exact equality of normal forms
            if isinstance(test, ast.Compare) and len(test.ops) == 1 and isinstance(test.ops[0], (ast.Eq, ast.NotEq)):
                a, b = _ip.eval(test.left, fr), _ip.eval(test.comparators[0], fr)
                if isinstance(a, Rat) and isinstance(b, Rat):
                    eq = a == b
                    return eq if isinstance(test.ops[0], ast.Eq) else not eq
            return None
        ip.branch_policy = policy
        tm = T.real("time")
        try:
            ip.call_function(f, [me, tm], {})
        except Unsupported as e:
            raise AnalysisError(f"update_mu_boundary outside the supported fragment: {e}")
        n_paths += 1
        stored = {}
        for idx, val in mub.stores:
            if isinstance(idx, Idx) and idx.name.startswith("tb_"):
                stored[idx.name[3:]] = val
            else:
                stored[repr(idx)] = val
        bad = []
        for n in names:
            # after the call the boundary condition of every terminal must be the density of *this* step:
            # either it was (re)written now, or the cache said it already held exactly that value
            held = (n in stored and isinstance(stored[n], Rat) and stored[n] == expected[n]) or \
                   (n not in stored and isinstance(cache.get(n), Rat) and cache[n] == expected[n] and dict(zip(names, decisions))[n])
            cache_ok = isinstance(cache.get(n), Rat) and cache[n] == expected[n]
            if not held:
                bad.append(f"{n}: boundary value {'= ' + str(stored[n]) if n in stored else 'left untouched'}, required {expected[n]}")
            elif not cache_ok:
                bad.append(f"{n}: cache holds {cache.get(n)} after the update, required {expected[n]}")
        extra = [k for k in stored if k not in names]
        desc = ", ".join(f"{n}:{'same' if d else 'changed'}" for n, d in zip(names, decisions))
        ctx.ob("R01.4", f"every terminal carries -(1/L_t) * sum of the other terminals' currents after update_mu_boundary [{desc}]",
               not bad and not extra and seen_t == [tm],
               detail={"stored": {k: str(v) for k, v in stored.items()}, "problems": bad, "other_stores": extra},
               nontrivial=not all(decisions), where=f.fq, construct="terminal boundary condition after update_mu_boundary",
               loc=loc(f, f.node),
               message=f"with change pattern [{desc}] the boundary condition is wrong: {bad or extra}",
               consequence="the current entering through a terminal is not the requested current (wrong sign, own current included, "
                           "wrong length, or a terminal left at its previous value when another terminal's current did not change)",
               witness={"change_pattern": desc, "problems": bad})
    ctx.note("update_mu_boundary_paths", n_paths)
    cache_starts_with_boundary(ctx)
    repo = ctx.repo
    # terminal length and boundary edge set agree (Device.terminal_info)
    ft = repo.func(DEVICE, "Device.terminal_info")
    fn = ft.node
    # Device.terminal_info followed for one terminal T (pvs/tables.py): the fields of the TerminalInfo it builds, however it is arranged
    from ..tables import terminal_info_fields, symbolic_text
    fields = terminal_info_fields(repo)
    if "boundary_edge_indices" not in fields or "length" not in fields:
        raise AnalysisError(f"TerminalInfo no longer has boundary_edge_indices / length ({sorted(fields)})")
    bt, lt = symbolic_text(fields["boundary_edge_indices"]), symbolic_text(fields["length"])
    tcalls = [fn]
    be = "self.mesh.edge_mesh.boundary_edge_indices"
    want_b = {f"T.contains_points((self.layer.coherence_length*self.mesh.edge_mesh.centers)[{be}],index=True)",
              f"T.contains_points(self.layer.coherence_length*self.mesh.edge_mesh.centers[{be}],index=True)"}
    want_l = {f"self.edge_lengths[{be}][{b}].sum()" for b in want_b}
    from ..dataflow import canon_text
    ok = canon_text(bt) in {canon_text(w) for w in want_b} and canon_text(lt) in {canon_text(w) for w in want_l}
    ctx.ob("R01.4", "terminal.length == sum of (dimensionful) edge lengths over exactly terminal.boundary_edge_indices",
           ok, detail={"boundary_edge_indices": bt, "length": lt}, where=ft.fq, construct="TerminalInfo length / boundary edges",
           loc=loc(ft, tcalls[0]), message=f"length = {lt}; boundary_edge_indices = {bt}",
           consequence="L_t x density != requested current: the terminal carries a different total current")


def j_scale(ctx):
    from ..dims import check_j_scale
    check_j_scale(ctx)


def classify_zero_test(test: ast.expr, names) -> str:
    """exact | tolerance | unknown for a predicate over the summed currents."""
    for n in ast.walk(test):
        if isinstance(n, ast.Call):
            fname = n.func.attr if isinstance(n.func, ast.Attribute) else getattr(n.func, "id", "")
            if fname in ("isclose", "allclose"):
                return "tolerance"
    for n in ast.walk(test):
        if isinstance(n, ast.Compare) and any(isinstance(o, (ast.Lt, ast.Gt, ast.LtE, ast.GtE)) for o in n.ops):
            sides = [n.left] + n.comparators
            if any(isinstance(c, ast.Call) and getattr(c.func, "id", getattr(c.func, "attr", "")) in ("abs", "absolute", "fabs")
                   for s_ in sides for c in ast.walk(s_)):
                # the bound must not be a bare zero
                other = [s_ for s_ in sides if not any(isinstance(c, ast.Call) for c in ast.walk(s_))]
                if any(isinstance(o, ast.Constant) and o.value == 0 for o in other):
                    return "exact"
                return "tolerance"
    t = test
    while isinstance(t, ast.UnaryOp) and isinstance(t.op, ast.Not):
        t = t.operand
    if isinstance(t, ast.Name) and t.id in names:
        return "exact"
    if isinstance(t, ast.NamedExpr):
        return "exact"
    if isinstance(t, ast.Compare) and all(isinstance(o, (ast.Eq, ast.NotEq)) for o in t.ops):
        return "exact"
    return "unknown"


def balance_test(ctx):
    repo = ctx.repo
    f = repo.func(SOLVER, "validate_terminal_currents")
    cands = [f] + [g for g in repo.module(SOLVER).functions.values() if g.parent is f]
    found = 0
    for g in cands:
        fn = g.node
        pm = parent_map(fn)
        asg = assignments(fn)
        sums = {nm for nm, ds in asg.items() for _, v in ds if v is not None and any(
            isinstance(c, ast.Call) and getattr(c.func, "id", getattr(c.func, "attr", "")) in ("sum", "fsum")
            for c in ast.walk(v))}
        for r in own_nodes(fn):
            if not isinstance(r, ast.Raise):
                continue
            for gd, br in guards_of(fn, r, pm):
                if not isinstance(gd, ast.If):
                    continue
                names = {n.id for n in ast.walk(gd.test) if isinstance(n, ast.Name)}
                if not (names & sums):
                    continue
                found += 1
                kind = classify_zero_test(gd.test, sums)
                ctx.ob("R01.6", f"`if {norm(gd.test)}: raise` in {g.qual}", kind == "tolerance",
                       detail={"test": norm(gd.test), "classified": kind, "summed": sorted(names & sums)},
                       where=g.fq, construct=f"if {norm(gd.test)}: raise", loc=loc(g, gd),
                       message=f"balanced currents are tested with `{norm(gd.test)}`, an exact-zero test on a "
                               f"floating-point sum (classified {kind})",
                       consequence="balanced inputs such as {source: 3, drain: -1, top: -2} or {0.1, 0.2, -0.3} (scaled by "
                                   "J_scale) sum to ~1e-17 and are rejected with 'must be 0'",
                       witness={"input": "terminal_currents={'source': 0.1, 'drain': 0.2, 'top': -0.3} on a 3-terminal device"})
    if not found:
        raise AnalysisError("validate_terminal_currents has no raise guarded by the summed currents")


def _loop_var_over(fn, iter_text):
    for n in own_nodes(fn):
        if isinstance(n, ast.For) and norm(n.iter) == iter_text and isinstance(n.target, ast.Name):
            return n.target.id
    raise AnalysisError(f"no loop over {iter_text}")
